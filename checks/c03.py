"""C03 — meta-filter output always stays inside the safety envelope.

Oracles: (A) envelope predicates, (B) exact-rational reference pipeline (keys, values, provenance, reasons, metrics),
(C) metamorphic: permutation invariance, repeatability, purity (arguments never mutated), and in-place edits of the
SAME ctx/state/plan objects between calls (the result may depend on nothing but the current value of the arguments).
"""
from __future__ import annotations

import copy
import math
import os
import random
from fractions import Fraction
from types import SimpleNamespace

from hypothesis import strategies as st

from harness.runner import Sub, Violation, run_hypothesis, digest

LEVEL = "exploration"
RULE = ("Hypothesis-generated (deltas with forced duplicate targets over ids that are prefixes of one another / contain "
        "':' / differ by case or digit count, 0..14 explicit deltas plus now and then a bulk of 65..160 distinct targets; "
        "ops with repeated kinds in dict/attr/dataclass/kind-less shapes; op_idx valid, None, negative, out of range; "
        "cooldown table and state.meta.cooldowns history built AROUND the turn so that ops sit just inside / just "
        "outside / in the future of their window; turn through turn_id/turn/current_turn in int/str/float/junk "
        "spellings; caps over the validator's accepted ranges incl. denormal, inf, churn relative to the number of "
        "distinct targets; ctx as bare namespace, partial mapping (defaults), or the repo's validated config with "
        "string-spelled numbers and other t4 leaves varied; state/meta as dict/object in all four mixes; plan as "
        "dataclass/dict/namespace; now and then the whole problem scaled by 2**-515..2**-600 so that the squares of the "
        "deltas are subnormal or 0.0; a second call after editing the same objects in place). Non-trivial = at least one "
        "duplicate target AND (>=2 pipeline stages fired or a value sits exactly on / one ulp around a cap). "
        "Distinct = digest of the whole input.")
ASSUMPTIONS = ["delta magnitudes are any finite floats (intermediate and final sums may overflow: the exact sum is rounded, beyond the range it is +-inf and then clamped); attrs contain no ':'",
               "L2 tolerance 1e-12 relative (one rounding of sqrt/division)",
               "delta_norm_cap_l2 down to 5e-324 and whole problems scaled by 2**-515..2**-600 are generated (squares of "
               "the deltas subnormal or 0.0; repo fixes f740775, 8d8c73f); the L2 envelope then allows half a denormal "
               "step per component on top of the relative tolerance",
               "metrics fields are read by their names (counts per stage, clamps, blocked ops, caps as coerced); "
               "merged provenance = smallest op_idx / idx, as _combine_by_ckey documents"]

# delta_norm_cap_l2 below 1e-150 is generated since repo fix f740775 (finding t4-l2-norm-underflow)
TINY_L2 = True
# cases whose post-clamp sum of squares lies in (0, 1e-290) (subnormal squares) keep their tiny cap since repo fix
# 8d8c73f (finding t4-l2-norm-subnormal-squares); with False the generator lifts the cap of such a case to 1e-150
DENORMAL_SQ_BAND = True

IDS = ["n:a", "n:b", "e:a|r|b", "n:é", "n:a:b", "n:a0", "n:B", "n:a-", "e:a|r|b2", "n:10", "n:9", "n:"]
KINDS = ["node", "edge"]
ATTRS = ["weight", "bias", "Weight"]
OPKINDS = ["Speak", "EditGraph", "RequestRetrieve", "CreateGraph", "Weird", "", "SetMetaFilter", "editgraph"]
CFG_KEYS = ["delta_norm_cap_l2", "novelty_cap_per_node", "churn_cap_edges", "cooldowns"]
DEFAULTS = {"delta_norm_cap_l2": 1.5, "novelty_cap_per_node": 0.3, "churn_cap_edges": 64, "cooldowns": {}}
TURN_NAMES = ("turn_id", "turn", "current_turn")
DISTRACT = [None, {"weight_min": 0.0, "weight_max": 0.05}, {"weight_min": -0.01, "weight_max": 0.01},
            {"weight_min": -1.0, "weight_max": -0.5}, {"enabled": False}, {"cache": {"enabled": False, "max_entries": 0}},
            {"snapshot_every_n_turns": 3, "cache_bust_mode": "none"}]


def _types():
    from clematis.engine.types import ProposedDelta, OpRef, EditGraphOp, SpeakOp, Plan
    return ProposedDelta, OpRef, EditGraphOp, SpeakOp, Plan


# ---------------------------------------------------------------- strategies

# All strategies are module-level constants (building strategies inside the composite costs more than the cases);
# values that depend on other draws are drawn as TOKENS and resolved afterwards.

_NOV_MULTS = [1.0, -1.0, 1 + 2 ** -52, 1 - 2 ** -53, -(1 + 2 ** -52), 0.5]
_S_VAL = st.one_of(
    st.integers(-2048, 2048).map(lambda i: i / 1024.0),
    st.integers(-2048, 2048).map(lambda i: i / 1024.0),
    st.one_of(st.sampled_from(_NOV_MULTS).map(lambda f: ("nov", f)),
              st.sampled_from([0.0, -0.0, 5e-324, -5e-324, 1e300, -1e300, 1e16, -1e16, 1.0, 1e308, -1e308,
                               1.7976931348623157e308, -1.7976931348623157e308, 1, -1, 0, 1e-170, -1e-200, 9e-162, 3e-158,
                               -2e-163, 1e-155])),
    st.floats(allow_nan=False, allow_infinity=False),
    st.floats(min_value=-2.0, max_value=2.0, allow_nan=False))
_S_OPIDX = st.one_of(st.none(), st.integers(0, 7), st.integers(0, 7), st.integers(0, 7), st.integers(0, 7), st.integers(0, 7),
                     st.integers(0, 7), st.none(), st.sampled_from(["neg1", "neg2", "negn", "n", "big"]))
_S_DELTA = st.tuples(st.integers(0, 7), _S_VAL, _S_OPIDX, st.one_of(st.none(), st.integers(0, 20)))
_S_DELTAS = st.one_of(st.lists(_S_DELTA, max_size=5), st.lists(_S_DELTA, min_size=3, max_size=9),
                      st.lists(_S_DELTA, min_size=6, max_size=14))
_S_POOL = st.lists(st.tuples(st.sampled_from(KINDS), st.sampled_from(IDS), st.sampled_from(ATTRS)), min_size=1, max_size=8,
                   unique=True)
_S_NOV = st.one_of(st.sampled_from([1.0, 0.3, 0.5, 0.25, 1e-9, 2 ** -10, 5e-324, 1e-300, 2.2250738585072014e-308]),
                   st.floats(min_value=1e-12, max_value=1.0, exclude_min=False))
_S_T = st.one_of(st.integers(0, 10), st.integers(0, 10), st.sampled_from([0, 1, 10 ** 9, 2 ** 63, -1]))
_S_TMODE = st.sampled_from(["int"] * 6 + ["str", "float", "junk", "fallback", "turn", "current", "absent"])
_S_JUNK = st.sampled_from(["junk", "", None, "3.5"])
_S_KPOOL = st.lists(st.sampled_from(OPKINDS), min_size=1, max_size=3, unique=True)
_S_OP = st.tuples(st.integers(0, 2), st.sampled_from(["dict", "ns", "dc"] * 3 + ["nokind", "nonekind"]))
_S_OPS = st.one_of(st.lists(_S_OP, max_size=4), st.lists(_S_OP, min_size=2, max_size=8))
_S_CDS = st.lists(st.tuples(st.sampled_from([0, 1, 1, 1, 1]),
                            st.one_of(st.integers(0, 5), st.integers(1, 3), st.sampled_from([1, 10 ** 6, 2 ** 40])),
                            st.sampled_from(["in", "edge_in", "edge_out", "out", "now", "future", "far_future", "junk", "absent"]),
                            st.sampled_from(["float", "str", "none", "true"])), min_size=4, max_size=4)
_S_EXTRA_KIND = st.tuples(st.booleans(), st.sampled_from(OPKINDS[:5]), st.sampled_from(range(8)), st.sampled_from(OPKINDS[:5]))
_S_META = st.sampled_from(["dict"] * 3 + ["attr"] * 3 + ["dict_attr", "attr_dict"] * 2 + ["none", "state_none", "nondict", "meta_none"])
_S_TRIPLE = st.one_of(st.none(), st.tuples(st.integers(0, 7), st.sampled_from([1e16, 1e300, 3.0, 0.1, 1e308]),
                                           st.sampled_from([1.0, 0.25, 1e-3]), st.booleans()))
_S_BULK = st.tuples(st.sampled_from([0] + [1] * 19), st.integers(0, 2 ** 16), st.integers(65, 160), st.sampled_from(["pad", "plain", "edge"]),
                    st.sampled_from(["tie", "grid", "mixed"]))
_S_L2 = st.one_of(st.sampled_from([1.5, 1e-9, 1e6, 0.3, 0.5, 1.0, 2 ** -5, 1e308, math.inf, "floor"]),
                  st.sampled_from([0.5, 1.0, 1.5, 2.5]).map(lambda f: ("nov", f)),
                  st.floats(min_value=1e-9, max_value=1e3))
_S_CHURN = st.one_of(st.integers(0, 10 ** 6).map(lambda k: ("uni", k)),
                     st.sampled_from([-2, -1, 0, 1]).map(lambda k: ("rel", k)),
                     st.sampled_from([-2, -1, 0, 1]).map(lambda k: ("rel", k)),
                     st.integers(0, 3), st.sampled_from([64, 65, 2 ** 31, 10 ** 18]))
_S_SEED = st.integers(0, 2 ** 32)
_S_FLOOR = st.sampled_from([1e-300, 1e-200, 5e-324, 1e-160])
_S_TINY = st.sampled_from([0] * 12 + [515, 530, 538, 600])  # whole problem scaled by 2**-k (exact) into the underflow regime
_S_CFG = st.sampled_from(["full"] * 5 + ["validated"] * 5 + ["partial"] * 3 + ["no_t4", "no_config"])
_S_OMIT = st.lists(st.sampled_from(CFG_KEYS), min_size=1, max_size=3, unique=True)
_S_MISC = st.tuples(st.sampled_from(["dc", "dc", "dict", "ns"]), st.booleans(), st.booleans(),
                    st.sampled_from(["num", "num", "str"]), st.sampled_from(DISTRACT))
_S_EDIT = st.one_of(st.none(), st.none(), st.fixed_dictionaries(
    {"turn_shift": st.integers(-2, 6), "last_shift": st.integers(-3, 3)},
    optional={"churn": st.sampled_from([0, 1, ("rel", -1), ("rel", 1), 2 ** 31]),
              "novelty": st.sampled_from([1.0, 0.3, 2 ** -10, 1e-9]),
              "l2": st.sampled_from([1.5, 1e-9, 1e6, 2 ** -5]),
              "cd_scale": st.sampled_from([0, 2, 10]),
              "keep": st.sampled_from(["rev", "drop_first", "drop_last", "half"]),
              "ops": st.sampled_from(["rev", "drop_last"])}))


def _bulk(seed, n, style, vals, novelty, n_ops):
    """Deterministic expansion of a bulk of n distinct targets (kept out of Hypothesis' choice sequence)."""
    rng = random.Random(seed)
    out = []
    for i in range(n):
        tid = {"pad": f"n:{i:03d}", "plain": f"n:{i}", "edge": f"e:{i}|r|{n - i}"}[style]
        if vals == "tie":
            v = rng.choice([novelty, -novelty, 2.0, -2.0, novelty / 2])
        elif vals == "grid":
            v = rng.randint(-64, 64) / 1024.0
        else:
            v = rng.choice([rng.uniform(-1, 1), rng.randint(-8, 8) / 8.0, 1e300, 5e-324, 0.0])
        op_idx = rng.choice([None] + list(range(n_ops))) if n_ops else None
        out.append({"k": "edge" if style == "edge" else "node", "id": tid, "attr": "weight", "v": v, "op_idx": op_idx,
                    "idx": rng.choice([None, i])})
    return out


@st.composite
def cases(draw):
    l2_floor = draw(_S_FLOOR) if TINY_L2 else 1e-150
    novelty = draw(_S_NOV)
    # ---- turn
    t, tmode, junk = draw(_S_T), draw(_S_TMODE), draw(_S_JUNK)
    turn_names = {"int": {"turn_id": t}, "str": {"turn_id": f" {t} "}, "float": {"turn_id": t + 0.5} if t < 2 ** 50 else {"turn_id": t},
                  "junk": {"turn_id": junk}, "fallback": {"turn_id": junk, "turn": t, "current_turn": t + 1},
                  "turn": {"turn": t}, "current": {"current_turn": t}, "absent": {}}[tmode]
    T = ref_turn({"turn_names": turn_names})
    # ---- ops: kinds from a small per-case pool, so several ops of one kind are the rule
    kpool = draw(_S_KPOOL)
    ops = [{"kind": kpool[ki % len(kpool)], "shape": shape} for ki, shape in draw(_S_OPS)]
    n_ops = len(ops)
    # ---- cooldown table and history AROUND the turn
    cooldowns, last = {}, {}
    has_extra, extra_kind, stray, stray_kind = draw(_S_EXTRA_KIND)
    for k, (skip, cd, where, jk) in zip(kpool + ([extra_kind] if has_extra else []), draw(_S_CDS)):
        if skip == 0:
            continue
        cooldowns[k] = cd
        if where == "absent":
            continue
        if where == "junk":
            last[k] = {"float": float(T), "str": str(T), "none": None, "true": True}[jk]
        else:
            last[k] = {"in": T - cd // 2, "edge_in": T - cd + 1, "edge_out": T - cd, "out": T - cd - 3, "now": T,
                       "future": T + 1, "far_future": T + 10 ** 6}[where]
    if stray == 0:  # history for kinds without a configured cooldown
        last.setdefault(stray_kind, T)
    meta_shape = draw(_S_META)
    # ---- deltas
    pool = draw(_S_POOL)
    cover = draw(st.booleans())
    deltas = []
    for i, (pi, v, oi, idx) in enumerate(draw(_S_DELTAS)):
        tk, tid, attr = pool[i] if (cover and i < len(pool)) else pool[pi % len(pool)]
        if isinstance(v, tuple):
            v = novelty * v[1]
        if isinstance(oi, str):
            oi = {"neg1": -1, "neg2": -2, "negn": -n_ops, "n": n_ops, "big": 10 ** 6}[oi]
        elif oi is not None:
            oi = (oi % n_ops) if n_ops else None
        deltas.append({"k": tk, "id": tid, "attr": attr, "v": v, "op_idx": oi, "idx": idx})
    # cancellation triple now and then
    trip = draw(_S_TRIPLE)
    if deltas and trip is not None:
        pi, x, y, five = trip
        tk, tid, attr = pool[pi % len(pool)]
        vals_ = (x, x, -x, -x, y) if (x >= 1e308 or five) else (x, y, -x)  # intermediate sums may overflow
        deltas.extend({"k": tk, "id": tid, "attr": attr, "v": v, "op_idx": None, "idx": None} for v in vals_)
    bulk = draw(_S_BULK)
    if bulk[0] == 0:
        deltas.extend(_bulk(bulk[1], bulk[2], bulk[3], bulk[4], novelty, n_ops))
    m = len({ckey(d) for d in deltas})
    # ---- caps
    l2 = draw(_S_L2)
    l2 = l2_floor if l2 == "floor" else (max(novelty * l2[1], l2_floor) if isinstance(l2, tuple) else l2)
    tiny = draw(_S_TINY) if TINY_L2 else 0
    if tiny:
        f = 2.0 ** -tiny
        for d in deltas:
            d["v"] = d["v"] * f
        novelty = max(novelty * f, 5e-324)
        l2 = max(l2 * f, 5e-324)
    churn_of = lambda c: c if isinstance(c, int) else (max(0, m + c[1]) if c[0] == "rel" else c[1] % (len(deltas) + 3))
    churn = churn_of(draw(_S_CHURN))
    perm = list(range(len(deltas)))
    random.Random(draw(_S_SEED)).shuffle(perm)
    cfg_shape = draw(_S_CFG)
    plan_shape, none_lists, extras, spell, distract = draw(_S_MISC)
    case = {"novelty": novelty, "l2": l2, "churn": churn, "ops": ops, "deltas": deltas, "cooldowns": cooldowns,
            "last": last, "meta_shape": meta_shape, "turn_names": turn_names, "perm": perm, "cfg_shape": cfg_shape,
            "plan_shape": plan_shape, "none_lists": none_lists, "extras": extras}
    if cfg_shape == "partial":
        case["omit"] = draw(_S_OMIT)
    if cfg_shape == "validated":
        case["spell"] = spell
        case["distract"] = distract
    if not DENORMAL_SQ_BAND and eff_caps(case)[1] < 1e-150 and in_subnormal_band(case):
        case["l2"] = 1e-150
    edit = draw(_S_EDIT)
    if edit is not None:
        edit = dict(edit)
        if "churn" in edit:
            edit["churn"] = churn_of(edit["churn"])
        case["edit"] = edit
    return case


def apply_edit(case, edit):
    """Pure: the case as it looks after the in-place edit."""
    c = copy.deepcopy(case)
    c.pop("edit", None)
    shift = lambda v, k: v + k if (isinstance(v, int) and not isinstance(v, bool)) else v
    c["turn_names"] = {n: shift(v, edit.get("turn_shift", 0)) for n, v in turn_names_of(case).items()}
    c.pop("turn", None)
    c["last"] = {k: shift(v, edit.get("last_shift", 0)) for k, v in case["last"].items()}
    for k in ("churn", "novelty", "l2"):
        if k in edit:
            c[k] = edit[k]
    if "cd_scale" in edit:
        c["cooldowns"] = {k: v * edit["cd_scale"] for k, v in case["cooldowns"].items()}
    ds = list(c["deltas"])
    keep = edit.get("keep")
    if keep == "rev":
        ds.reverse()
    elif keep == "drop_first":
        ds = ds[1:]
    elif keep == "drop_last":
        ds = ds[:-1]
    elif keep == "half":
        ds = ds[::2]
    c["deltas"] = ds
    c["perm"] = list(range(len(ds)))
    if edit.get("ops") == "rev":
        c["ops"] = list(reversed(c["ops"]))
    elif edit.get("ops") == "drop_last":
        c["ops"] = c["ops"][:-1]
    return c


# ---------------------------------------------------------------- build real arguments

def turn_names_of(case):
    if "turn_names" in case:
        return case["turn_names"]
    return {"turn_id": case["turn"]}


def _spell(case, v):
    if case.get("spell") == "str" and not isinstance(v, dict):
        return repr(v) if isinstance(v, float) else str(v)
    return v


def build_ops(case):
    ProposedDelta, OpRef, EditGraphOp, SpeakOp, Plan = _types()
    from clematis.engine.types import CreateGraphOp, SetMetaFilterOp
    ops = []
    for o in case["ops"]:
        k, shape = o["kind"], o["shape"]
        if shape == "dict":
            ops.append({"kind": k})
        elif shape == "nokind":
            ops.append({"type": k})
        elif shape == "nonekind":
            ops.append(SimpleNamespace(kind=None, was=k))
        elif shape == "dc" and k == "Speak":
            ops.append(SpeakOp(kind="Speak", intent="ack", topic_labels=[], max_tokens=8))
        elif shape == "dc" and k == "EditGraph":
            ops.append(EditGraphOp(kind="EditGraph", edits=[], cap=4))
        elif shape == "dc" and k == "CreateGraph":
            ops.append(CreateGraphOp(kind="CreateGraph", title="t", tags=[]))
        elif shape == "dc" and k == "SetMetaFilter":
            ops.append(SetMetaFilterOp(kind="SetMetaFilter", params={"churn_cap": 1, "novelty_cap": 1e-3, "cooldown_s": 99}))
        else:
            ops.append(SimpleNamespace(kind=k))
    return ops


def build_deltas(case, order=None):
    ProposedDelta = _types()[0]
    idxs = order if order is not None else range(len(case["deltas"]))
    return [ProposedDelta(target_kind=d["k"], target_id=d["id"], attr=d["attr"], delta=d["v"], op_idx=d["op_idx"],
                          idx=d["idx"]) for d in (case["deltas"][i] for i in idxs)]


def build_t4(case, rev=False):
    it = lambda d: dict(reversed(list(d.items()))) if rev else dict(d)
    t4 = {"delta_norm_cap_l2": _spell(case, case["l2"]), "novelty_cap_per_node": _spell(case, case["novelty"]),
          "churn_cap_edges": _spell(case, case["churn"]), "cooldowns": {k: _spell(case, v) for k, v in it(case["cooldowns"]).items()}}
    if rev:
        t4 = dict(reversed(list(t4.items())))
    for k in case.get("omit", []) if case.get("cfg_shape") == "partial" else []:
        t4.pop(k, None)
    return t4


def build_state(case, rev=False):
    lastmap = dict(reversed(list(case["last"].items()))) if rev else dict(case["last"])
    ms = case["meta_shape"]
    if ms == "dict":
        return {"meta": {"cooldowns": lastmap}}
    if ms == "attr":
        return SimpleNamespace(meta=SimpleNamespace(cooldowns=lastmap))
    if ms == "dict_attr":
        return {"meta": SimpleNamespace(cooldowns=lastmap), "store": None}
    if ms == "attr_dict":
        return SimpleNamespace(meta={"cooldowns": lastmap})
    if ms == "nondict":
        return {"meta": {"cooldowns": [list(kv) for kv in lastmap.items()]}}
    if ms == "meta_none":
        return {"meta": None}
    if ms == "state_none":
        return None
    return {}


def build(case, order=None, rev=False):
    ProposedDelta, OpRef, EditGraphOp, SpeakOp, Plan = _types()
    ops = build_ops(case)
    deltas = build_deltas(case, order)
    none_lists = case.get("none_lists", False)
    ops_v = None if (none_lists and not ops) else ops
    deltas_v = None if (none_lists and not deltas) else deltas
    ps = case.get("plan_shape", "dc")
    if ps == "dict":
        plan = {"version": "t3-plan-v1", "ops": ops_v, "deltas": deltas_v}
    elif ps == "ns":
        plan = SimpleNamespace(ops=ops_v, deltas=deltas_v)
    else:
        plan = Plan(version="t3-plan-v1", ops=ops_v, deltas=deltas_v)
    t4 = build_t4(case, rev)
    cs = case.get("cfg_shape", "full")
    if cs == "validated":
        from harness import world
        over = dict(t4)
        for k, v in (case.get("distract") or {}).items():
            over[k] = copy.deepcopy(v)
        cfg = world.validated_cfg({"t4": over})
        ctx = world.make_ctx(cfg)
        del ctx.turn_id
    elif cs == "no_t4":
        ctx = SimpleNamespace(config=SimpleNamespace(t3={}))
    elif cs == "no_config":
        ctx = SimpleNamespace(cfg={"t4": t4})
    else:
        ctx = SimpleNamespace(config=SimpleNamespace(t4=t4))
    for name, v in turn_names_of(case).items():
        setattr(ctx, name, v)
    return ctx, build_state(case, rev), plan


def _containers(ctx, state, plan):
    """The mutable leaf containers a caller could edit between two calls (identity preserved)."""
    t4 = getattr(getattr(ctx, "config", None), "t4", None)
    meta = state.get("meta") if isinstance(state, dict) else getattr(state, "meta", None)
    lastc = meta.get("cooldowns") if isinstance(meta, dict) else getattr(meta, "cooldowns", None)
    get = (lambda k: plan.get(k)) if isinstance(plan, dict) else (lambda k: getattr(plan, k))
    return t4, lastc, get("ops"), get("deltas")


def edit_in_place(objs, objs2):
    """Make the argument objects of the first call equal to a fresh build of the edited case WITHOUT replacing any of
    the containers (ctx, config, t4 mapping, cooldown table, state, meta, history map, plan, ops list, delta list)."""
    (ctx, state, plan), (ctx2, state2, plan2) = objs, objs2
    t4, lastc, ops, deltas = _containers(ctx, state, plan)
    t4b, lastb, opsb, deltasb = _containers(ctx2, state2, plan2)
    if isinstance(t4, dict):
        new = dict(t4b)
        cd = t4.get("cooldowns")
        if isinstance(cd, dict) and isinstance(new.get("cooldowns"), dict):
            fresh = dict(new["cooldowns"])
            cd.clear()
            cd.update(fresh)
            new["cooldowns"] = cd
        t4.clear()
        t4.update(new)
    for name in TURN_NAMES:
        if hasattr(ctx2, name):
            setattr(ctx, name, getattr(ctx2, name))
    if isinstance(lastc, dict):
        fresh = dict(lastb)
        lastc.clear()
        lastc.update(fresh)
    elif isinstance(lastc, list):
        lastc[:] = lastb
    for a, b, key in ((ops, opsb, "ops"), (deltas, deltasb, "deltas")):
        if isinstance(a, list) and isinstance(b, list):
            a[:] = b
        elif isinstance(plan, dict):
            plan[key] = b
        else:
            setattr(plan, key, b)


# ---------------------------------------------------------------- reference model

def ckey(d):
    return f"{d['k']}:{d['id']}:{d['attr']}"


def ref_turn(case):
    names = turn_names_of(case)
    for name in TURN_NAMES:
        if name in names:
            try:
                return int(names[name])
            except Exception:
                pass
    return 0


def eff_caps(case):
    """(novelty, l2, churn, cooldowns) the documented accessor arrives at."""
    cs = case.get("cfg_shape", "full")
    if cs in ("no_t4", "no_config"):
        present = {}
    else:
        present = {"delta_norm_cap_l2": case["l2"], "novelty_cap_per_node": case["novelty"], "churn_cap_edges": case["churn"],
                   "cooldowns": case["cooldowns"]}
        if cs == "partial":
            for k in case.get("omit", []):
                present.pop(k, None)
    eff = dict(DEFAULTS)
    eff.update(present)
    return float(eff["novelty_cap_per_node"]), float(eff["delta_norm_cap_l2"]), int(eff["churn_cap_edges"]), eff["cooldowns"]


def ref_kind(o):
    return "" if o["shape"] in ("nokind", "nonekind") else o["kind"]


def ref_blocked(case):
    if case["meta_shape"] in ("none", "state_none", "nondict", "meta_none"):
        last = {}
    else:
        last = case["last"]
    cooldowns = eff_caps(case)[3]
    turn = ref_turn(case)
    out = []
    for i, o in enumerate(case["ops"]):
        kind = ref_kind(o)
        if not kind:
            continue
        cd = cooldowns.get(kind)
        if not cd:
            continue
        lt = last.get(kind)
        if isinstance(lt, int) and (turn - lt) < int(cd):
            out.append(i)
    return out


def _min_opt(a, b):
    return b if a is None else (a if b is None else min(a, b))


def ref_pipeline(case):
    """Exact-rational merge -> cooldown -> clamp -> uniform scale -> top-K. Returns dict with stage info."""
    nov, l2, k_cap, _ = eff_caps(case)
    merged = {}
    for d in case["deltas"]:
        k = ckey(d)
        if k not in merged:
            merged[k] = {"sum": Fraction(0), "op": None, "idx": None, "n": 0, "triple": (d["k"], d["id"], d["attr"])}
        m = merged[k]
        m["sum"] += Fraction(d["v"])
        m["n"] += 1
        m["op"] = _min_opt(m["op"], d["op_idx"])
        m["idx"] = _min_opt(m["idx"], d["idx"])
    blocked = set(ref_blocked(case))
    def _to_float(fr):
        try:
            return float(fr)
        except OverflowError:  # the exact sum lies beyond the float range
            return math.inf if fr > 0 else -math.inf
    after = {k: _to_float(m["sum"]) for k, m in merged.items() if m["op"] is None or m["op"] not in blocked}
    cap = abs(nov)
    n_clamped = sum(1 for v in after.values() if abs(v) > cap)
    clamped = {k: (math.copysign(cap, v) if abs(v) > cap else v) for k, v in after.items()}
    norm = math.hypot(*clamped.values()) if clamped else 0.0  # no underflow of the squares, <= 1 ulp
    scale = 1.0
    if norm > l2 and norm != 0.0:
        scale = l2 / norm
    scaled = {k: v * scale for k, v in clamped.items()}
    keys = sorted(scaled, key=lambda k: (-abs(scaled[k]), k))
    kept = keys[:k_cap] if len(keys) > k_cap else keys
    return {"merged": merged, "blocked": sorted(blocked), "after": after, "clamped": clamped, "n_clamped": n_clamped,
            "norm": norm, "scale": scale, "scaled": scaled, "kept": sorted(kept), "dropped": max(0, len(keys) - k_cap)}


def in_subnormal_band(case):
    """Post-clamp sum of squares in (0, 1e-290): some squares are subnormal and none is large enough to hide that."""
    return 0.0 < math.fsum(v * v for v in ref_pipeline(case)["clamped"].values()) < 1e-290


def res_view(r):
    return ([(d.target_kind, d.target_id, d.attr, d.delta, d.op_idx, d.idx) for d in r.approved_deltas],
            [(o.kind, o.idx) for o in r.rejected_ops], list(r.reasons), r.metrics)


def views_equal(a, b):
    return a == b  # float == : -0.0 == 0.0, no NaN in the domain


# ---------------------------------------------------------------- the oracle

def check_case(case, rec=None):
    from clematis.engine.stages.t4 import t4_filter

    ctx, state, plan = build(case)
    snap = copy.deepcopy((ctx, state, plan))
    extras = (SimpleNamespace(graph_deltas=[{"id": "n:a", "delta": 9.0}], metrics={"pops": 3}),
              SimpleNamespace(retrieved=[], graph_deltas_residual=[], metrics={"k_returned": 0}),
              "an utterance") if case.get("extras") else (None, None, None)
    try:
        r1 = t4_filter(ctx, state, extras[0], extras[1], plan, extras[2])
    except Exception as e:  # total on the accepted domain
        raise Violation(f"t4_filter raised {type(e).__name__}: {e}", case, "raises")
    if (ctx, state, plan) != snap:
        raise Violation("t4_filter mutated its arguments", case, "mutates")
    r2 = t4_filter(ctx, state, extras[0], extras[1], plan, extras[2])
    if not views_equal(res_view(r1), res_view(r2)):
        raise Violation("two calls on the same arguments differ", case, "nondeterministic")

    ref = ref_pipeline(case)
    nov, l2, churn, _ = eff_caps(case)
    nov = abs(nov)
    app = r1.approved_deltas
    keys = [f"{d.target_kind}:{d.target_id}:{d.attr}" for d in app]
    proposed = {ckey(d) for d in case["deltas"]}
    triples = {(d["k"], d["id"], d["attr"]) for d in case["deltas"]}

    # --- A: envelope
    if len(set(keys)) != len(keys):
        raise Violation(f"more than one approved delta for a target: {keys}", case, "dup-target")
    if not set(keys) <= proposed:
        raise Violation(f"approved target never proposed: {sorted(set(keys) - proposed)}", case, "unproposed")
    for d in app:
        if (d.target_kind, d.target_id, d.attr) not in triples:
            raise Violation(f"approved target {(d.target_kind, d.target_id, d.attr)!r} was never proposed", case, "unproposed")
        if not (abs(d.delta) <= nov):
            raise Violation(f"|delta|={abs(d.delta)!r} exceeds novelty cap {nov!r} for {d.target_id}", case, "novelty")
    norm = math.hypot(*[float(d.delta) for d in app]) if app else 0.0
    if norm > l2 * (1 + 1e-12) + len(app) * 5e-324:  # (+ half a denormal step per component)
        raise Violation(f"L2 norm {norm!r} exceeds cap {l2!r}", case, "l2")
    if len(app) > churn:
        raise Violation(f"{len(app)} approved > churn cap {churn}", case, "churn")
    blocked = set(ref["blocked"])
    for d, k in zip(app, keys):
        if ref["merged"][k]["op"] is not None and ref["merged"][k]["op"] in blocked:
            raise Violation(f"approved delta {k} originates from op {ref['merged'][k]['op']} in cooldown", case, "cooldown")
    want_rej = [(ref_kind(case["ops"][i]), i) for i in ref["blocked"]]
    got_rej = [(o.kind, o.idx) for o in r1.rejected_ops]
    if got_rej != want_rej:
        raise Violation(f"rejected_ops {got_rej} != blocked ops {want_rej}", case, "rejected-ops")
    if keys != sorted(keys):
        raise Violation(f"approved not in canonical target order: {keys}", case, "order")

    # --- B: reference pipeline (keys and values)
    tol = lambda x: max(1e-12 * abs(x), 1e-322)
    near_norm = math.isfinite(l2) and abs(ref["norm"] - l2) <= 1e-12 * max(l2, ref["norm"])
    # reasons <=> stage effects
    want = []
    if ref["blocked"]:
        want.append("COOLDOWN_BLOCKED")
    if ref["n_clamped"] > 0:
        want.append("NOVELTY_SPIKE")
    norm_reason_ambiguous = near_norm or abs(ref["scale"] - 0.999999) < 1e-9
    if ref["scale"] < 0.999999:
        want.append("DELTA_NORM_HIGH")
    if ref["dropped"] > 0:
        want.append("CHURN_CAP_HIT")
    got = list(r1.reasons)
    if norm_reason_ambiguous:
        got = [x for x in got if x != "DELTA_NORM_HIGH"]
        want = [x for x in want if x != "DELTA_NORM_HIGH"]
    if got != want:
        raise Violation(f"reasons {r1.reasons} != stage effects {want}", case, "reasons")

    # top-K validity (ties inside tolerance: either choice accepted)
    kept = set(keys)
    cand = ref["scaled"]
    if kept - set(cand):
        raise Violation(f"approved {sorted(kept - set(cand))} should have been removed before the caps", case, "ref-keys")
    want_n = min(len(cand), churn)
    if len(kept) != want_n:
        raise Violation(f"approved {len(kept)} deltas, documented pipeline keeps {want_n}", case, "ref-count")
    pre = ref["clamped"]
    tie_at_cut = collapse = False
    for a in kept:
        for b in set(cand) - kept:
            ma, mb = abs(pre[a]), abs(pre[b])
            sa, sb = abs(cand[a]), abs(cand[b])
            if ma == mb:  # equal before the uniform scaling = equal after it: the canonical key decides
                tie_at_cut = True
                if not a < b:
                    raise Violation(f"tie at churn boundary broken against key order: kept {a}, dropped {b}", case, "tie")
            elif sb - sa > tol(sb) + tol(sa):  # the ranking is on the SCALED magnitudes (they may collapse near 0)
                raise Violation(f"kept {a} (|{cand[a]!r}|) while dropping larger {b} (|{cand[b]!r}|)", case, "topk")
            elif ma < mb:
                collapse = True
    if not near_norm:
        for d, k in zip(app, keys):
            if abs(d.delta - cand[k]) > tol(cand[k]):
                raise Violation(f"value for {k}: got {d.delta!r}, documented pipeline gives {cand[k]!r}", case, "ref-value")
    # provenance of a merged delta: the smallest op index / original index (documented by _combine_by_ckey)
    for d, k in zip(app, keys):
        m = ref["merged"][k]
        if d.op_idx != m["op"] or d.idx != m["idx"]:
            raise Violation(f"provenance of {k}: got op_idx={d.op_idx!r} idx={d.idx!r}, merge keeps the smallest: "
                            f"op_idx={m['op']!r} idx={m['idx']!r}", case, "provenance")
    # metrics, field by field
    met = r1.metrics
    n_after = len(ref["after"])
    want_counts = {"input": len(case["deltas"]), "after_cooldown": n_after, "after_novelty": n_after, "after_l2": n_after,
                   "approved": len(app), "dropped_tail": ref["dropped"]}
    got_counts = {k: met.get("counts", {}).get(k) for k in want_counts}
    if got_counts != want_counts:
        raise Violation(f"metrics.counts {got_counts} != {want_counts}", case, "metrics-counts")
    if met.get("clamps", {}).get("novelty_clamped") != ref["n_clamped"]:
        raise Violation(f"metrics.clamps.novelty_clamped {met.get('clamps', {}).get('novelty_clamped')!r} != {ref['n_clamped']}",
                        case, "metrics-clamps")
    got_scale = met.get("clamps", {}).get("l2_scale")
    scale_ok = isinstance(got_scale, float) and (abs(got_scale - ref["scale"]) <= tol(ref["scale"])
                                                 or (near_norm and (got_scale == 1.0 or abs(got_scale - 1.0) <= 2e-12)))
    if not scale_ok:
        raise Violation(f"metrics.clamps.l2_scale {got_scale!r}, documented pipeline scales by {ref['scale']!r}", case,
                        "metrics-scale")
    if met.get("cooldowns", {}).get("blocked_ops") != len(ref["blocked"]):
        raise Violation(f"metrics.cooldowns.blocked_ops {met.get('cooldowns', {}).get('blocked_ops')!r} != "
                        f"{len(ref['blocked'])} blocked ops", case, "metrics-blocked")
    want_caps = {"delta_norm_cap_l2": l2, "novelty_cap_per_node": eff_caps(case)[0], "churn_cap_edges": churn}
    got_caps = {k: met.get("caps", {}).get(k) for k in want_caps}
    if got_caps != want_caps:
        raise Violation(f"metrics.caps {got_caps} != configured {want_caps}", case, "metrics-caps")

    # --- C: permutation invariance (delta list permuted; mapping arguments built in reverse insertion order)
    ctx2, state2, plan2 = build(case, order=case["perm"], rev=True)
    r3 = t4_filter(ctx2, state2, None, None, plan2, None)
    v1, v3 = res_view(r1), res_view(r3)
    if not views_equal(v1, v3):
        raise Violation(f"result depends on the order of the delta list: {v1[0][:8]} vs {v3[0][:8]} (perm {case['perm'][:20]})",
                        case, "order-dependent")

    # --- C': the same objects edited in place, called again == fresh objects with the same content
    edit = case.get("edit")
    if edit:
        case2 = apply_edit(case, edit)
        fresh = build(case2)
        t4_filter(ctx, state, None, None, plan, None)  # the call right before the edit sees these very objects
        edit_in_place((ctx, state, plan), build(case2))
        try:
            r4 = t4_filter(ctx, state, None, None, plan, None)
            r5 = t4_filter(*fresh[:2], None, None, fresh[2], None)
        except Exception as e:
            raise Violation(f"t4_filter raised {type(e).__name__}: {e} (second call, after an in-place edit)", case, "raises")
        v4, v5 = res_view(r4), res_view(r5)
        if not views_equal(v4, v5):
            raise Violation(f"after editing the argument objects in place ({edit}) the result differs from a call on fresh "
                            f"objects with the same content: {v4[0][:6]} {v4[1:3]} vs {v5[0][:6]} {v5[1:3]}", case, "stale-state")

    if rec is not None:
        dup = any(m["n"] > 1 for m in ref["merged"].values())
        boundary = any(abs(d["v"]) in (nov, nov * (1 + 2 ** -52), nov * (1 - 2 ** -53)) for d in case["deltas"])
        stages = len(r1.reasons)
        labels = [f"reasons={stages}"] + (["dup"] if dup else []) + (["boundary"] if boundary else []) + \
                 (["blocked"] if ref["blocked"] else []) + (["near_norm"] if near_norm else [])
        labels += [f"cfg={case.get('cfg_shape')}", f"state={case['meta_shape']}", f"plan={case.get('plan_shape')}"]
        kinds_blocked = [ref_kind(case["ops"][i]) for i in ref["blocked"]]
        T = ref_turn(case)
        cds = eff_caps(case)[3]
        flags = {
            "blocked_same_kind_many": len(kinds_blocked) != len(set(kinds_blocked)),
            "blocked_op0": 0 in blocked,
            "blocked_op_without_own_delta": bool(blocked - {m["op"] for m in ref["merged"].values()}),
            "blocked_delta_dropped": len(ref["after"]) < len(ref["merged"]),
            "cd_boundary": any(isinstance(case["last"].get(k), int) and T - case["last"][k] in (cd, cd - 1)
                               for k, cd in cds.items() if cd),
            "last_future": any(isinstance(v, int) and not isinstance(v, bool) and v > T for v in case["last"].values()),
            "opidx_negative": any(isinstance(d["op_idx"], int) and d["op_idx"] < 0 for d in case["deltas"]),
            "opidx_out_of_range": any(isinstance(d["op_idx"], int) and d["op_idx"] >= len(case["ops"]) for d in case["deltas"]),
            "churn_binds": ref["dropped"] > 0,
            "churn_eq_targets": churn == len(cand),
            "churn_zero": churn == 0 and bool(cand),
            "tie_at_cut": tie_at_cut,
            "scaled_collapse": collapse,
            "l2_binds": ref["scale"] < 1.0,
            "l2_and_churn_bind": ref["scale"] < 1.0 and ref["dropped"] > 0,
            "l2_inf_or_huge": l2 >= 1e308,
            "novelty_denormal": nov < 2.3e-308,
            "l2_below_1e-150": l2 < 1e-150,
            "squares_subnormal_l2_binds": ref["scale"] < 1.0 and 0.0 < math.fsum(v * v for v in pre.values()) < 1e-290,
            "squares_all_zero_l2_binds": ref["scale"] < 1.0 and all(v * v == 0.0 for v in pre.values()),
            "targets>64": len(ref["merged"]) > 64,
            "edit": bool(edit),
            "turn_not_turn_id": "turn_id" not in turn_names_of(case) or not isinstance(turn_names_of(case)["turn_id"], int),
            "str_spelled_caps": case.get("spell") == "str",
            "distractor_leaves": bool(case.get("distract")),
            "ids_prefix_pair": len({d["id"] for d in case["deltas"]} & {"n:a", "n:a:b", "n:a0", "n:a-"}) >= 2,
            "no_deltas": not case["deltas"],
        }
        labels += [k for k, v in flags.items() if v]
        nt = dup and (stages >= 2 or boundary)
        rec.case(nontrivial=nt, dig=digest(case) if nt else None, labels=labels,
                 sample={"deltas": case["deltas"][:6], "caps": [case["novelty"], case["l2"], case["churn"]],
                         "reasons": list(r1.reasons), "approved": [(k, d.delta) for k, d in zip(keys, app)][:6]} if nt else None)


def sub_envelope(rec, seed, shard, nshards, n=1000, shrink=True):
    run_hypothesis(rec, seed, cases(), lambda c: check_case(c, rec), max_examples=n, shrink=shrink, name="envelope")


def _fix_floats(x):
    if isinstance(x, dict):
        if set(x) == {"__float__"}:
            return float(x["__float__"])
        return {k: _fix_floats(v) for k, v in x.items()}
    if isinstance(x, list):
        return [_fix_floats(v) for v in x]
    return x


def replay_case(case):
    check_case(_fix_floats(case), None)


SUBCHECKS = [
    Sub("envelope", sub_envelope, quick={"n": 1000}, thorough={"n": 10000}, shards_quick=4, shards_thorough=16,
        replay=replay_case),
]
