"""C17 — scheduling is deterministic, starvation-free and budgets bind.

Sub-checks
  bfs       exhaustive breadth-first exploration of all (advance clock, select, yield bookkeeping, optional
            rotation) histories to SATURATION of the normalised state space, per parameter set
  machine   random long histories (<= 6 agents, arbitrary clock jumps incl. backwards, clock drift between
            selection and bookkeeping, selection probes without bookkeeping, arbitrary on_yield payloads, agents taken
            out of / put back into the queue by the driver while their bookkeeping entries stay)
  decision  `_should_yield` (through `_derive_budgets` on validated configs, or on plain budget dicts) vs. the
            documented precedence WALL_MS > BUDGET_* > QUANTUM_EXCEEDED
  turns     full Orchestrator.run_turn slices with scheduling enabled, real stages and a scripted clock (thresholds
            crossed by one stage or by the sum of several, measured from the slice start), optionally after an earlier
            slice on the same state / ctx under other budgets: yields happen only at stage boundaries, exactly one
            event, nothing of a later stage is executed or logged, and stage work never exceeds the slice budgets
            (heap pops really performed per graph, nodes reachable within the layer / pop budget, hits that justify
            the residual nudges, plan ops)
  driver    the real driver loop, clematis/scripts/demo.py main(), run in-process with a zero T1 budget (every slice
            yields, so every selection gets its bookkeeping): the (agent, pick reason, queue) sequence it logs obeys
            eligibility / reset / policy order / the wait bound

Reference model: harness/models/scheduler.py.
"""
from __future__ import annotations

import collections
import json
import os
import random

from hypothesis import strategies as st

from harness.runner import Sub, Violation, run_hypothesis, run_machine, digest
from harness.models.scheduler import (RefScheduler, RESET, POLICIES, wait_bound, ref_should_yield,
                                      ref_derive_budgets, STAGE_BUDGETS)

LEVEL = "exploration"
RULE = ("bfs: every (parameter set, normalised scheduler state, clock advance) transition reachable from "
        "init_scheduler_state through the demo driver's loop (select -> on_yield(reset iff RESET_CONSEC) -> optional "
        "head-to-tail rotation) is executed once on the real code, memoised on the model's normal form (queue order, "
        "idle times as differences, allowance counters, per-agent wait counters) until no new state appears; a "
        "transition is non-trivial when the shortest history reaching it contains >=1 RESET_CONSEC pick and >=1 pick "
        "that is not the queue head (distinct by construction). machine: Hypothesis rule-based histories, non-trivial "
        "= same rule, distinct = digest of the history. decision: generated (budgets, consumption) with values placed "
        "on/around every threshold; non-trivial = at least two of {wall, stage budget, quantum} fire together "
        "(precedence is exercised). turns: generated (world with 1-3 graphs, slice budgets per key tight / mid / loose / null / "
        "absent / huge, scripted durations placing the slice time on, just below or above quantum / wall at a chosen boundary, "
        "crossed by one stage or by the sum of several; optional earlier slice or T1 evaluation on the same state under other "
        "budgets, same or fresh ctx, preset ctx.slice_idx, t4 kill switch); non-trivial = the measured slice yields for a "
        "BUDGET_* or WALL_MS reason, or a stage budget clamps real work. driver: generated (agent names, policy, allowance, "
        "aging, steps <= 2*bound+3, which zero T1 budget forces the yield, config file vs CLI flags); non-trivial = the logged "
        "sequence contains a RESET_CONSEC pick with >= 2 agents.")
ASSUMPTIONS = [
    "legal histories are the ones clematis/scripts/demo.py can produce: on_yield gets reset=True iff the selection "
    "returned RESET_CONSEC; rotation moves the selected agent to the queue tail (exercised for both policies)",
    "wait is counted as selections made for OTHER agents strictly between two own turns (or since start); selection "
    "probes that are not followed by bookkeeping (pure calls) are not turns",
    "fair_queue with aging_ms == 0 on an unsorted queue is documented two ways (lexicographic vs queue order): both "
    "accepted (labelled `ambiguous`); unreachable from demo.py, which rotates only under round_robin",
    "_should_yield: stage budgets clamp work, so 'budget reached' is consumed == budget; consumed > budget and the "
    "relative order of several simultaneously reached BUDGET_* reasons are undocumented: any reading accepted",
    "turns: elapsed time is the orchestrator's time.perf_counter, shadowed by a scripted clock advanced only inside "
    "stage callables (and between two slices); the rule-based planner/speaker and the in-memory index are used",
    "turns: a propagation pop is one heappop of stages/t1's heapq (counted by a pass-through shim, attributed to the graph "
    "whose adjacency T1 fetched last); independently, with p pops T1 can touch at most the seeds plus the out-neighbours of "
    "p nodes, with i layers nothing further than i directed hops from a seed (seeds: label / string tag contained in the "
    "lower-cased text) -- upper bounds only, exact T1 results are C12's business",
    "turns: the RAG re-entry into retrieval is slice work too (its k_used / residual nudges obey t2_k); slice numbering "
    "(slice / slice_idx fields) is not part of the property and not checked, but a preset ctx.slice_idx must not change "
    "any decision",
    "driver: demo.py freezes its scheduler clock, so fair_queue tiers are all equal there (lexicographic order decides); the "
    "queue order judged for round_robin is the one the driver logs (queue_before); runs in which some slice did not yield "
    "are discarded (no bookkeeping -> premise of the wait bound not met; never happens with a zero T1 budget)",
    "machine: a de-queued agent keeps its last_ran_ms / consec_turns entries (the code's `.get(a, 0)` / `if agent_id in` "
    "guards make that a supported state); the wait bound is stated for a fixed agent set and is not applied after the "
    "queue membership changed; bfs 'parked' sets take the lexicographically first agent out before the first selection",
]

AGENTS4 = ["b", "a10", "a2", "B"]  # unsorted on purpose; sorted(): B < a10 < a2 < b
NAME_POOL = ["a", "aa", "B", "b", "a10", "a2", "Z", "ä", "é", "_x", "0", "A", "10", "9", "e\u0301", "a ", "aB", "Ab"]
UNLIMITED = 10 ** 9  # allowance when fairness.max_consecutive_turns is not given (scheduler._MAX_INT)


class Clk:
    __slots__ = ("t",)

    def __init__(self, t):
        self.t = t

    def now_ms(self):
        return self.t


def _api():
    from clematis.scheduler import init_scheduler_state, next_turn, on_yield  # the import path demo.py uses
    return init_scheduler_state, next_turn, on_yield


# ------------------------------------------------------------------------------------------------
# driver: real scheduler + reference model in lock-step, with all per-step oracles
# ------------------------------------------------------------------------------------------------


def _snap(real):
    return (list(real["queue"]), list(real["last_ran_ms"].items()), list(real["consec_turns"].items()), sorted(real))


class _StateTxt:
    """State description, rendered only inside a violation message."""
    __slots__ = ("d", "now")

    def __init__(self, d, now):
        self.d, self.now = d, now

    def __format__(self, spec):
        r = self.d.real
        return (f"queue={r['queue']} consec={r['consec_turns']} last={r['last_ran_ms']} now={self.now} "
                f"{self.d.policy} {self.d.fair}")


class Driver:
    def __init__(self, agents, t0, policy, m, aging, fresh=True):
        self.policy = policy
        # m None: the driver gives no allowance at all (FairnessCfg is total=False): nobody ever uses one up
        self.fair = {"max_consecutive_turns": m, "aging_ms": aging} if m is not None else {"aging_ms": aging}
        self.clk = Clk(t0)
        self.model = RefScheduler(agents, t0, policy, UNLIMITED if m is None else m, aging)
        self.dynamic = False  # queue membership changed during the history: the wait bound (fixed agent set) is not applied
        self.seen_reset = False
        self.seen_nonhead = False
        self.max_wait = 0
        if fresh:
            init, self.next_turn, self.on_yield = _api()
            self.real = init(list(agents), now_ms=t0)
            want = {"queue": list(self.model.queue), "last_ran_ms": dict(self.model.last), "consec_turns": dict(self.model.consec)}
            if self.real != want:
                raise Violation(f"init_scheduler_state({agents!r}, {t0}) = {self.real!r}, expected canonical {want!r}", None, "init")

    def fork(self):
        d = Driver.__new__(Driver)
        d.policy, d.fair = self.policy, self.fair
        d.clk = Clk(self.clk.t)
        m = self.model
        r = RefScheduler.__new__(RefScheduler)
        r.queue, r.last, r.consec, r.wait = list(m.queue), dict(m.last), dict(m.consec), dict(m.wait)
        r.policy, r.m, r.aging = m.policy, m.m, m.aging
        d.model = r
        d.real = {"queue": list(self.real["queue"]), "last_ran_ms": dict(self.real["last_ran_ms"]),
                  "consec_turns": dict(self.real["consec_turns"])}
        d.next_turn, d.on_yield = self.next_turn, self.on_yield
        d.seen_reset, d.seen_nonhead, d.max_wait = self.seen_reset, self.seen_nonhead, self.max_wait
        d.dynamic = self.dynamic
        return d

    # -- the driver owns the queue: it may take an agent out (bookkeeping entries stay) and put it back at the tail ---
    def dequeue(self, agent, dynamic=True):
        self.real["queue"].remove(agent)
        self.model.queue.remove(agent)
        self.dynamic = self.dynamic or dynamic

    def enqueue(self, agent):
        self.real["queue"].append(agent)
        self.model.queue.append(agent)
        self.dynamic = True

    # -- selection with purity / determinism / eligibility / argmax oracles -------------------------
    def select(self):
        real, model, now = self.real, self.model, self.clk.t
        before = _snap(real)
        fair_before = dict(self.fair)
        r1 = self.next_turn(self.clk, real, policy=self.policy, fairness_cfg=self.fair)
        mid = _snap(real)
        r2 = self.next_turn(self.clk, real, policy=self.policy, fairness_cfg=self.fair)
        if mid != before or _snap(real) != before or self.fair != fair_before:
            raise Violation(f"next_turn mutated its arguments: {before} -> {_snap(real)}", None, "select-impure")
        if r1 != r2:
            raise Violation(f"two next_turn calls on the same state/clock differ: {r1!r} vs {r2!r}", None, "select-nondet")
        if not (isinstance(r1, tuple) and len(r1) == 3):
            raise Violation(f"next_turn returned {r1!r}, expected (agent, slice_budgets, reason)", None, "select-shape")
        agent, budgets, reason = r1
        adm, want_reason, info = model.pick(now)
        st_txt = _StateTxt(self, now)
        if agent not in real["queue"]:
            raise Violation(f"selected {agent!r} is not a queued agent; {st_txt}", None, "not-queued")
        if budgets != {}:
            raise Violation(f"core next_turn returned slice budgets {budgets!r}, documented empty", None, "core-budgets")
        if info["reset"]:
            if agent != min(real["queue"]):
                raise Violation(f"all allowances used up: selected {agent!r}, lexicographically first is "
                                f"{min(real['queue'])!r}; {st_txt}", None, "reset-not-lexmin")
            if reason != RESET:
                raise Violation(f"all allowances used up but reason is {reason!r}, not RESET_CONSEC; {st_txt}", None, "reset-reason")
        else:
            if agent not in info["eligible"]:
                raise Violation(f"selected {agent!r} has used up its allowance while {info['eligible']} have not; {st_txt}",
                                None, "ineligible-selected")
            if reason == RESET:
                raise Violation(f"RESET_CONSEC signalled while {info['eligible']} are still eligible; {st_txt}", None,
                                "spurious-reset")
            if agent not in adm:
                sig = "rr-not-first-eligible" if self.policy == "round_robin" else "fq-not-argmax"
                raise Violation(f"selected {agent!r}, reference selects {sorted(adm)} "
                                f"(tiers { {a: model.tier(a, now) for a in info['eligible']} }); {st_txt}", None, sig)
            if reason != want_reason:
                raise Violation(f"reason {reason!r} for policy {self.policy}, documented {want_reason!r}", None, "pick-reason")
        return agent, reason, info

    # -- one complete turn: select, bookkeeping, optional rotation, wait accounting ------------------
    def turn(self, rotate, yield_at=None, consumed=None, yreason="SLICE"):
        agent, reason, info = self.select()
        real, model = self.real, self.model
        head = real["queue"][0]
        if yield_at is not None:
            self.clk.t = yield_at
        now = self.clk.t
        reset = reason == RESET
        q_before = list(real["queue"])
        ret = self.on_yield(self.clk, real, agent, consumed=dict(consumed or {}), reason=yreason, fairness_cfg=self.fair,
                            reset=reset)
        model.on_yield(agent, now, reset)
        if ret is not None or real["queue"] != q_before:
            raise Violation(f"on_yield returned {ret!r} / changed the queue {q_before} -> {real['queue']}", None, "yield-queue")
        if reset and any(v != 0 for v in real["consec_turns"].values()):
            raise Violation(f"after the RESET_CONSEC turn allowances are not all reset: {real['consec_turns']}", None,
                            "reset-not-zeroed")
        if real["consec_turns"] != model.consec:
            raise Violation(f"allowance counters {real['consec_turns']} != reference {model.consec} after turn of {agent!r}"
                            f" (reset={reset})", None, "bookkeeping-consec")
        if real["last_ran_ms"] != model.last:
            raise Violation(f"last_ran_ms {real['last_ran_ms']} != reference {model.last} after turn of {agent!r} at {now}",
                            None, "bookkeeping-last")
        if sorted(real) != ["consec_turns", "last_ran_ms", "queue"]:
            raise Violation(f"scheduler state grew keys: {sorted(real)}", None, "state-shape")
        if rotate:  # the driver's job (demo.py): head -> tail for the agent that just ran
            q = real["queue"]
            q.remove(agent)
            q.append(agent)
            model.rotate(agent)
        starving = model.count_wait(agent)
        self.max_wait = max(self.max_wait, max(model.wait.values()))
        if starving is not None and not self.dynamic:
            n, m = len(model.queue), model.m
            raise Violation(f"agent {starving[0]!r} waited {starving[1]} selections of other agents; bound "
                            f"2*({n}-1)*{m}+1 = {wait_bound(n, m)}", None, "starvation")
        self.seen_reset = self.seen_reset or reset
        nonhead = agent != head
        self.seen_nonhead = self.seen_nonhead or nonhead
        info = dict(info, agent=agent, reason=reason, nonhead=nonhead)
        return info


# ------------------------------------------------------------------------------------------------
# sub-check 1: exhaustive BFS to saturation
# ------------------------------------------------------------------------------------------------


def _param_sets(ns, ms, agings):
    sets = []
    for n in ns:
        for m in ms:
            for aging in agings:
                for policy in POLICIES:
                    for rot in (False, True):
                        # park: the lexicographically first agent is known to the bookkeeping but NOT queued (the driver
                        # took it out before the first selection): "a queued agent", "all [queued] have used up ..."
                        for park in ((False, True) if n >= 3 else (False,)):
                            heavy = (policy == "fair_queue" and aging > 0)
                            sets.append(((heavy, n - int(park), m, aging), (n, m, aging, policy, rot, park)))
    sets.sort(key=lambda x: x[0], reverse=True)  # heavy sets adjacent -> dealt round-robin over the shards
    return [p for _, p in sets]


def _bfs_case(params, deltas, t0=100):
    n, m, aging, policy, rot, park = params
    agents = AGENTS4[:n] if n <= 4 else (AGENTS4 + ["ä", "a"])[:n]
    return {"agents": agents, "policy": policy, "m": m, "aging": aging, "rotate": rot, "t0": t0,
            "park": min(agents) if park else None, "steps": [["turn", d] for d in deltas]}


def _path(parents, idx):
    out = []
    while idx > 0:
        idx, d = parents[idx]
        out.append(d)
    out.reverse()
    return out


def _bfs_one(rec, params, deltas, max_states, notes):
    n, m, aging, policy, rot, park = params
    base = _bfs_case(params, [])
    try:
        root = Driver(base["agents"], base["t0"], policy, m, aging)
        if base["park"] is not None:
            root.dequeue(base["park"], dynamic=False)
            n -= 1
    except Violation as v:
        rec.violation(v.message, base, v.sig)
        return
    seen = {root.model.norm(root.clk.t)}
    parents = [(0, None)]
    queue = collections.deque([(root, 0, 0)])
    n_tr = n_nt = 0
    lab = collections.Counter()
    depth = 0
    capped = False
    sample = None
    while queue:
        node, idx, d = queue.popleft()
        depth = max(depth, d)
        for dl in deltas:
            ch = node.fork()
            ch.clk.t = node.clk.t + dl
            try:
                info = ch.turn(rot)
            except Violation as v:
                rec.violation(v.message, _bfs_case(params, _path(parents, idx) + [dl]), v.sig)
                return
            n_tr += 1
            if info["reset"]:
                lab["reset"] += 1
            if info["nonhead"]:
                lab["pick!=head"] += 1
            if info["boost"]:
                lab["tiers-differ"] += 1
            if info["tie"]:
                lab["tier-tie"] += 1
            if info["ambiguous"]:
                lab["ambiguous"] += 1
            nt = ch.seen_reset and ch.seen_nonhead
            if nt:
                n_nt += 1
                if sample is None:
                    sample = _bfs_case(params, _path(parents, idx) + [dl])
            key = ch.model.norm(ch.clk.t)
            if key not in seen:
                if len(seen) >= max_states:
                    capped = True
                    continue
                seen.add(key)
                parents.append((idx, dl))
                queue.append((ch, len(parents) - 1, d + 1))
    bound = wait_bound(n, m)
    # the deepest node carries the running max only along its own path: recompute tightness from the memo keys
    mw = max(max(k[-1]) for k in seen)
    if mw == bound:
        lab["wait==bound"] += 1
    lab[f"policy={policy}"] += n_tr
    lab[f"n={n}"] += n_tr
    lab["paramsets"] += 1
    if park:
        lab["paramsets-with-parked-agent"] += 1
    lab["paramsets-saturated" if not capped else "paramsets-capped"] += 1
    if n_nt:
        rec.case(nontrivial=True, dig=None, n=n_nt, sample=sample if (n == 3 and m == 1) else None)
    if n_tr - n_nt:
        rec.case(nontrivial=False, n=n_tr - n_nt)
    for k, v in lab.items():
        rec.label(k, v)
    if capped:
        rec.budget_hit = True
    key = f"{policy[:2]}/n{n}{'+parked' if park else ''}/m{m}/aging{aging}/rot{int(rot)}"
    notes[key + "/d=" + ",".join(map(str, deltas))] = (f"states={len(seen)} transitions={n_tr} depth={depth} max_wait={mw} "
                                                      f"bound={bound} saturated={not capped}")


def sub_bfs(rec, seed, shard, nshards, ns=(1, 2, 3, 4), ms=(1, 2, 3), agings=(0, 1, 5), deltas=(0, 1, 5, 7),
            max_states=40000, extra=()):
    sets = [(p, tuple(deltas), max_states) for p in _param_sets(ns, ms, agings)]
    for (ens, ems, eag, edl, emax) in extra:
        sets += [(p, tuple(edl), emax) for p in _param_sets(ens, ems, eag)]
    notes = {}
    mine = [x for i, x in enumerate(sets) if i % nshards == shard]
    mine.sort(key=lambda x: (x[0][0], x[0][1], x[0][2]))  # small sets first: the first counterexample reported is a small one
    for p, dl, mx in mine:
        _bfs_one(rec, p, dl, mx, notes)
    rec.note(f"sets_shard{shard}", notes)


# ------------------------------------------------------------------------------------------------
# linear history execution (replay of bfs and machine cases)
# ------------------------------------------------------------------------------------------------


def run_history(case):
    """case: {"agents","policy","m","aging","rotate","t0","steps":[...]}; steps:
    ["turn", delta] | ["turn", delta, rotate, drift, consumed, reason] | ["adv", delta] | ["peek"] | ["deq", agent] |
    ["enq", agent]; optional "park": agent taken out of the queue before the first step"""
    try:
        d = Driver(case["agents"], case["t0"], case["policy"], case["m"], case["aging"])
        if case.get("park") is not None:
            d.dequeue(case["park"], dynamic=False)
        for s in case["steps"]:
            if s[0] == "deq":
                d.dequeue(s[1])
            elif s[0] == "enq":
                d.enqueue(s[1])
            elif s[0] == "adv":
                d.clk.t += s[1]
            elif s[0] == "peek":
                d.select()
            elif s[0] == "turn":
                d.clk.t += s[1]
                rot = s[2] if len(s) > 2 else case["rotate"]
                drift = s[3] if len(s) > 3 else 0
                d.turn(rot, yield_at=d.clk.t + drift, consumed=s[4] if len(s) > 4 else None,
                       yreason=s[5] if len(s) > 5 else "SLICE")
            else:
                raise ValueError(f"unknown step {s!r}")
    except Violation as v:
        raise Violation(v.message, case, v.sig)
    return d


def replay_history(case):
    if isinstance(case, list):  # machine history: [init, step, step, ...]
        case = dict(case[0], steps=case[1:])
    run_history(case)


# ------------------------------------------------------------------------------------------------
# sub-check 2: random long histories
# ------------------------------------------------------------------------------------------------


def _make_machine(rec):
    from hypothesis.stateful import RuleBasedStateMachine, initialize, precondition, rule

    deltas = st.one_of(st.sampled_from([0, 0, 1, 1, 2, 3, 5, 7, 10, 199, 200, 201, 400]),
                       st.integers(-300, 1500), st.sampled_from([-1, -7, -200, -10 ** 6, 10 ** 9]))

    class SchedMachine(RuleBasedStateMachine):
        def __init__(self):
            super().__init__()
            self.history = []
            self.d = None
            self.n_turns = 0
            self.lab = collections.Counter()

        def _guard(self, fn, *a, **k):
            try:
                return fn(*a, **k)
            except Violation as v:
                vv = Violation(v.message, list(self.history), v.sig)
                type(self)._vx_last["v"] = vv
                raise vv

        @initialize(agents=st.one_of(st.lists(st.sampled_from(NAME_POOL), min_size=1, max_size=6, unique=True),
                                     st.lists(st.sampled_from(NAME_POOL), min_size=3, max_size=6, unique=True)),
                    policy=st.sampled_from(POLICIES), m=st.sampled_from([1, 1, 1, 2, 2, 3, 4, 50]),
                    aging=st.sampled_from([0, 1, 5, 7, 200, 10 ** 6]), rotate=st.sampled_from(["never", "always", "mixed"]),
                    t0=st.sampled_from([0, 100, 13371337, -5, 1_750_000_000_000]), dynamic=st.sampled_from([False, False, True]))
        def init(self, agents, policy, m, aging, rotate, t0, dynamic):
            self.rotate = rotate
            self.allow_dynamic = dynamic and len(agents) > 1
            self.parked = []
            self.history.append({"agents": agents, "policy": policy, "m": m, "aging": aging,
                                 "rotate": rotate == "always", "t0": t0})
            self.d = self._guard(Driver, agents, t0, policy, m, aging)

        # the driver owns the queue: an agent that is not ready is taken out (its bookkeeping entries stay) and later
        # re-queued at the tail. The chosen agent must always be a QUEUED one, saturation is judged over the queue.
        @precondition(lambda self: self.d is not None and self.allow_dynamic and len(self.d.real["queue"]) > 1)
        @rule(i=st.integers(0, 5))
        def dequeue(self, i):
            q = self.d.real["queue"]
            a = q[i % len(q)]
            self.history.append(["deq", a])
            self.d.dequeue(a)
            self.parked.append(a)
            self.lab["dequeue"] += 1

        @precondition(lambda self: self.d is not None and bool(self.parked))
        @rule(i=st.integers(0, 5))
        def enqueue(self, i):
            a = self.parked.pop(i % len(self.parked))
            self.history.append(["enq", a])
            self.d.enqueue(a)
            self.lab["enqueue"] += 1

        @rule(delta=deltas)
        def advance(self, delta):
            self.history.append(["adv", delta])
            self.d.clk.t += delta
            if delta < 0:
                self.lab["clock-backwards"] += 1

        @rule()
        def peek(self):
            self.history.append(["peek"])
            self._guard(self.d.select)

        @rule(delta=deltas, rot=st.booleans(), drift=st.sampled_from([0, 0, 0, 1, 6, -3]),
              consumed=st.sampled_from([{}, {"ms": 3}, {"ms": 10 ** 6, "t1_pops": 5}, {"bogus": -1}]),
              yreason=st.sampled_from(["SLICE", "WALL_MS", "QUANTUM_EXCEEDED", "RESET_CONSEC", ""]))
        def turn(self, delta, rot, drift, consumed, yreason):
            rot = {"never": False, "always": True, "mixed": rot}[self.rotate]
            self.history.append(["turn", delta, rot, drift, consumed, yreason])
            self.d.clk.t += delta
            info = self._guard(self.d.turn, rot, yield_at=self.d.clk.t + drift, consumed=consumed, yreason=yreason)
            self.n_turns += 1
            for k in ("reset", "nonhead", "boost", "tie", "ambiguous"):
                if info[k]:
                    self.lab[k] += 1

        def teardown(self):
            d = self.d
            if d is None or rec is None:
                return
            nt = d.seen_reset and d.seen_nonhead
            labels = [f"agents={len(d.model.queue) + len(self.parked)}", f"policy={d.policy}", f"rotate={self.rotate}"]
            if d.dynamic:
                labels.append("queue-membership-changed")
            if self.parked:
                labels.append("ends-with-parked-agent")
            if "max_consecutive_turns" not in d.fair:
                labels.append("allowance=absent")
            elif d.model.m >= 50:
                labels.append("allowance>=50")
            labels += [k for k, v in self.lab.items() if v]
            if self.n_turns >= 100:
                labels.append("turns>=100")
            if d.max_wait == wait_bound(len(d.model.queue), d.model.m) and len(d.model.queue) > 1 and not d.dynamic:
                labels.append("wait==bound")
            rec.case(nontrivial=nt, dig=digest(self.history) if nt else None, labels=labels,
                     sample={"init": self.history[0], "first_steps": self.history[1:9], "turns": self.n_turns,
                             "max_wait": d.max_wait} if nt else None)

    return SchedMachine


def sub_machine(rec, seed, shard, nshards, n=80, steps=300, shrink=True):
    run_machine(rec, seed, _make_machine(rec), max_examples=n, steps=steps, shrink=shrink, name="history")


# ------------------------------------------------------------------------------------------------
# sub-check 3: yield decision
# ------------------------------------------------------------------------------------------------

BOUNDARY_KEYS = {"T1": ("t1_iters", "t1_pops"), "T2": ("t2_k",), "T3": ("t3_ops",), "T4": (), "Apply": (), "any": None}


@st.composite
def decisions(draw):
    route = draw(st.sampled_from(["config", "config", "dict"]))
    quantum = draw(st.sampled_from([1, 2, 5, 20, 20, 50]))
    wall_mode = draw(st.sampled_from(["eq", "gt", "gt", "none", "lt"] if route == "dict" else ["eq", "gt", "gt", "default", "none"]))
    wall = {"eq": quantum, "gt": quantum + draw(st.sampled_from([1, 3, 30])), "lt": max(1, quantum - draw(st.sampled_from([1, 4]))),
            "none": None, "default": "default"}[wall_mode]
    stage = {}
    for k, _ in STAGE_BUDGETS:
        mode = draw(st.sampled_from(["int", "int", "null", "absent"]))
        if mode == "int":
            stage[k] = draw(st.sampled_from([0, 1, 2, 3, 5, 64]))
        elif mode == "null":
            stage[k] = None
    boundary = draw(st.sampled_from(list(BOUNDARY_KEYS)))
    keys = BOUNDARY_KEYS[boundary]
    if keys is None:
        keys = tuple(k for k, _ in STAGE_BUDGETS if draw(st.booleans()))
    consumed = {}
    # effective budgets (the validator materialises defaults for absent keys on the config route)
    defaults = {"t1_pops": None, "t1_iters": 50, "t2_k": 64, "t3_ops": 3}
    for k in keys:
        b = stage.get(k, defaults[k] if route == "config" else None)
        if b is None:
            consumed[k] = draw(st.sampled_from([0, 1, 7]))
        else:
            pos = draw(st.sampled_from(["hit", "hit", "below", "zero", "over"]))
            consumed[k] = {"hit": b, "below": max(0, b - 1), "zero": 0, "over": b + draw(st.sampled_from([1, 2]))}[pos]
    eff_wall = 200 if wall == "default" else wall
    anchors = [0, quantum - 1, quantum, quantum + 1]
    if eff_wall is not None:
        anchors += [eff_wall - 1, eff_wall, eff_wall + 1, eff_wall + 1000]
    consumed["ms"] = max(0, draw(st.sampled_from(anchors + [10 ** 9])))
    return {"route": route, "quantum": quantum, "wall": wall, "stage": stage, "consumed": consumed, "boundary": boundary,
            # the rest of the slice context and the spelling of numbers in the configuration must not matter
            "slice": draw(st.sampled_from([None, None, [0, 0, "A"], [2, 13371337, "b"], [7, -5, ""]])),
            "str_numbers": draw(st.sampled_from([False, False, False, True])) if route == "config" else False}


def _decision_budgets(case):
    """Build the budgets dict exactly as the orchestrator does (config route) or as the repo tests do (dict route)."""
    if case["route"] == "config":
        from clematis.engine.orchestrator.core import _derive_budgets
        from harness.world import validated_cfg, make_ctx

        b = dict(case["stage"])
        if case["wall"] != "default":
            b["wall_ms"] = case["wall"]
        conv = (lambda v: str(v) if (case.get("str_numbers") and isinstance(v, int)) else v)  # the validator coerces "5" -> 5
        cfg = validated_cfg({"scheduler": {"enabled": True, "quantum_ms": conv(case["quantum"]),
                                           "budgets": {k: conv(v) for k, v in b.items()}}})
        ctx = make_ctx(cfg)
        got = _derive_budgets(ctx)
        plain = json.loads(json.dumps(cfg["scheduler"]))
        want = ref_derive_budgets(plain)
        if got != want:
            raise Violation(f"_derive_budgets = {got!r}, reference {want!r} for scheduler config {plain!r}", case, "derive-budgets")
        # what the property needs from the derivation: every configured, non-null budget reaches the slice unchanged
        for k, v in b.items():
            if v is not None and got.get(k) != v:
                raise Violation(f"configured budget {k}={v} not handed to the slice: {got!r}", case, "derive-budgets")
        if got.get("quantum_ms") != case["quantum"]:
            raise Violation(f"quantum_ms {case['quantum']} not handed to the slice: {got!r}", case, "derive-budgets")
        return got
    out = {k: v for k, v in case["stage"].items()}
    out["quantum_ms"] = case["quantum"]
    if case["wall"] is not None:
        out["wall_ms"] = case["wall"]
    return out


def check_decision(case, rec=None):
    from clematis.engine.orchestrator import _should_yield

    budgets = _decision_budgets(case)
    consumed = dict(case["consumed"])
    sl = case.get("slice") or [1, 0, "A"]
    sc = {"slice_idx": sl[0], "started_ms": sl[1], "budgets": budgets, "agent_id": sl[2]}
    b0, c0 = json.dumps(budgets, sort_keys=True), json.dumps(consumed, sort_keys=True)
    r1 = _should_yield(sc, consumed)
    r2 = _should_yield(sc, consumed)
    if json.dumps(budgets, sort_keys=True) != b0 or json.dumps(consumed, sort_keys=True) != c0:
        raise Violation("_should_yield mutated its arguments", case, "decision-impure")
    if r1 != r2:
        raise Violation(f"_should_yield not deterministic: {r1!r} vs {r2!r}", case, "decision-nondet")
    adm, info = ref_should_yield(budgets, consumed)
    if r1 not in adm:
        fired = [x for x, on in (("WALL_MS", info["wall"]), ("BUDGET", bool(info["hit"])), ("QUANTUM", info["quantum"])) if on]
        sig = "precedence" if len(fired) >= 2 else "decision"
        raise Violation(f"_should_yield(budgets={budgets}, consumed={consumed}) = {r1!r}; documented precedence "
                        f"WALL_MS > BUDGET_* > QUANTUM_EXCEEDED gives {sorted(map(str, adm))} (fired: {fired}, "
                        f"reached: {info['hit']}, over: {info['over']})", case, sig)
    if rec is not None:
        fired = int(info["wall"]) + int(bool(info["hit"])) + int(info["quantum"])
        labels = [f"result={r1}", f"fired={fired}", f"route={case['route']}", f"boundary={case['boundary']}"]
        if info["over"]:
            labels.append("over-budget(undocumented)")
        if len(info["hit"]) > 1:
            labels.append("multi-budget")
        if any(v == 0 for v in budgets.values()):
            labels.append("zero-budget")
        if case.get("slice"):
            labels.append("slice-ctx-varied")
        if case.get("str_numbers"):
            labels.append("numbers-as-strings")
        nt = fired >= 2
        rec.case(nontrivial=nt, dig=digest(case) if nt else None, labels=labels,
                 sample={"budgets": budgets, "consumed": consumed, "result": r1} if nt else None)


def sub_decision(rec, seed, shard, nshards, n=1500, shrink=True):
    run_hypothesis(rec, seed, decisions(), lambda c: check_decision(c, rec), max_examples=n, shrink=shrink, name="decision")


def replay_decision(case):
    check_decision(case, None)



# ------------------------------------------------------------------------------------------------
# sub-check 4: full turns, scheduling enabled, scripted clock
# ------------------------------------------------------------------------------------------------

SLOTS = ["T1", "T2", "T3", "speak", "T4", "Apply"]          # callables that advance the scripted clock
BOUNDARIES = ["T1", "T2", "T3", "T4", "Apply"]               # documented yield points
SEGMENT = {"T1": ["T1"], "T2": ["T2"], "T3": ["T3"], "T4": ["speak", "T4"], "Apply": ["Apply"]}  # slots ending at a boundary
LOGS_OF = {"T1": ["t1.jsonl"], "T2": ["t2.jsonl"], "T3": [], "speak": ["t3.jsonl", "t3_plan.jsonl", "t3_dialogue.jsonl"],
           "T4": ["t4.jsonl"], "Apply": ["apply.jsonl"]}
LOG_FILES = ["scheduler.jsonl", "turn.jsonl", "t1.jsonl", "t2.jsonl", "t3.jsonl", "t3_plan.jsonl", "t3_dialogue.jsonl",
             "t4.jsonl", "apply.jsonl"]
EP_TEXTS = ["apple pear", "apple", "fig plum", "kiwi lime apple", "pear", "nut yam pea", "Äpfel app", "date zzz", "plum pea yam"]
BUDGET_KEYS = ["t1_pops", "t1_iters", "t2_k", "t3_ops"]
STAGE_OF_KEY = {"t1_pops": "T1", "t1_iters": "T1", "t2_k": "T2", "t3_ops": "T3"}
KEYS_OF_STAGE = {"T1": ["t1_pops", "t1_iters"], "T2": ["t2_k"], "T3": ["t3_ops"]}
TIGHT = {"t1_pops": [0, 1, 2], "t1_iters": [0, 1], "t2_k": [0, 1, 2], "t3_ops": [0, 1, 2]}
MID = {"t1_pops": [3, 4, 6], "t1_iters": [2, 3], "t2_k": [3, 4], "t3_ops": [2, 3]}
LOOSE = {"t1_pops": [None, 5000, 10 ** 9, "absent"], "t1_iters": ["absent", "absent", 50, None, 10 ** 9],
         "t2_k": [None, 64, "absent", 10 ** 9], "t3_ops": [None, 5, 5, "absent", 10 ** 9]}


def _layout(t4_enabled=True):
    """(slots, boundaries, slots executed until a yield at each boundary) for this configuration (t4.enabled is the
    documented kill switch: no T4 / Apply stage, hence no T4 / Apply boundary)."""
    slots = list(SLOTS) if t4_enabled else ["T1", "T2", "T3", "speak"]
    bounds = list(BOUNDARIES) if t4_enabled else ["T1", "T2", "T3"]
    until = {None: slots}
    for b in bounds:
        last = SEGMENT[b][-1]
        until[b] = slots[:slots.index(last) + 1]
    return slots, bounds, until


def _spread(draw, total, slots):
    """Split `total` ms over `slots` (random composition)."""
    out = {s: 0 for s in slots}
    if not slots or total <= 0:
        return out
    cuts = sorted(draw(st.integers(0, total)) for _ in range(len(slots) - 1))
    prev = 0
    for s, c in zip(slots, cuts + [total]):
        out[s] = c - prev
        prev = c
    return out


@st.composite
def _budget_draw(draw, target, forced, chaos):
    """scheduler.budgets stage keys. Stages BEFORE the target boundary get loose / mid budgets (the road to the target
    stays open most of the time), the target's own and later stages anything."""
    ti = BOUNDARIES.index(target) if target in BOUNDARIES else len(BOUNDARIES)
    out = {}
    for k in BUDGET_KEYS:
        si = BOUNDARIES.index(STAGE_OF_KEY[k])
        if k in forced:
            cls = "tight"
        elif chaos:
            cls = draw(st.sampled_from(["loose", "mid", "tight"]))
        elif si < ti:
            cls = draw(st.sampled_from(["loose"] * 9 + ["mid"]))
        else:
            cls = draw(st.sampled_from(["loose", "loose", "mid", "tight", "tight"]))
        v = draw(st.sampled_from({"tight": TIGHT, "mid": MID, "loose": LOOSE}[cls][k]))
        if v != "absent":
            out[k] = v
    return out


@st.composite
def turn_cases(draw):
    from harness.world import graph_specs, texts_for

    gids = draw(st.sampled_from([["g1"], ["g1"], ["g2", "g1"], ["g1", "g3", "g2"]]))
    big = draw(st.sampled_from([False, False, True]))  # larger graphs: mid-size pop / layer budgets bind
    graphs = {g: draw(graph_specs(max_nodes=8 if big else 5, max_edges=14 if big else 6)) for g in gids}
    text = draw(texts_for(graphs))
    chain = False
    g0 = graphs[gids[0]]
    if len(g0["nodes"]) >= 3 and draw(st.integers(0, 2)) == 0:
        # a path through all nodes of the first graph starting at a seed: propagation has several layers to go
        chain = True
        ns = g0["nodes"]
        ns[0]["label"] = ns[0]["label"] or "kiwi"
        for j in range(len(ns) - 1):
            g0["edges"].append({"id": f"c{j}", "src": ns[j]["id"], "dst": ns[j + 1]["id"], "w": draw(st.sampled_from([1.0, 0.9])),
                                "rel": "supports"})
        text = (text + " " + ns[0]["label"]).strip()
    node_labels = sorted({str(n["label"]).lower() for sp in graphs.values() for n in sp["nodes"] if n["label"]})
    _ep = st.tuples(st.sampled_from(EP_TEXTS + node_labels), st.sampled_from(["A", "A", "world"]))
    eps = draw(st.one_of(st.lists(_ep, max_size=4), st.lists(_ep, min_size=3, max_size=8)))
    t4_enabled = draw(st.sampled_from([True] * 7 + [False]))
    slots, bounds, _ = _layout(t4_enabled)
    q = draw(st.sampled_from([1, 2, 5, 5, 20]))
    wall_mode = draw(st.sampled_from(["eq", "+1", "+5", "+180", "+180", "default", "none"]))
    wall = {"eq": q, "+1": q + 1, "+5": q + 5, "+180": q + 180, "default": "absent", "none": None}[wall_mode]
    wall_eff = 200 if wall == "absent" else wall
    # later boundaries are only reached when nothing stops the turn earlier: weight them up
    target = draw(st.sampled_from([b for b in bounds for _ in range({"T3": 2, "T4": 3, "Apply": 2}.get(b, 1))] + ["none"]))
    kind = draw(st.sampled_from(["budget", "wall", "quantum", "budget+quantum", "budget+wall"]))
    forced = set()
    if "budget" in kind and target in KEYS_OF_STAGE:
        forced.add(draw(st.sampled_from(KEYS_OF_STAGE[target])))
    if draw(st.integers(0, 5 if target in ("T1", "T2", "none") else 14)) == 0:
        forced.add("t2_k")  # more hits than the slice may use: the budget has to bind
    budgets = draw(_budget_draw(target, forced, chaos=draw(st.integers(0, 7)) == 0))
    if chain and "t1_iters" not in forced and draw(st.integers(0, 1 if target in ("T1", "none") else 5)) == 0:
        v = draw(st.sampled_from([0, 1, 2, 3]))
        budgets["t1_iters"] = v
    if wall != "absent":
        budgets["wall_ms"] = wall
    # ---- scripted stage durations -------------------------------------------------------------------
    style = draw(st.sampled_from(["slot", "cum", "cum"]))
    dur = {s: 0 for s in SLOTS}
    if target == "none":
        dur.update(_spread(draw, draw(st.sampled_from([0, q - 1, q - 1])), slots))  # the slice stays below the quantum
    else:
        seg = [s for s in SEGMENT[target] if s in slots]
        earlier = slots[:slots.index(seg[0])]
        if "quantum" in kind:
            amount = q + draw(st.sampled_from([0, 0, 1]))
        elif "wall" in kind:
            amount = max(0, (wall_eff if wall_eff is not None else q) + draw(st.sampled_from([0, 0, 1, -1])))
        else:
            amount = draw(st.sampled_from([0, 0, q - 1]))
        # "cum": the threshold is crossed by the SUM of several stages, every earlier boundary stays below the quantum
        pre = draw(st.integers(0, min(q - 1, amount))) if (style == "cum" and earlier) else 0
        dur.update(_spread(draw, pre, earlier))
        dur.update(_spread(draw, amount - pre, seg))
        for s in slots[slots.index(seg[-1]) + 1:]:
            dur[s] = draw(st.sampled_from([0, 0, 0, 1]))
        if style == "slot":
            for s in earlier:
                dur[s] += draw(st.sampled_from([0, 0, 0, 0, 1]))
    mode = draw(st.sampled_from(["file", "file", "capture"]))
    policy = draw(st.sampled_from(POLICIES))
    # an earlier T1 evaluation of the same agent on the same state (same text, graph version unchanged) under OTHER slice
    # budgets: whatever the engine kept from it (stage caches) must not loosen or tighten this slice's clamps
    warm = draw(st.sampled_from([None, None, None, None, "derived", "derived", {}, {"t1_pops": 5000, "t1_iters": 50}, {"t1_pops": 1},
                                 {"t1_pops": 0, "t1_iters": 0}, {"t1_iters": 1}, {"t1_pops": 3, "t1_iters": 2}]))
    binding = [k for k in ("t1_pops", "t1_iters") if isinstance(budgets.get(k), int) and budgets[k] < 50]
    if binding and draw(st.booleans()):
        warm = "derived"
    if warm == "derived":  # the measured slice's own T1 budgets with ONE of them changed: the other cache-key parts are equal
        warm = {k: budgets[k] for k in ("t1_pops", "t1_iters") if budgets.get(k) is not None}
        if binding:  # a LOOSER earlier evaluation: serving its result now would break this slice's clamp
            k = draw(st.sampled_from(binding))
            v = draw(st.sampled_from([None, None, 50, 5000, budgets[k] + 1, budgets[k] + 2]))
        else:
            k = draw(st.sampled_from(["t1_iters", "t1_iters", "t1_pops"]))
            v = draw(st.sampled_from([None, 0, 1, 2, 3, 50, 5000]))
        warm.pop(k, None)
        if v is not None:
            warm[k] = v
    # an earlier complete SLICE (run_turn) on the same state, usually yielding before Apply (graph / state version unchanged,
    # so every cache level stays valid), under other budgets or with scheduling off; optionally on the same ctx object
    prev = None
    if draw(st.integers(0, 2)) == 0:
        pq_ = draw(st.sampled_from([1, 5, 20]))
        stop = draw(st.sampled_from(["T1", "T2", "T2", "T3", "T3", "full"]))
        pb = dict(budgets)
        pb.pop("wall_ms", None)
        if draw(st.booleans()):  # differs from the measured slice in ONE stage budget: everything else in the cache keys is equal
            binding = [k for k in BUDGET_KEYS if isinstance(budgets.get(k), int) and budgets[k] < 50]
            if binding and draw(st.booleans()):  # ... a LOOSER one: serving its cached result now would break this slice's clamp
                k = draw(st.sampled_from(binding))
                v = draw(st.sampled_from(["absent", None, 5000, budgets[k] + 1, budgets[k] + 2]))
            else:
                k = draw(st.sampled_from(BUDGET_KEYS))
                v = draw(st.sampled_from(TIGHT[k] + MID[k] + LOOSE[k]))
            pb.pop(k, None)
            if v != "absent":
                pb[k] = v
        else:
            pb = draw(_budget_draw("none", set(), chaos=True))
        pdur = {s: 0 for s in SLOTS}
        if stop != "full":
            pdur[SEGMENT[stop][-1]] = pq_
        prev = {"enabled": draw(st.integers(0, 3)) != 0, "quantum": pq_, "budgets": pb, "dur": pdur,
                "same_ctx": draw(st.booleans()), "policy": draw(st.sampled_from(POLICIES))}
    return {"graphs": graphs, "active": gids, "text": text, "episodes": [list(e) for e in eps], "quantum": q,
            "budgets": budgets, "dur": dur, "mode": mode, "policy": policy, "warm": warm, "prev": prev,
            "t4_enabled": t4_enabled, "slice_idx": draw(st.sampled_from([None, None, None, 0, 1, 4])),
            "clock0": draw(st.sampled_from([0, 0, 1000, 123457])),
            "str_numbers": draw(st.sampled_from([False, False, False, True])),  # "5" for 5: the validator coerces
            "plan": [target, kind, style],
            "sim_threshold": draw(st.sampled_from([None, -1.0, -1.0]))}  # -1.0: every owned episode is a hit


def _read_jsonl(path):
    if not os.path.exists(path):
        return []
    with open(path, "r", encoding="utf-8") as f:
        return [json.loads(ln) for ln in f if ln.strip()]


class _StageCrash(Exception):
    pass


class _FakeTime:
    """Stands in for the `time` module inside orchestrator.core: perf_counter is the scripted clock."""

    def __init__(self, real, ms=0):
        self._real = real
        self.ms = ms

    def perf_counter(self):
        return self.ms / 1000.0

    def __getattr__(self, name):
        return getattr(self._real, name)


class _HeapqShim:
    """Stands in for `heapq` inside stages/t1: counts the pops T1 really performs (independent of its own metrics)."""

    def __init__(self, real, log):
        self._real = real
        self._log = log

    def heappop(self, h):
        self._log.append(None)
        return self._real.heappop(h)

    def __getattr__(self, name):
        return getattr(self._real, name)


def _store_view(state):
    """What T1 / T2 can see of the active graphs right now: read from the live store before a slice runs."""
    store = state["store"]
    view = {}
    for gid in state["active_graphs"]:
        g = store.get_graph(gid)
        nodes = []
        for n in g.nodes.values():
            kws = [str(n.label)] if getattr(n, "label", None) else []
            try:
                tags = list((getattr(n, "attrs", None) or {}).get("tags", []) or [])
            except Exception:
                tags = []
            kws += [t for t in tags if isinstance(t, str) and t]
            nodes.append((n.id, str(n.label) if getattr(n, "label", None) else None, kws))
        view[gid] = {"nodes": nodes, "edges": [(e.src, e.dst) for e in g.edges.values()]}
    return view


def _reach(gv, text, hops):
    """(seed nodes, nodes within `hops` directed hops of a seed) for one graph view."""
    t = (text or "").lower()
    seeds = {nid for nid, _, kws in gv["nodes"] if any(k.lower() in t for k in kws)}
    allowed, frontier = set(seeds), set(seeds)
    for _ in range(min(int(hops), len(gv["nodes"]) + len(gv["edges"]) + 1)):
        nxt = {d_ for s_, d_ in gv["edges"] if s_ in frontier} - allowed
        if not nxt:
            break
        allowed |= nxt
        frontier = nxt
    return seeds, allowed


def _sched_overrides(spec, strs):
    conv = (lambda v: str(v) if (strs and isinstance(v, int) and not isinstance(v, bool)) else v)
    if not spec.get("enabled", True):
        return {"enabled": False, "budgets": {k: conv(v) for k, v in spec["budgets"].items()}}
    return {"enabled": True, "policy": spec["policy"], "quantum_ms": conv(spec["quantum"]),
            "budgets": {k: conv(v) for k, v in spec["budgets"].items()}}


def check_turn(case, rec=None):
    import clematis.engine.orchestrator as orch
    import clematis.engine.orchestrator.core as core
    import clematis.engine.stages.t1 as t1mod
    from clematis.memory.index import InMemoryIndex
    from clematis.adapters.embeddings import DeterministicEmbeddingAdapter
    from harness.world import sandbox, validated_cfg, make_ctx, build_store, reset_engine_globals

    missing = object()
    pkg_names = ["t1_propagate", "t2_semantic", "t3_deliberate", "t3_dialogue"]
    saved_pkg = {n: orch.__dict__.get(n, missing) for n in pkg_names}
    saved_core = {n: getattr(core, n) for n in ("t4_filter", "apply_changes", "time")}
    saved_heapq = t1mod.__dict__.get("heapq", missing)
    ft = _FakeTime(saved_core["time"], int(case.get("clock0") or 0))
    poplog = []      # one entry per real heap pop (None) / per graph whose propagation starts (("g", gid))
    cur = {}         # recorders of the slice being executed

    def wrap(name, fn):
        def w(*a, **k):
            # the one-shot RAG refinement re-enters retrieval from inside T3 (after deliberation): part of T3, not a stage
            tag = "rag" if (name == "T2" and "T3" in cur["calls"]) else name
            cur["calls"].append(tag)
            mark = len(poplog)
            try:
                r = fn(*a, **k)
            except Exception as e:  # a crash INSIDE a stage is that stage's property (C11-C13), not scheduling
                raise _StageCrash(f"{tag}: {type(e).__name__}: {e}") from e
            cur["results"].setdefault(tag, r)
            if name in ("speak", "T4"):  # the plan that is carried on after deliberation (+ the optional RAG refinement)
                pl = a[1] if name == "speak" else (a[4] if len(a) > 4 else None)
                cur["plan_ops"][tag] = len(list(getattr(pl, "ops", None) or []))
            if name == "T1":
                per, g_ = {}, None
                for x in poplog[mark:]:
                    if x is None:
                        if g_ is not None:
                            per[g_] = per.get(g_, 0) + 1
                    else:
                        g_ = x[1]
                        per.setdefault(g_, 0)
                cur["pops"] = per
            ft.ms += int(cur["dur"].get(name, 0))
            cur["at_ms"][tag] = ft.ms - cur["t0"]
            return r
        return w

    main = {"enabled": True, "quantum": case["quantum"], "budgets": case["budgets"], "dur": case["dur"],
            "policy": case["policy"], "mode": case["mode"], "same_ctx": False}
    specs = []
    if case.get("prev"):
        specs.append(dict(case["prev"], mode="file", is_prev=True))
        main["same_ctx"] = bool(case["prev"].get("same_ctx"))
    specs.append(main)
    observed = []

    with sandbox("vx_c17_") as d:
        reset_engine_globals()
        idx = InMemoryIndex()
        enc = DeterministicEmbeddingAdapter(dim=32)
        for i, (txt, owner) in enumerate(case["episodes"]):
            idx.add({"id": f"ep{i}", "owner": owner, "text": txt, "vec_full": enc.encode([txt])[0],
                     "ts": "2025-06-15T00:00:00Z", "aux": {}})
        state = {"store": build_store(case["graphs"]), "active_graphs": list(case["active"]), "mem_index": idx,
                 "_boot_loaded": True, "version_etag": "0"}
        store = state["store"]
        orig_csr = store.csr

        def csr_spy(gid, *a, **k):  # T1 fetches the adjacency of a graph right before it starts popping for it
            poplog.append(("g", gid))
            return orig_csr(gid, *a, **k)

        seen_lines = {fn: 0 for fn in LOG_FILES}
        ctx = None
        try:
            store.csr = csr_spy
            t1mod.heapq = _HeapqShim(saved_heapq if saved_heapq is not missing else __import__("heapq"), poplog)
            orch.t1_propagate = wrap("T1", core._t1_propagate)
            orch.t2_semantic = wrap("T2", core._t2_semantic)
            orch.t3_deliberate = wrap("T3", lambda c, s, bundle: core.deliberate(bundle))
            orch.t3_dialogue = wrap("speak", lambda db, plan: core.speak(db, plan))
            core.t4_filter = wrap("T4", core._t4_filter)
            core.apply_changes = wrap("Apply", core._default_apply_changes)
            core.time = ft
            for si, spec in enumerate(specs):
                over = {"scheduler": _sched_overrides(spec, bool(case.get("str_numbers"))),
                        "t4": {"snapshot_dir": os.path.join(d, "snap"),
                               **({"enabled": False} if not case.get("t4_enabled", True) else {})},
                        **({"t2": {"sim_threshold": case["sim_threshold"]}} if case.get("sim_threshold") is not None else {})}
                cfg = validated_cfg(over)
                if ctx is None or not spec.get("same_ctx"):
                    ctx = make_ctx(cfg, agent="A", turn_id=7)
                    if si == len(specs) - 1 and case.get("slice_idx") is not None:
                        ctx.slice_idx = case["slice_idx"]  # a resumed slice: the driver's ctx already counted earlier ones
                else:
                    ctx.cfg = ctx.config = cfg
                if si == len(specs) - 1 and case.get("warm") is not None:
                    wctx = make_ctx(cfg, agent="A", turn_id=6)
                    if case["warm"]:
                        wctx.slice_budgets = dict(case["warm"])
                    try:
                        core._t1_propagate(wctx, state, case["text"])
                    except Exception:
                        pass  # a crash inside the stage is C12's business
                capture = {}
                for attr in ("_driver_writes_scheduler_log", "_sched_capture", "_sched_pick_reason"):
                    if hasattr(ctx, attr):
                        delattr(ctx, attr)
                if spec["mode"] == "capture":  # the demo driver's mode: the orchestrator hands the event over instead of writing it
                    ctx._driver_writes_scheduler_log = True
                    ctx._sched_capture = capture
                    ctx._sched_pick_reason = "ROUND_ROBIN"
                # the turn-level T2 cache (state["_cache_mgr"]) can serve retrieval without calling the stage at all: observe it
                cm = state.get("_cache_mgr")
                if cm is not None and not getattr(cm, "_vx_spied", False):
                    def spy_get(ns, key, _orig=cm.get):
                        out = _orig(ns, key)
                        if ns == "t2:semantic" and isinstance(out, tuple) and out and out[0] and "T2" not in cur["calls"]:
                            cur["calls"].append("T2")
                            cur["results"].setdefault("T2", out[1])
                            cur["at_ms"]["T2"] = ft.ms - cur["t0"]
                            cur["t2_turn_cache_hit"] = True
                        return out
                    cm.get = spy_get
                    cm._vx_spied = True
                view = _store_view(state)
                cur = {"calls": [], "results": {}, "at_ms": {}, "dur": spec["dur"], "t0": ft.ms, "pops": {}, "plan_ops": {}}
                idx_before = getattr(ctx, "slice_idx", None)
                try:
                    res = core.Orchestrator().run_turn(ctx, state, case["text"])
                except _StageCrash as e:
                    if rec is not None:
                        rec.case(nontrivial=False, labels=["discarded:stage-raised"])
                        rec.note("stage_raised_example", str(e)[:300])
                    return
                except Exception as e:
                    raise Violation(f"scheduled turn raised {type(e).__name__}: {e} after stages {cur['calls']}", case, "turn-raises")
                logs = {}
                for fn in LOG_FILES:
                    allr = _read_jsonl(os.path.join(d, "logs", fn))
                    logs[fn] = allr[seen_lines[fn]:]
                    seen_lines[fn] = len(allr)
                ft.ms += 3  # the driver's own time between two slices is nobody's slice time
                observed.append(dict(cur, spec=spec, res=res, logs=logs, capture=dict(capture), view=view,
                                     sched_cfg=json.loads(json.dumps(cfg["scheduler"])), idx_before=idx_before,
                                     idx_after=getattr(ctx, "slice_idx", None)))
        finally:
            for n, v in saved_pkg.items():
                if v is missing:
                    orch.__dict__.pop(n, None)
                else:
                    setattr(orch, n, v)
            for n, v in saved_core.items():
                setattr(core, n, v)
            if saved_heapq is missing:
                t1mod.__dict__.pop("heapq", None)
            else:
                t1mod.heapq = saved_heapq
            store.__dict__.pop("csr", None)

    labels, nt, sample = [], False, None
    for ob in observed:
        if not ob["spec"].get("enabled", True):
            labels.append("prev:scheduling-off")
            continue  # the property speaks about slices with scheduling enabled
        lb, nt_, smp = _check_slice(case, ob)
        if ob["spec"].get("is_prev"):
            labels += ["prev:" + x for x in lb if x.startswith(("stage_end=", "reason="))]
        else:
            labels += lb
            nt, sample = nt_, smp
    if rec is not None:
        if case.get("prev"):
            labels.append("prev-slice")
            if case["prev"].get("same_ctx"):
                labels.append("prev-slice:same-ctx")
        if case.get("warm") is not None:
            labels.append("warm-t1")
        if case.get("slice_idx") is not None and not (case.get("prev") and case["prev"].get("same_ctx")):
            labels.append("ctx.slice_idx-preset")
        if not case.get("t4_enabled", True):
            labels.append("t4-disabled")
        if case.get("str_numbers"):
            labels.append("numbers-as-strings")
        labels.append(f"graphs={len(case['active'])}")
        if case.get("plan"):
            got = [x for x in labels if x.startswith("stage_end=")]
            labels.append(f"planned={case['plan'][0]}:{'reached' if got and got[-1] == 'stage_end=' + str(case['plan'][0]).replace('none', 'None') else 'not-reached'}")
            labels.append(f"time-style={case['plan'][2]}")
        rec.case(nontrivial=nt, dig=digest(case) if nt else None, labels=labels, sample=sample if nt else None)


def _check_slice(case, ob):
    """All oracles for one executed slice (scheduling enabled). -> (labels, nontrivial, sample)"""
    spec, res, logs, calls, results, at_ms = ob["spec"], ob["res"], ob["logs"], ob["calls"], ob["results"], ob["at_ms"]
    slots, bounds, calls_until = _layout(case.get("t4_enabled", True))
    slice_budgets = ref_derive_budgets(ob["sched_cfg"])
    for k, v in spec["budgets"].items():  # every configured, non-null budget reaches the slice unchanged
        if v is not None and slice_budgets.get(k) != int(v):
            raise Violation(f"configured budget {k}={v} is not what the validated configuration hands to the slice: "
                            f"{ob['sched_cfg']}", case, "derive-budgets")
    if not hasattr(res, "line"):
        raise Violation(f"run_turn returned {res!r}, not a turn result", case, "turn-result")
    capture = ob["capture"]
    events = [dict(capture)] if (spec["mode"] == "capture" and capture) else list(logs["scheduler.jsonl"])
    if spec["mode"] == "capture" and logs["scheduler.jsonl"]:
        raise Violation("driver-logging mode: orchestrator wrote scheduler.jsonl itself", case, "capture-mode")
    if len(events) > 1:
        raise Violation(f"{len(events)} yield events for one turn: {events}", case, "multi-yield")
    ev = events[0] if events else None
    stage_end = ev.get("stage_end") if ev else None
    if ev is not None and stage_end not in bounds:
        raise Violation(f"yield event with stage_end={stage_end!r}: not a stage boundary (boundaries of this configuration: "
                        f"{bounds})", case, "not-a-boundary")

    # consumption at each boundary, rebuilt from what the stages really returned and the scripted clock, measured from the
    # start of THIS slice
    def consumed_at(b):
        c = {"ms": at_ms[SEGMENT[b][-1]]}
        if b == "T1":
            m = results["T1"].metrics
            c["t1_iters"], c["t1_pops"] = int(m["iters"]), int(m["pops"])
        elif b == "T2":
            c["t2_k"] = int(results["T2"].metrics["k_used"])
        elif b == "T3":
            c["t3_ops"] = len(results["T3"].ops)
        return c

    want_calls = calls_until[stage_end]
    rag = "rag" in calls
    if [c for c in calls if c != "rag"] != want_calls or calls.count("rag") > 1 or (rag and calls[calls.index("rag") - 1] != "T3"):
        raise Violation(f"turn yielded at {stage_end!r} but executed stages {calls} (expected exactly {want_calls}): "
                        "work of a later stage ran / a stage was skipped", case, "stage-sequence")
    seen_kinds = []
    cons = None
    for b in bounds:
        c = consumed_at(b)
        adm, info = ref_should_yield(slice_budgets, c)
        if b == stage_end:
            if ev.get("reason") not in (adm - {None}):
                raise Violation(f"yield at {b} with reason {ev.get('reason')!r}; consumption {c} (time since the slice started) "
                                f"under budgets {slice_budgets} gives {sorted(map(str, adm))} (WALL_MS > BUDGET_* > "
                                "QUANTUM_EXCEEDED)", case, "yield-reason")
            if ev.get("consumed") != c:
                raise Violation(f"yield event records consumption {ev.get('consumed')} at {b}, the stages did {c} since the "
                                "slice started", case, "event-consumed")
            seen_kinds = [x for x, on in (("wall", info["wall"]), ("budget", bool(info["hit"])), ("quantum", info["quantum"])) if on]
            cons = c
            break
        if None not in adm:
            raise Violation(f"no yield at boundary {b} although consumption {c} (time since the slice started) under budgets "
                            f"{slice_budgets} requires {sorted(map(str, adm))}; turn went on to {stage_end!r}", case, "missed-yield")
    # nothing of a later stage is recorded; everything executed is recorded once
    for s in SLOTS:
        for fn in LOGS_OF[s]:
            n = len(logs[fn])
            if s not in calls and n:
                raise Violation(f"turn yielded at {stage_end!r} but {fn} has {n} record(s) of a later stage", case, "later-stage-logged")
            if s in calls and n != 1:
                raise Violation(f"stage {s} ran but {fn} has {n} records", case, "stage-log-count")
    turns = logs["turn.jsonl"]
    if len(turns) != 1:
        raise Violation(f"turn.jsonl has {len(turns)} records for one turn", case, "turn-log-count")
    if ev is not None:
        if turns[0].get("yielded") is not True or turns[0].get("yield_reason") != ev.get("reason"):
            raise Violation(f"turn.jsonl {turns[0]} does not carry the yield ({ev.get('reason')})", case, "turn-log-yield")
    elif turns[0].get("yielded"):
        raise Violation(f"turn.jsonl says yielded but no yield event exists: {turns[0]}", case, "turn-log-yield")

    # ---- budgets bind -----------------------------------------------------------------------------------------------
    labels = []
    view, text = ob["view"], case["text"]
    ng = max(1, len(view))
    clamp = []
    m1 = results["T1"].metrics
    for key, val, mult in (("t1_pops", int(m1["pops"]), ng), ("t1_iters", int(m1["iters"]), ng),
                           ("t2_k", int(results["T2"].metrics["k_used"]) if "T2" in results else None, 1),
                           ("t3_ops", len(results["T3"].ops) if "T3" in results else None, 1)):
        b = slice_budgets.get(key)
        if b is None or val is None:
            continue
        if val > b * mult:
            raise Violation(f"stage work {key}={val} exceeds slice budget {b}" + (f" x {mult} graphs" if mult > 1 else ""),
                            case, f"clamp-{key}")
        if val == b * mult and b < 50:
            clamp.append(key)
    b3 = slice_budgets.get("t3_ops")
    for tag, n_ in sorted(ob.get("plan_ops", {}).items()):
        if b3 is not None and n_ > b3:
            raise Violation(f"the plan handed to {tag} has {n_} ops under slice budget t3_ops={b3} (deliberation returned "
                            f"{len(results['T3'].ops)})", case, "clamp-t3_ops")
    # propagation pops, per graph, as really performed (heap pops counted under the stage, not its own metrics)
    bp = slice_budgets.get("t1_pops")
    if ob["pops"]:
        labels.append("t1-real-pops-observed")
        if bp is not None:
            for gid, n_ in sorted(ob["pops"].items()):
                if n_ > bp:
                    raise Violation(f"T1 performed {n_} heap pops on graph {gid!r} under slice budget t1_pops={bp} (its metrics "
                                    f"report pops={m1['pops']} over {ng} graph(s))", case, "clamp-t1_pops-real")
            if any(n_ == bp for n_ in ob["pops"].values()) and bp < 50:
                labels.append("t1-real-pops==budget")
    # propagation pops / layers as visible in the RESULT (also covers results served from a cache): with p pops only seeds and
    # out-neighbours of p popped nodes can be touched; with i layers nothing further than i hops from a seed
    touched = {str(d_.get("id")) for d_ in (results["T1"].graph_deltas or []) if isinstance(d_, dict)}
    bi = slice_budgets.get("t1_iters")
    if bi is not None:
        allowed, allowed_inf = set(), set()
        for gv in view.values():
            allowed |= {str(x) for x in _reach(gv, text, bi)[1]}
            allowed_inf |= {str(x) for x in _reach(gv, text, 10 ** 6)[1]}
        extra = sorted(touched - allowed)
        if extra:
            raise Violation(f"T1 touched node(s) {extra} further than t1_iters={bi} layer(s) from every seed of the active graphs "
                            f"(text {text!r}); metrics report iters={m1['iters']}", case, "clamp-t1_iters-reach")
        if allowed != allowed_inf:
            labels.append("t1_iters-budget-cuts-reach")
    if bp is not None:
        cap_n, seeds_all = 0, set()
        for gv in view.values():
            seeds = _reach(gv, text, 0)[0]
            seeds_all |= {str(x) for x in seeds}
            outdeg = collections.Counter()
            for s_, d_ in set(gv["edges"]):
                outdeg[s_] += 1
            cap_n += len(seeds) + sum(sorted(outdeg.values(), reverse=True)[:bp])
        if (bp == 0 and not touched <= seeds_all) or len(touched) > cap_n:
            raise Violation(f"T1 touched {len(touched)} node(s) {sorted(touched)}: more than the seeds {sorted(seeds_all)} plus the "
                            f"out-neighbours of t1_pops={bp} popped node(s) can be (<= {cap_n}); metrics report pops={m1['pops']}",
                            case, "clamp-t1_pops-reach")
    # "retrieval hits USED": whatever T2 derives from its hits (residual graph nudges) may only come from the first
    # k_used ranked hits, not from hits beyond the slice budget -- for the stage's T2 run and for the RAG re-entry
    labels_of = {}
    for gv in view.values():
        for nid, label, _ in gv["nodes"]:
            if label:
                labels_of.setdefault(nid, set()).add(label.lower())
    b2 = slice_budgets.get("t2_k")
    for tag in ("T2", "rag"):
        if tag not in results:
            continue
        r2 = results[tag]
        ku = int(r2.metrics["k_used"])
        if b2 is not None and ku > b2:
            raise Violation(f"{tag}: retrieval used {ku} hits under slice budget t2_k={b2}", case, "clamp-t2_k")
        hits = list(r2.retrieved)
        used_texts = [(getattr(h_, "text", "") or "").lower() for h_ in hits[:ku]]
        for d_ in list(getattr(r2, "graph_deltas_residual", []) or []):
            nid = d_.get("id")
            if not any(lb in t_ for lb in labels_of.get(nid, ()) for t_ in used_texts):
                raise Violation(f"{tag}: residual nudge for node {nid!r} is not justified by the {ku} hit(s) the slice budget "
                                f"t2_k={b2} allows T2 to use ({len(hits)} retrieved): a hit beyond the budget was used", case,
                                "t2-uses-hits-beyond-budget")
        if tag == "T2":
            beyond = [(getattr(h_, "text", "") or "").lower() for h_ in hits[ku:]]
            if any(lb in t_ and not any(lb in u_ for u_ in used_texts) for lbs in labels_of.values() for lb in lbs for t_ in beyond):
                labels.append("t2-hit-beyond-budget-would-nudge")

    reason = ev.get("reason") if ev else None
    labels += [f"stage_end={stage_end}", f"reason={reason}", f"mode={spec['mode']}", f"yield@{stage_end}:{reason}"]
    labels += [f"clamped:{k}" for k in clamp]
    if len(seen_kinds) >= 2:
        labels.append("precedence-exercised")
    if reason in ("WALL_MS", "QUANTUM_EXCEEDED"):
        thr = slice_budgets.get("wall_ms") if reason == "WALL_MS" else slice_budgets.get("quantum_ms")
        if thr is not None and max(int(v) for v in spec["dur"].values()) < thr:
            labels.append("time-crossed-by-sum-of-stages")
        if cons is not None and cons["ms"] == thr:
            labels.append("time==threshold")
    if slice_budgets.get("wall_ms") is None:
        labels.append("wall=none")
    elif slice_budgets["wall_ms"] == slice_budgets["quantum_ms"]:
        labels.append("wall==quantum")
    if "T2" in results and int(results["T2"].metrics["k_used"]) > 0:
        labels.append("t2-hits-used")
    if "T2" in results and b2 is not None and len(results["T2"].retrieved) > b2:
        labels.append("t2_k-budget-binds(retrieved>budget)")
    if ob.get("t2_turn_cache_hit"):
        labels.append("t2-served-from-turn-cache")
    if int(m1.get("cache_hits", 0) or 0) > 0:
        labels.append("t1-served-from-cache")
    if rag:
        labels.append("rag-reentry")
    for key in ("t1_pops", "t1_iters"):
        if slice_budgets.get(key) is not None and int(m1[key[3:]]) > slice_budgets[key]:
            labels.append(f"aggregate-over-budget:{key}(undocumented)")
    if int(m1["pops"]) > 0:
        labels.append("t1-pops>0")
    nt = (reason is not None and reason != "QUANTUM_EXCEEDED") or bool(clamp)
    sample = {"budgets": slice_budgets, "dur": spec["dur"], "stage_end": stage_end, "reason": reason,
              "consumed": ev.get("consumed") if ev else None, "calls": calls}
    return labels, nt, sample


def sub_turns(rec, seed, shard, nshards, n=60, shrink=True):
    run_hypothesis(rec, seed, turn_cases(), lambda c: check_turn(c, rec), max_examples=n, shrink=shrink, name="turns")


def replay_turn(case):
    check_turn(case, None)


# ------------------------------------------------------------------------------------------------
# sub-check 5: the real driver loop (clematis/scripts/demo.py) on slices that always yield
# ------------------------------------------------------------------------------------------------

DRIVER_NAMES = ["b", "a10", "a2", "B", "ä", "Z", "_x", "0", "10", "9", "A", "aa", "AgentA", "AgentB"]  # no commas / outer blanks: CLI list
FORCE = {"t1_pops": {"t1_pops": 0}, "t1_iters": {"t1_iters": 0}, "both": {"t1_pops": 0, "t1_iters": 0}}


@st.composite
def driver_cases(draw):
    agents = draw(st.one_of(st.lists(st.sampled_from(DRIVER_NAMES), min_size=1, max_size=5, unique=True),
                            st.lists(st.sampled_from(DRIVER_NAMES), min_size=3, max_size=5, unique=True)))
    m = draw(st.sampled_from([1, 1, 2, 3]))
    return {"agents": agents, "policy": draw(st.sampled_from(POLICIES)), "m": m, "aging": draw(st.sampled_from([0, 1, 200])),
            "steps": draw(st.integers(1, max(4, min(40, 2 * wait_bound(len(agents), m) + 3)))),
            "force": draw(st.sampled_from(sorted(FORCE))),      # a zero T1 budget: every slice yields at the T1 boundary
            "now": draw(st.sampled_from([0, 13371337, 13371337])),
            "via": draw(st.sampled_from(["yaml", "cli"]))}     # where policy / budgets come from: config file or CLI flags


def check_driver(case, rec=None):
    """Run demo.main() in-process (frozen driver clock, its own state / graph) and judge the (agent, pick reason, queue)
    sequence it logs against the property: queued + not saturated unless all are, then lexicographically first + reset;
    round_robin = first eligible in the logged queue order; bounded wait."""
    import contextlib
    import io
    import sys
    import clematis.io.paths as paths
    from harness.world import sandbox, reset_engine_globals

    n_agents, m = len(case["agents"]), case["m"]
    sched = {"enabled": True, "quantum_ms": 20, "budgets": {"wall_ms": 200},
             "fairness": {"max_consecutive_turns": m, "aging_ms": case["aging"]}}
    argv = ["demo", "--agents", ",".join(case["agents"]), "--steps", str(case["steps"]), "--fixed-now-ms", str(case["now"])]
    if case["via"] == "yaml":
        sched["policy"] = case["policy"]
        sched["budgets"].update(FORCE[case["force"]])
    else:
        argv += ["--policy", case["policy"]]
        for k, v in FORCE[case["force"]].items():
            argv += ["--" + k.replace("_", "-"), str(v)]
    saved_argv, saved_path, saved_logs_dir = list(sys.argv), list(sys.path), paths.logs_dir
    with sandbox("vx_c17d_") as d:
        reset_engine_globals()
        cfg_path = os.path.join(d, "config.yaml")
        with open(cfg_path, "w", encoding="utf-8") as f:
            json.dump({"scheduler": sched}, f)  # JSON is YAML
        out = io.StringIO()
        try:
            sys.argv = argv + ["--config", cfg_path]
            import clematis.scripts.demo as demo
            with contextlib.redirect_stdout(out):
                try:
                    demo.main()
                except SystemExit as e:
                    raise RuntimeError(f"harness: demo.main() exited ({e.code}) for argv {sys.argv}: {out.getvalue()[-300:]}")
                except Exception as e:
                    raise Violation(f"driver loop raised {type(e).__name__}: {e}", case, "driver-raises")
        finally:
            sys.argv[:] = saved_argv
            sys.path[:] = saved_path
            paths.logs_dir = saved_logs_dir
        events = _read_jsonl(os.path.join(d, "logs", "scheduler.jsonl"))

    if len(events) != case["steps"]:
        # a selection without a yield gets no bookkeeping in this driver: the premise of the property is not met
        if rec is not None:
            rec.case(nontrivial=False, labels=["discarded:not-every-slice-yielded"])
            rec.note("driver_discard_example", {"argv": argv, "events": len(events), "stdout": out.getvalue()[-300:]})
        return
    model = RefScheduler(case["agents"], case["now"], case["policy"], m, case["aging"])
    seen_reset = seen_nonhead = False
    max_wait = 0
    for i, ev in enumerate(events):
        agent, why = ev.get("agent"), ev.get("pick_reason")
        where = f"step {i + 1}/{len(events)} of {[e.get('agent') for e in events[:i + 1]]}"
        if case["policy"] == "round_robin":  # the driver owns (and logs) the queue order; the order only matters here
            qb = ev.get("queue_before")
            if not isinstance(qb, list) or sorted(qb) != sorted(case["agents"]):
                raise Violation(f"{where}: logged queue {qb!r} is not the agent set {sorted(case['agents'])}", case, "driver-queue")
            model.queue = list(qb)
        adm, want_reason, info = model.pick(case["now"])
        if agent not in model.queue:
            raise Violation(f"{where}: selected {agent!r} is not a queued agent ({model.queue})", case, "not-queued")
        if info["reset"]:
            if agent != min(model.queue):
                raise Violation(f"{where}: all allowances used up ({model.consec}, allowance {m}): selected {agent!r}, "
                                f"lexicographically first is {min(model.queue)!r}", case, "reset-not-lexmin")
            if why != RESET:
                raise Violation(f"{where}: all allowances used up but the pick reason is {why!r}, not RESET_CONSEC", case, "reset-reason")
        else:
            if agent not in info["eligible"]:
                raise Violation(f"{where}: selected {agent!r} has used up its allowance {m} ({model.consec}) while "
                                f"{info['eligible']} have not (no reset happened since)", case, "ineligible-selected")
            if why == RESET:
                raise Violation(f"{where}: RESET_CONSEC signalled while {info['eligible']} are still eligible", case, "spurious-reset")
            if agent not in adm:
                raise Violation(f"{where}: selected {agent!r}, the policy {case['policy']} selects {sorted(adm)} "
                                f"(queue {model.queue}, allowances used {model.consec})", case,
                                "rr-not-first-eligible" if case["policy"] == "round_robin" else "fq-not-argmax")
        seen_reset = seen_reset or info["reset"]
        seen_nonhead = seen_nonhead or agent != model.queue[0]
        model.on_yield(agent, case["now"], info["reset"])
        starving = model.count_wait(agent)
        max_wait = max(max_wait, max(model.wait.values()))
        if starving is not None:
            raise Violation(f"{where}: agent {starving[0]!r} waited {starving[1]} selections of other agents; bound "
                            f"2*({n_agents}-1)*{m}+1 = {wait_bound(n_agents, m)}", case, "starvation")
    if rec is not None:
        nt = seen_reset and n_agents > 1
        labels = [f"agents={n_agents}", f"policy={case['policy']}", f"via={case['via']}", f"force={case['force']}"]
        labels += [x for x, on in (("reset", seen_reset), ("pick!=head", seen_nonhead),
                                   ("wait==bound", n_agents > 1 and max_wait == wait_bound(n_agents, m))) if on]
        rec.case(nontrivial=nt, dig=digest(case) if nt else None, labels=labels,
                 sample={"case": case, "agents": [e.get("agent") for e in events][:12]} if nt else None)


def sub_driver(rec, seed, shard, nshards, n=40, shrink=True):
    run_hypothesis(rec, seed, driver_cases(), lambda c: check_driver(c, rec), max_examples=n, shrink=shrink, name="driver")


def replay_driver(case):
    check_driver(case, None)


SUBCHECKS = [
    Sub("bfs", sub_bfs, quick={"max_states": 40000},
        thorough={"max_states": 2_000_000,
                  "extra": [((2, 3, 4), (1, 2, 3), (1, 5), (0, 2, 3, 11), 2_000_000),
                            ((5,), (1, 2), (0, 1, 5), (0, 1, 5, 7), 400_000),
                            ((2, 3), (4, 5), (0, 1, 5), (0, 1, 5, 7), 400_000)]},
        shards_quick=8, shards_thorough=16, exhaustive=True, replay=replay_history),
    Sub("machine", sub_machine, quick={"n": 75, "steps": 300}, thorough={"n": 700, "steps": 400}, shards_quick=4,
        shards_thorough=16, replay=replay_history),
    Sub("decision", sub_decision, quick={"n": 1250}, thorough={"n": 15000}, shards_quick=4, shards_thorough=16,
        replay=replay_decision),
    Sub("turns", sub_turns, quick={"n": 100}, thorough={"n": 400}, shards_quick=4, shards_thorough=16, replay=replay_turn),
    Sub("driver", sub_driver, quick={"n": 40}, thorough={"n": 250}, shards_quick=4, shards_thorough=16, replay=replay_driver),
]

KNOWN_PROBES = {}
