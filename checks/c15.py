"""C15 — bounded caches never exceed capacity and evict deterministically.

Sub-checks
  exhaustive : breadth-first closure over reachable (reference model, implementation) states for every container
               and every small configuration; every operation of a small alphabet is applied in every reachable
               state and compared with the reference model (return value, eviction report, sizes, LRU->MRU order,
               membership, stats) plus the structural invariants (bounds, byte accounting, disabled when 0).
               Every capacity cap is explored over >= cap+1 keys; the clock is driven through the engine's own
               injection path (ctx.now_ms -> logical_now_s -> holder -> logical_time_fn) from logical time 0, lands
               exactly on age == ttl, jumps far beyond the default ttl and (depth-bounded) steps back; values include
               None; every LRUCache constructor spelling with explicit zeros; the lock wrappers in front of all three
               wrappable caches with a counting lock handed to the constructor.
  machines   : Hypothesis RuleBasedStateMachine per container, long random sequences, larger alphabets and capacities,
               keys of mixed types (1 / "1" / (1, 2) / "(1, 2)" / [1, 2] / "" / 0 / unhashable tuples), falsy values.
  threads    : real threads on ThreadSafeCache(LRUCache | DeterministicLRU) / ThreadSafeBytesCache(LRUBytes) with a
               tiny switch interval and a settrace hook that yields the GIL at generated lines inside the container
               code. Oracles are schedule independent: no exception, structural consistency, bounds, no lost update,
               counter totals, and (small histories) a linearizability search against the reference model.
  merge      : merge_caches_deterministic vs the reference merge (LRUCache / DeterministicLRU targets, bare and lock
               wrapped; six kinds of worker caches incl. TTL workers holding expired entries; None values; repeated
               worker ids), independence of the worker *list* order, assert_equal raises exactly on conflicts,
               workers untouched.
  clock      : table over logical_now_s / logical_time_fn (0, sub-second, negative, callable, absent, custom key).

An exception escaping a container method on a generated (in-domain) input is reported as a violation.
Reference models: harness/models/lru.py (ordered lists written from the docstrings).
"""
from __future__ import annotations

import itertools
import operator
import random
import sys
import threading
import time
import types

from harness.runner import Sub, Violation, run_hypothesis, run_machine, digest
from harness.models.lru import (Conflict, RefCacheManager, RefDetLRU, RefFIFOSet, RefLRUBytes, RefLRUCache, RefRing,
                                RefTTL, Undefined, ref_merge, stable)

LEVEL = "exploration"
RULE = ("exhaustive: every (reachable state, operation) pair of each container/configuration over keys {a,b,c[,d,e]} "
        "(at least cap+1 keys per capacity), costs {0,1,2,5,-1}, capacities {0..3}, byte caps {0,3,5}, TTL {0,2} with "
        "clock advances {0.75, 2.0 (== ttl), 3, 1000} and, to a fixed depth, -3; values {None,1}; all LRUCache "
        "constructor spellings; lock wrappers with a counting lock; distinct by construction (memoised on "
        "model+implementation state); non-trivial = the operation evicts / expires / is rejected as oversize, or it "
        "starts from a state where a bound is tight (container full or holding an expired entry). machines: Hypothesis "
        "rule-based sequences (<=200 steps, 8 int keys + mixed-type keys, larger caps/costs, unhashable keys for the TTL "
        "caches, clock steps back / far jumps); non-trivial = >=1 eviction or expiry; distinct = digest(config, op "
        "list). threads: generated per-thread programmes; non-trivial = >=2 threads touch a common key; distinct = "
        "digest(programme). merge: generated worker caches; non-trivial = >=2 workers share a key. clock: table rows.")
ASSUMPTIONS = [
    "reference models in harness/models/lru.py are the documented semantics (docstrings, docs/m9/cache_safety.md)",
    "LRUBytes: a single zero cap means that dimension is unbounded; only both caps zero disables (docstring + the "
    "stages' `max_entries > 0 or max_bytes > 0` construction guard)",
    "negative byte costs are undocumented: only the structural invariants are required for such a put, the model "
    "then resynchronises on the observed contents; negative capacities are outside the validated config domain",
    "TTL is lazy (applied on reads, as documented). Whether age == ttl exactly is alive is not documented: the check "
    "asks _NamespaceCache.get once per process and requires every other TTL read path (LRUCache.__contains__/items, "
    "CacheManager.get) to follow the same rule; an entry stamped in the future (clock stepped back) is not expired",
    "CacheManager.max_entries bounds each namespace separately (_NamespaceCache: 'Per-namespace LRU cache')",
    "DedupeRing.discard: exact membership only for the first discard of a key; afterwards only contains => "
    "physically in the window, refcount <= physical count, len <= k (documentation does not define more)",
    "lock wrappers: 'does not change semantics of the underlying cache, only serializes access' is read as: results "
    "equal the bare cache's, and every access to the inner cache (incl. lazy items() iteration) happens while the "
    "lock passed as `lock=` is held; the lock object handed in only needs acquire/release/__enter__/__exit__",
    "container methods do not raise on in-domain inputs (hashable keys where the signature says Hashable/K, "
    "JSON-able unhashable keys for LRUCache/CacheManager, any iterable for DedupeRing.extend)",
    "thread sub-check samples OS schedules (perturbed by a settrace GIL-yield hook); its oracles hold for every "
    "linearizable execution, so they cannot flake, but absence of a race is only evidence, not proof",
    "the memoisation key reads private fields (_q,_map,_bytes,_d,_set,_ref) only to identify implementation states",
]


class Mismatch(Exception):
    def __init__(self, msg: str, sig: str):
        super().__init__(msg)
        self.msg = msg
        self.sig = sig


def _eq(what: str, got, want, sig: str):
    if got != want:
        raise Mismatch(f"{what}: implementation {got!r}, reference model {want!r}", sig)


def _guarded(what, fn, *args):
    """Call into the code under test. The operations generated here are all inside the documented input domain, and
    the property quantifies over every operation sequence: an exception escaping a container method therefore is a
    violation (the operation has no outcome), not a harness error. Lazy results are materialised inside the guard."""
    try:
        res = fn(*args)
        if isinstance(res, types.GeneratorType) or hasattr(res, "__next__"):
            res = list(res)
        return res
    except Mismatch:
        raise
    except Exception as e:  # noqa: BLE001 - anything the container raises
        raise Mismatch(f"{what}{args!r} raised {type(e).__name__}: {e}", "raises")


class _Guard:
    """Proxy around a container: public methods / properties / len / `in` go through `_guarded`; private attributes
    (read only by invariants and memoisation keys) are passed through."""

    def __init__(self, obj):
        self.__dict__["_o"] = obj

    def __getattr__(self, name):
        o = self.__dict__["_o"]
        if name.startswith("_"):
            return getattr(o, name)
        a = _guarded(f"{type(o).__name__}.{name}", getattr, o, name)
        if not callable(a):
            return a
        return lambda *args: _guarded(f"{type(o).__name__}.{name}", a, *args)

    def __len__(self):
        return _guarded("len", len, self.__dict__["_o"])

    def __contains__(self, k):
        return _guarded("__contains__", operator.contains, self.__dict__["_o"], k)


def _dk(k):
    """Key spec -> key. JSON (replay files) cannot carry tuples, so a tuple key travels as {"__t__": [...]}; every
    other JSON value is the key itself (lists and dicts are deliberately unhashable keys for the TTL caches)."""
    if isinstance(k, dict) and len(k) == 1 and "__t__" in k:
        return tuple(_dk(x) for x in k["__t__"])
    return k


def _is_unhashable(k):
    try:
        hash(k)
        return False
    except TypeError:
        return True


class Clock:
    """The injected clock, driven the way the turn pipeline drives it: the logical time lives on a context object as
    `ctx.now_ms` (int, float or a callable), clematis.engine.cache.logical_now_s(ctx) converts it to seconds into a
    holder dict, and the containers read the holder through clematis.engine.cache.logical_time_fn(holder). It starts
    at logical time 0 (a turn's `now` may be the epoch). The reference models read `ref_time` (plain ms / 1000)."""

    def __init__(self, mode: str = "int"):
        from clematis.engine.cache import logical_time_fn

        self.mode = mode
        self.ms = 0
        self.holder = {}
        self.time = logical_time_fn(self.holder)
        self._push()

    def _push(self) -> None:
        from clematis.engine.cache import logical_now_s

        ms = self.ms
        if self.mode == "direct":
            self.holder["now_s"] = float(ms) / 1000.0
            return
        nm = float(ms) if self.mode == "float" else ((lambda: ms) if self.mode == "call" else ms)
        self.holder["now_s"] = _guarded("logical_now_s", logical_now_s, types.SimpleNamespace(now_ms=nm))

    def advance(self, seconds: float) -> None:
        self.ms += int(round(seconds * 1000))
        self._push()

    @property
    def t(self) -> float:
        return float(self.ms) / 1000.0

    def ref_time(self) -> float:
        return float(self.ms) / 1000.0


_POLICY = {}


def ttl_inclusive() -> bool:
    """No docstring says whether an entry whose age is EXACTLY the ttl is still alive. The check therefore does not
    pick a side: it asks `_NamespaceCache.get` (the primitive every TTL container delegates to) once per process and
    then requires every other TTL read path (LRUCache.__contains__, LRUCache.items, CacheManager.get, ...) to follow
    the same rule ("TTL and LRU semantics match the new implementation")."""
    if "v" not in _POLICY:
        from clematis.engine.cache import _NamespaceCache

        t = [0.0]
        try:
            c = _NamespaceCache(2, 2, lambda: t[0])
            c.set("p", 1)
            t[0] = 2.0
            _POLICY["v"] = not bool(c.get("p")[0])
        except Exception:  # noqa: BLE001 - a broken primitive is reported by the sequence checks
            _POLICY["v"] = False
    return _POLICY["v"]


class RefTTLb(RefTTL):
    """RefTTL with the boundary rule (age == ttl) as a parameter, see ttl_inclusive()."""

    def __init__(self, max_entries, ttl, clock, inclusive=False):
        super().__init__(max_entries, ttl, clock)
        self.inclusive = bool(inclusive)

    def expired(self, ent) -> bool:
        if self.ttl <= 0:
            return False
        age = self.clock() - ent[2]
        return age >= self.ttl if self.inclusive else age > self.ttl

    def n_boundary(self) -> int:
        return sum(1 for e in self.order if self.ttl > 0 and (self.clock() - e[2]) == self.ttl)


class RefLRUCacheb(RefLRUCache):
    def __init__(self, max_entries, ttl, clock, inclusive=False):
        super().__init__(max_entries, ttl, clock)
        self.ns = RefTTLb(max_entries, ttl, clock, inclusive)


class RefCacheManagerb(RefCacheManager):
    def __init__(self, max_entries, ttl, clock, inclusive=False):
        super().__init__(max_entries, ttl, clock)
        self.inclusive = bool(inclusive)

    def _get_ns(self, name, create):
        for n, obj in self.ns:
            if n == name:
                return obj
        if not create:
            return None
        obj = RefTTLb(self.max, self.ttl, self.clock, self.inclusive)
        self.ns.append([name, obj])
        return obj


# ---------------------------------------------------------------------------------- lock wrappers (sequential view)


class _SpyLock:
    """The lock handed to a wrapper's constructor (`lock=`): a real RLock that also counts. Truthy on purpose."""

    def __init__(self):
        self._l = threading.RLock()
        self.depth = 0
        self.acquired = 0

    def acquire(self, *a, **k):
        r = self._l.acquire(*a, **k)
        if r:
            self.depth += 1
            self.acquired += 1
        return r

    def release(self):
        self.depth -= 1
        self._l.release()

    def __enter__(self):
        self.acquire()
        return self

    def __exit__(self, *exc):
        self.release()


class _SpyInner:
    """Stands between a wrapper and the real cache and notes every access made while the wrapper's lock is not held
    (lazily produced items() are noted element by element). Snapshot lists are passed through unchanged."""

    def __init__(self, inner, lock):
        self._inner = inner
        self._lock = lock
        self.unheld = []

    def _note(self, what):
        if self._lock.depth <= 0:
            self.unheld.append(what)

    def get(self, *a):
        self._note("get")
        return self._inner.get(*a)

    def put(self, *a):
        self._note("put")
        return self._inner.put(*a)

    def __contains__(self, k):
        self._note("__contains__")
        return k in self._inner

    def __len__(self):
        self._note("__len__")
        return len(self._inner)

    def items(self):
        self._note("items")
        res = self._inner.items()
        if isinstance(res, (list, tuple)):
            return res
        return self._lazy(iter(res))

    def _lazy(self, it):
        while True:
            self._note("items (lazy iteration)")
            try:
                x = next(it)
            except StopIteration:
                return
            yield x

    def __getattr__(self, name):
        self._note(name)
        return getattr(self._inner, name)


class Front:
    """ThreadSafeCache / ThreadSafeBytesCache in front of a raw cache, single-threaded: the wrappers "do not change
    semantics of the underlying cache, only serialize access" - so every result must be the model's result for the
    raw cache, and (mode 'spy', lock passed in) every access to the inner cache must happen under that lock."""

    def __init__(self, kind, raw, mode):
        from clematis.engine.cache import ThreadSafeBytesCache, ThreadSafeCache

        W = ThreadSafeBytesCache if kind == "bytes" else ThreadSafeCache
        self.mode = mode
        if mode == "spy":
            self.lock = _SpyLock()
            self.spy = _SpyInner(raw, self.lock)
            self.w = W(self.spy, lock=self.lock)
        elif mode == "spy-pos":  # lock as second positional argument
            self.lock = _SpyLock()
            self.spy = _SpyInner(raw, self.lock)
            self.w = W(self.spy, self.lock)
        else:  # 'own': the wrapper creates its own lock
            self.lock = self.spy = None
            self.w = W(raw)

    def call(self, name, *args):
        w = self.w
        before = self.lock.acquired if self.lock is not None else 0
        if self.spy is not None:
            del self.spy.unheld[:]
        if name == "contains":
            res = _guarded("wrapper.__contains__", lambda k: k in w, *args)
        else:
            res = _guarded(f"wrapper.{name}", getattr(w, name), *args)
        if self.spy is not None:
            if self.spy.unheld:
                raise Mismatch(f"wrapper.{name}{args!r}: the inner cache was accessed ({', '.join(self.spy.unheld[:3])}) "
                               "while the wrapper's lock was not held", "wrap-unlocked")
            if self.lock.depth != 0:
                raise Mismatch(f"wrapper.{name}{args!r}: lock still held after the call (depth {self.lock.depth})", "wrap-lock-leak")
            if self.lock.acquired == before:
                raise Mismatch(f"wrapper.{name}{args!r} never acquired the lock the wrapper was constructed with", "wrap-unlocked")
        return res


def _mk_front(kind, raw, cfg):
    mode = cfg.get("wrap")
    return Front(kind, raw, mode) if mode else None


# =================================================================================================
# pairs: implementation + reference model driven in lock step
# =================================================================================================


class PairBase:
    family = ""

    def __init__(self, cfg):
        self.cfg = cfg
        self.flags = set()  # 'evict', 'expire', 'reject', 'undefined', ...
        self.universe = [_dk(k) for k in cfg.get("keys", [])]
        self.front = None

    def _see(self, k):
        if k not in self.universe:
            self.universe.append(k)

    def step(self, op, check=True):
        raise NotImplementedError

    def state_key(self):
        raise NotImplementedError

    def pressure(self) -> bool:
        """A bound is tight in the current (model) state: full container, or an expired entry waiting to be pruned."""
        raise NotImplementedError


def _key_labels(k):
    out = []
    if isinstance(k, tuple):
        out.append("tuple-key")
    if _is_unhashable(k):
        out.append("unhashable-key")
    if k in ("", 0) and not isinstance(k, bool):
        out.append("falsy-key")
    return out


# ------------------------------------------------------------------------------- LRUBytes


class PBytes(PairBase):
    family = "lrubytes"

    def __init__(self, cfg):
        super().__init__(cfg)
        from clematis.engine.util.lru_bytes import LRUBytes

        self.ev = []
        kw = {"on_evict": lambda k, v, c: self.ev.append((k, v, c))}
        if cfg.get("k2s") == "repr":
            kw["key_to_str"] = repr
        raw = LRUBytes(cfg["me"], cfg["mb"], **kw)
        self.impl = _Guard(raw)
        self.front = _mk_front("bytes", raw, cfg)
        self.ref = RefLRUBytes(cfg["me"], cfg["mb"])

    def invariants(self):
        c, me, mb = self.impl, self.cfg["me"], self.cfg["mb"]
        n, b = len(c), c.size_bytes()
        if me > 0 and n > me:
            raise Mismatch(f"{n} entries exceed max_entries={me}", "bound-entries")
        if mb > 0 and b > mb:
            raise Mismatch(f"{b} bytes exceed max_bytes={mb}", "bound-bytes")
        if b < 0:
            raise Mismatch(f"size_bytes() is negative: {b}", "bytes-negative")
        costs = sum(cost for _, cost in c._map.values())
        if b != costs:
            raise Mismatch(f"size_bytes()={b} but stored costs sum to {costs}", "bytes-accounting")
        if len(c._q) != len(c._map) or set(c._q) != set(c._map):
            raise Mismatch(f"recency queue {list(c._q)!r} and map keys {sorted(c._map, key=repr)!r} disagree", "structure")
        if me == 0 and mb == 0 and (n != 0 or b != 0):
            raise Mismatch(f"disabled cache (both caps 0) stores {n} entries / {b} bytes", "disabled")

    def observe(self):
        c, r = self.impl, self.ref
        _eq("len()", len(c), len(r), "len")
        _eq("size_entries()", c.size_entries(), len(r), "len")
        _eq("size_bytes()", c.size_bytes(), r.total(), "bytes")
        _eq("keys() LRU->MRU", list(c.keys()), r.keys(), "order")
        _eq("items() LRU->MRU", list(c.items()), r.items(), "order")
        for k in self.universe + ["?"]:
            _eq(f"contains({k!r})", c.contains(k), r.contains(k), "contains")
            _eq(f"{k!r} in cache", k in c, r.contains(k), "contains")

    def _call(self, name, *args):
        if self.front is not None:
            return self.front.call(name, *args)
        if name == "contains":
            return args[0] in self.impl
        return getattr(self.impl, name)(*args)

    def step(self, op, check=True):
        c, r = self.impl, self.ref
        name = op[0]
        labels = []
        del self.ev[:]
        del r.evictions[:]
        if name == "put":
            _, k, v, cost = op
            k = _dk(k)
            self._see(k)
            labels += _key_labels(k)
            if v is None:
                labels.append("none-value")
            got = self._call("put", k, v, cost)
            try:
                want = r.put(k, v, cost)
            except Undefined:
                # documentation does not define a negative cost: invariants only, then adopt the observed contents
                self.flags.add("undefined")
                labels.append("undefined-cost")
                if check:
                    self.invariants()
                r.order = [[kk, c._map[kk][0], c._map[kk][1]] for kk in c.keys()]
                return labels
            if want[0]:
                self.flags.add("evict")
                labels.append("evict" if want[0] == 1 else "evict-multi")
            if r.max_bytes > 0 and cost > r.max_bytes:
                labels.append("reject-oversize")
            if check:
                _eq(f"put({k!r}, cost={cost}) return", got, want, "put-return")
                _eq("eviction report (on_evict calls, in order)", list(self.ev), list(r.evictions), "evict-report")
        elif name == "get":
            k = _dk(op[1])
            self._see(k)
            got, want = self._call("get", k), r.get(k)
            if check:
                _eq(f"get({k!r})", got, want, "get")
        elif name == "contains":
            k = _dk(op[1])
            self._see(k)
            got, want = self._call("contains", k), r.contains(k)
            if check:
                _eq(f"{k!r} in cache", got, want, "contains")
        elif name == "items":
            got, want = self._call("items"), r.items()
            if check:
                _eq("items() LRU->MRU", list(got), want, "order")
        elif name == "clear":
            c.clear()
            r.clear()
        else:
            raise ValueError(op)
        if self.front is not None:
            labels.append("wrapped")
        if check:
            self.invariants()
            self.observe()
        return labels

    def state_key(self):
        c = self.impl
        return (tuple(c._q), tuple((k, c._map[k]) for k in c._q if k in c._map), c._bytes, self.ref.snapshot())

    def pressure(self):
        r = self.ref
        return (r.max_entries > 0 and len(r) >= r.max_entries) or (r.max_bytes > 0 and r.total() >= r.max_bytes)


# ------------------------------------------------------------------------------- _NamespaceCache


def _age_class(now, ts, ttl):
    if ttl <= 0:
        return 0
    a = now - ts
    return "x" if a > ttl else a


def _ttl_labels(ref_objs, name):
    """labels for a TTL read: an entry sits exactly on the boundary (age == ttl) / in the future (clock went back)."""
    out = []
    for o in ref_objs:
        if o.ttl > 0 and o.n_boundary():
            out.append("age==ttl")
        if o.ttl > 0 and any((o.clock() - e[2]) < 0 for e in o.order):
            out.append("age<0")
    return out


class PNs(PairBase):
    family = "nscache"

    def __init__(self, cfg):
        super().__init__(cfg)
        from clematis.engine.cache import _NamespaceCache

        self.clock = Clock(cfg.get("clk", "int"))
        self.impl = _Guard(_NamespaceCache(cfg["max"], cfg["ttl"], self.clock.time))
        self.ref = RefTTLb(cfg["max"], cfg["ttl"], self.clock.ref_time, ttl_inclusive())

    def invariants(self):
        if self.impl.size() > max(0, self.cfg["max"]):
            raise Mismatch(f"{self.impl.size()} entries exceed max_entries={self.cfg['max']}", "bound-entries")

    def observe(self):
        _eq("size()", self.impl.size(), self.ref.size(), "len")
        _eq("items() oldest->newest", list(self.impl.items()), self.ref.items(), "order")

    def step(self, op, check=True):
        c, r = self.impl, self.ref
        name = op[0]
        labels = []
        if name == "set":
            _, k, v = op
            k = _dk(k)
            labels += _key_labels(k)
            if v is None:
                labels.append("none-value")
            got, want = c.set(k, v), r.set(k, v)
            if want:
                self.flags.add("evict")
                labels.append("evict")
            if check:
                _eq(f"set({k!r}) evicted count", got, want, "set-return")
        elif name == "get":
            k = _dk(op[1])
            nexp = r.n_expired()
            labels += _ttl_labels([r], name)
            got, want = c.get(k), r.get(k)
            if r.n_expired() < nexp:
                self.flags.add("expire")
                labels.append("expire")
            if check:
                _eq(f"get({k!r})", tuple(got), want, "get")
        elif name == "adv":
            self.clock.advance(op[1])
            labels.append("clock-back" if op[1] < 0 else ("clock-jump" if op[1] >= 600 else "adv"))
        elif name == "invalidate":
            got, want = c.invalidate(), r.invalidate()
            if check:
                _eq("invalidate()", got, want, "invalidate")
        else:
            raise ValueError(op)
        if check:
            self.invariants()
            self.observe()
        return labels

    def state_key(self):
        now, ttl = self.clock.t, self.cfg["ttl"]
        return (tuple((k, e.value, _age_class(now, e.ts, ttl)) for k, e in self.impl._d.items()), self.ref.snapshot())

    def pressure(self):
        return (self.ref.max > 0 and self.ref.size() >= self.ref.max) or self.ref.n_expired() > 0


# ------------------------------------------------------------------------------- LRUCache


_CTORS = ["ttl_s", "ttl_sec", "ttl", "capacity", "positional", "cap+ttl_sec", "cap+ttl", "nones"]


def _mk_lrucache(cfg, time_fn):
    """Every documented constructor spelling ("accepts legacy and new constructor params: max_entries/capacity,
    ttl_s/ttl_sec/ttl"); the explicit value - including an explicit 0 - must be the effective one."""
    from clematis.engine.cache import LRUCache

    mx, ttl, ctor = cfg["max"], cfg["ttl"], cfg.get("ctor", "ttl_s")
    if ctor == "ttl_s":
        return LRUCache(max_entries=mx, ttl_s=ttl, time_fn=time_fn)
    if ctor == "ttl_sec":
        return LRUCache(max_entries=mx, ttl_sec=ttl, time_fn=time_fn)
    if ctor == "ttl":
        return LRUCache(max_entries=mx, ttl=ttl, time_fn=time_fn)
    if ctor == "capacity":  # explicit `capacity` is preferred over the default max_entries
        return LRUCache(capacity=mx, ttl_s=ttl, time_fn=time_fn)
    if ctor == "positional":
        return LRUCache(mx, ttl, time_fn=time_fn)
    if ctor == "cap+ttl_sec":
        return LRUCache(capacity=mx, ttl_sec=ttl, time_fn=time_fn)
    if ctor == "cap+ttl":
        return LRUCache(capacity=mx, ttl=ttl, time_fn=time_fn)
    if ctor == "nones":  # the other spellings passed explicitly as None (= not given)
        return LRUCache(max_entries=mx, ttl_s=None, ttl_sec=ttl, ttl=None, capacity=None, time_fn=time_fn)
    raise ValueError(ctor)


class PLru(PairBase):
    family = "lrucache"

    def __init__(self, cfg):
        super().__init__(cfg)
        self.clock = Clock(cfg.get("clk", "int"))
        raw = _guarded("LRUCache", _mk_lrucache, cfg, self.clock.time)
        self.impl = _Guard(raw)
        self.front = _mk_front("lru", raw, cfg)
        self.ref = RefLRUCacheb(cfg["max"], cfg["ttl"], self.clock.ref_time, ttl_inclusive())

    def invariants(self):
        if len(self.impl) > max(0, self.cfg["max"]):
            raise Mismatch(f"{len(self.impl)} entries exceed max_entries={self.cfg['max']}", "bound-entries")

    def observe(self):
        c, r = self.impl, self.ref
        _eq("len()", len(c), r.size(), "len")
        _eq("size()", c.size(), r.size(), "len")
        _eq("stats", dict(c.stats), r.stats(), "stats")
        _eq("entry order oldest->newest (non-pruning snapshot)", list(c._ns.items()), r.ns.items(), "order")

    def step(self, op, check=True):
        c, r = self.impl, self.ref
        f = self.front
        name = op[0]
        labels = []
        nexp = r.ns.n_expired()
        if len(op) > 1 and name != "adv":
            k = _dk(op[1])
            labels += _key_labels(k)
        if name in ("get", "get2", "contains", "items"):
            labels += _ttl_labels([r.ns], name)
        if name in ("set", "put"):
            v = op[2]
            if v is None:
                labels.append("none-value")
            ev0 = r.evicted
            got = f.call("put", k, v) if f is not None else getattr(c, name)(k, v)
            r.set(k, v)
            if r.evicted > ev0:
                self.flags.add("evict")
                labels.append("evict")
            if check:
                _eq(f"{name}({k!r}) return", got, None, "set-return")
        elif name == "get":
            got, want = (f.call("get", k) if f is not None else c.get(k)), r.get(k)
            if check:
                _eq(f"get({k!r})", got, want, "get")
        elif name == "get2":
            got, want = c.get2(k), r.get2(k)
            if check:
                _eq(f"get2({k!r})", tuple(got), want, "get")
        elif name == "contains":
            got, want = (f.call("contains", k) if f is not None else (k in c)), r.contains(k)
            if check:
                _eq(f"{k!r} in cache", got, want, "contains")
        elif name == "items":
            got, want = list(f.call("items") if f is not None else c.items()), r.items()
            if check:
                _eq("items() (TTL pruned, oldest->newest)", got, want, "order")
        elif name == "adv":
            self.clock.advance(op[1])
            labels.append("clock-back" if op[1] < 0 else ("clock-jump" if op[1] >= 600 else "adv"))
        elif name in ("invalidate", "clear"):
            got, want = getattr(c, name)(), r.invalidate()
            if check:
                _eq(f"{name}()", got, want, "invalidate")
        else:
            raise ValueError(op)
        if name in ("get", "get2", "contains", "items") and r.ns.n_expired() < nexp:
            self.flags.add("expire")
            labels.append("expire")
        if f is not None:
            labels.append("wrapped")
        if check:
            self.invariants()
            self.observe()
        return labels

    def state_key(self):
        now, ttl = self.clock.t, self.cfg["ttl"]
        return (tuple((repr(k), e.value, _age_class(now, e.ts, ttl)) for k, e in self.impl._ns._d.items()),
                self.ref.ns.snapshot())

    def pressure(self):
        r = self.ref.ns
        return (r.max > 0 and r.size() >= r.max) or r.n_expired() > 0


# ------------------------------------------------------------------------------- CacheManager


class PMgr(PairBase):
    family = "manager"

    def __init__(self, cfg):
        super().__init__(cfg)
        from clematis.engine.cache import CacheManager

        self.clock = Clock(cfg.get("clk", "int"))
        if cfg.get("ctor") == "positional":
            raw = CacheManager(cfg["max"], cfg["ttl"], self.clock.time)
        else:
            raw = CacheManager(max_entries=cfg["max"], ttl_sec=cfg["ttl"], time_fn=self.clock.time)
        self.impl = _Guard(raw)
        self.ref = RefCacheManagerb(cfg["max"], cfg["ttl"], self.clock.ref_time, ttl_inclusive())

    def invariants(self):
        for name, ns in self.impl._ns.items():
            if ns.size() > max(0, self.cfg["max"]):
                raise Mismatch(f"namespace {name!r}: {ns.size()} entries exceed max_entries={self.cfg['max']}", "bound-entries")

    def observe(self):
        _eq("stats", dict(self.impl.stats), self.ref.stats(), "stats")
        for name, robj in self.ref.ns:
            iobj = self.impl._ns.get(name)
            _eq(f"namespace {name!r} order oldest->newest", [] if iobj is None else list(iobj.items()), robj.items(), "order")
        extra = [n for n, o in self.impl._ns.items() if o.size() and all(n != m for m, _ in self.ref.ns)]
        if extra:
            raise Mismatch(f"entries in namespaces never written: {extra!r}", "order")

    def step(self, op, check=True):
        c, r = self.impl, self.ref
        name = op[0]
        labels = []
        nexp = sum(o.n_expired() for _, o in r.ns)
        if len(op) > 2:
            k = _dk(op[2])
            labels += _key_labels(k)
        if name == "set":
            ns, v = op[1], op[3]
            if v is None:
                labels.append("none-value")
            ev0 = r.evicted
            got = c.set(ns, k, v)
            r.set(ns, k, v)
            if r.evicted > ev0:
                self.flags.add("evict")
                labels.append("evict")
            if check:
                _eq("set() return", got, None, "set-return")
        elif name == "get":
            ns = op[1]
            labels += _ttl_labels([o for _, o in r.ns], name)
            got, want = c.get(ns, k), r.get(ns, k)
            if sum(o.n_expired() for _, o in r.ns) < nexp:
                self.flags.add("expire")
                labels.append("expire")
            if check:
                _eq(f"get({ns!r}, {k!r})", tuple(got), want, "get")
        elif name == "adv":
            self.clock.advance(op[1])
            labels.append("clock-back" if op[1] < 0 else ("clock-jump" if op[1] >= 600 else "adv"))
        elif name == "inv_ns":
            got, want = c.invalidate_namespace(op[1]), r.invalidate_namespace(op[1])
            if check:
                _eq(f"invalidate_namespace({op[1]!r})", got, want, "invalidate")
        elif name == "inv_all":
            got, want = c.invalidate_all(), r.invalidate_all()
            if check:
                _eq("invalidate_all()", got, want, "invalidate")
        else:
            raise ValueError(op)
        if check:
            self.invariants()
            self.observe()
        return labels

    def state_key(self):
        now, ttl = self.clock.t, self.cfg["ttl"]
        impl = tuple(sorted(((n, tuple((repr(k), e.value, _age_class(now, e.ts, ttl)) for k, e in o._d.items()))
                             for n, o in self.impl._ns.items() if o.size()), key=repr))
        return (impl, self.ref.snapshot())

    def pressure(self):
        return any((o.max > 0 and o.size() >= o.max) or o.n_expired() > 0 for _, o in self.ref.ns)


# ------------------------------------------------------------------------------- lru_det.DeterministicLRU


class PDet(PairBase):
    family = "detlru"

    def __init__(self, cfg):
        super().__init__(cfg)
        from clematis.engine.util.lru_det import DeterministicLRU

        self.ev = []
        raw = DeterministicLRU(cfg["cap"], update_on_get=cfg["ug"], update_on_put=cfg["up"],
                               on_evict=lambda k, v: self.ev.append((k, v)))
        self.impl = _Guard(raw)
        self.front = _mk_front("det", raw, cfg)
        self.ref = RefDetLRU(cfg["cap"], cfg["ug"], cfg["up"])

    def invariants(self):
        c, cap = self.impl, self.cfg["cap"]
        if len(c._map) > max(0, cap):
            raise Mismatch(f"{len(c._map)} entries exceed cap={cap}", "bound-entries")
        if len(c._q) != len(c._map) or set(c._q) != set(c._map):
            raise Mismatch(f"recency queue {list(c._q)!r} and map keys {sorted(c._map, key=repr)!r} disagree", "structure")

    def observe(self):
        c, r = self.impl, self.ref
        _eq("len()", len(c), len(r), "len")
        _eq("items() LRU->MRU", list(c.items()), r.items(), "order")
        for k in self.universe + ["?"]:
            _eq(f"{k!r} in cache", k in c, r.contains(k), "contains")
            _eq(f"contains({k!r})", c.contains(k), r.contains(k), "contains")

    def step(self, op, check=True):
        c, r = self.impl, self.ref
        f = self.front
        name = op[0]
        labels = []
        del self.ev[:]
        if len(op) > 1:
            k = _dk(op[1])
            self._see(k)
            labels += _key_labels(k)
        if name == "put":
            v = op[2]
            if v is None:
                labels.append("none-value")
            got, want = (f.call("put", k, v) if f is not None else c.put(k, v)), r.put(k, v)
            if want is not None:
                self.flags.add("evict")
                labels.append("evict")
            if check:
                # ThreadSafeCache.put is documented to return None; the eviction is then reported by on_evict only
                _eq(f"put({k!r}) evicted", got, want if f is None else None, "put-return")
                _eq("eviction report (on_evict calls)", list(self.ev), [] if want is None else [want], "evict-report")
        elif name == "get":
            got, want = (f.call("get", k) if f is not None else c.get(k)), r.get(k)
            if check:
                _eq(f"get({k!r})", got, want, "get")
        elif name == "getd":
            d = op[2]
            got, want = c.get(k, d), r.get(k, d)
            if check:
                _eq(f"get({k!r}, default={d!r})", got, want, "get")
        elif name == "contains":
            got, want = (f.call("contains", k) if f is not None else (k in c)), r.contains(k)
            if check:
                _eq(f"{k!r} in cache", got, want, "contains")
        elif name == "items":
            got, want = list(f.call("items") if f is not None else c.items()), r.items()
            if check:
                _eq("items() LRU->MRU", got, want, "order")
        elif name == "pop":
            got, want = c.pop_lru(), r.pop_lru()
            if want is not None:
                labels.append("pop")
            if check:
                _eq("pop_lru()", got, want, "pop")
                if list(self.ev) not in ([], [want]):
                    raise Mismatch(f"pop_lru() reported evictions {self.ev!r} but removed {want!r}", "evict-report")
        elif name == "clear":
            c.clear()
            r.clear()
        else:
            raise ValueError(op)
        if f is not None:
            labels.append("wrapped")
        if check:
            self.invariants()
            self.observe()
        return labels

    def state_key(self):
        c = self.impl
        return (tuple(c._q), tuple((k, c._map[k]) for k in c._q if k in c._map), self.ref.snapshot())

    def pressure(self):
        return self.ref.cap > 0 and len(self.ref.order) >= self.ref.cap


# ------------------------------------------------------------------------------- FIFO sets


class PSet(PairBase):
    family = "fifoset"  # lru_det.DeterministicLRUSet; subclass below for ring.DeterministicLRU

    def _cls(self):
        from clematis.engine.util.lru_det import DeterministicLRUSet

        return DeterministicLRUSet

    def __init__(self, cfg):
        super().__init__(cfg)
        self.impl = _Guard(self._cls()(cfg["cap"]))
        self.ref = RefFIFOSet(cfg["cap"])

    def invariants(self):
        c, cap = self.impl, self.cfg["cap"]
        if len(c) > max(0, cap):
            raise Mismatch(f"{len(c)} members exceed cap={cap}", "bound-entries")
        if len(c._q) != len(c._set) or set(c._q) != set(c._set):
            raise Mismatch(f"queue {list(c._q)!r} and member set {sorted(c._set, key=repr)!r} disagree", "structure")

    def observe(self):
        c, r = self.impl, self.ref
        _eq("size()", c.size(), r.size(), "len")
        _eq("len()", len(c), r.size(), "len")
        for k in self.universe + ["?"]:
            _eq(f"contains({k!r})", c.contains(k), r.contains(k), "contains")
            _eq(f"{k!r} in set", k in c, r.contains(k), "contains")

    def step(self, op, check=True):
        c, r = self.impl, self.ref
        name = op[0]
        labels = []
        if name == "add":
            k = _dk(op[1])
            self._see(k)
            labels += _key_labels(k)
            got, want = c.add(k), r.add(k)
            if want:
                self.flags.add("evict")
                labels.append("evict")
            if check:
                _eq(f"add({k!r}) evicted?", got, want, "add-return")
        elif name == "clear":
            c.clear()
            r.clear()
        else:
            raise ValueError(op)
        if check:
            self.invariants()
            self.observe()
        return labels

    def state_key(self):
        return (tuple(self.impl._q), tuple(sorted(self.impl._set, key=repr)), self.ref.snapshot())

    def pressure(self):
        return self.ref.cap > 0 and self.ref.size() >= self.ref.cap


class PRingSet(PSet):
    family = "ringlru"

    def _cls(self):
        from clematis.engine.util.ring import DeterministicLRU

        return DeterministicLRU


# ------------------------------------------------------------------------------- DedupeRing


class PRing(PairBase):
    family = "ring"

    def __init__(self, cfg):
        super().__init__(cfg)
        from clematis.engine.util.ring import DedupeRing

        self.impl = _Guard(DedupeRing(cfg["k"]))
        self.ref = RefRing(cfg["k"])

    def invariants(self):
        c, k = self.impl, self.cfg["k"]
        if len(c) > max(0, k):
            raise Mismatch(f"ring holds {len(c)} > k={k}", "bound-entries")
        win = c.tolist()
        for x, n in c._ref.items():
            if n <= 0:
                raise Mismatch(f"non-positive reference count {n} kept for {x!r}", "refcount")
            if n > win.count(x):
                raise Mismatch(f"reference count {n} for {x!r} exceeds its {win.count(x)} physical entries", "refcount")

    def observe(self):
        c, r = self.impl, self.ref
        _eq("len()", len(c), len(r), "len")
        _eq("tolist() oldest->newest", c.tolist(), list(r.window), "order")
        for x in self.universe + ["?"]:
            want = r.contains(x)
            got = c.contains(x)
            _eq(f"{x!r} in ring", x in c, got, "contains")
            if want is None:  # tainted by a discard: only "member => physically present"
                if got and x not in r.window:
                    raise Mismatch(f"contains({x!r}) is True but {x!r} is not in the window {r.window!r}", "contains")
            else:
                _eq(f"contains({x!r})", got, want, "contains")

    def step(self, op, check=True):
        c, r = self.impl, self.ref
        name = op[0]
        labels = []
        if name == "add":
            x = _dk(op[1])
            self._see(x)
            labels += _key_labels(x)
            full = len(r) >= r.k > 0
            got = c.add(x)
            r.add(x)
            if full:
                self.flags.add("evict")
                labels.append("evict")
            if check:
                _eq("add() return", got, None, "add-return")
        elif name == "extend":
            xs = [_dk(x) for x in op[1]]
            for x in xs:
                self._see(x)
                if len(r) >= r.k > 0:
                    self.flags.add("evict")
                    labels.append("evict")
                r.add(x)
            how = op[2] if len(op) > 2 else "list"  # extend(xs: Iterable): any iterable, also a one-shot generator
            labels.append(f"extend-{how}" + ("-empty" if not xs else ("-over-k" if len(xs) > r.k > 0 else "")))
            c.extend((x for x in xs) if how == "gen" else (tuple(xs) if how == "tuple" else list(xs)))
        elif name == "discard":
            x = _dk(op[1])
            self._see(x)
            c.discard(x)
            want = r.discard(x)
            labels.append("discard-defined" if want is not None else "discard-weak")
            if check and want is not None:
                _eq(f"contains({x!r}) right after discard", c.contains(x), want, "discard")
        elif name == "clear":
            c.clear()
            r.clear()
        else:
            raise ValueError(op)
        if check:
            self.invariants()
            self.observe()
        return labels

    def state_key(self):
        return (tuple(self.impl._q), tuple(sorted(self.impl._ref.items(), key=repr)), self.ref.snapshot())

    def pressure(self):
        return self.ref.k > 0 and len(self.ref) >= self.ref.k


PAIRS = {p.family: p for p in (PBytes, PNs, PLru, PMgr, PDet, PSet, PRingSet, PRing)}


def _norm_op(op):
    """ops come back from JSON with lists instead of tuples; values are only compared for equality, so lists stay."""
    return list(op)


def _mk_pair(family, cfg):
    try:
        return PAIRS[family](cfg)
    except Mismatch:
        raise
    except Exception as e:  # noqa: BLE001 - a documented constructor spelling must be accepted
        raise Mismatch(f"constructing the container raised {type(e).__name__}: {e}", "raises")


def run_sequence(case, check=True):
    i, op = -1, "<construct>"
    try:
        pair = _mk_pair(case["family"], case["cfg"])
        for i, op in enumerate(case["ops"]):
            pair.step(_norm_op(op), check=check)
    except Mismatch as e:
        raise Violation(f"[{case['family']} {case['cfg']}] after op #{i} {op!r}: {e.msg}", case,
                        f"{case['family']}:{e.sig}")
    return pair


def replay_sequence(case):
    run_sequence(case, check=True)


# =================================================================================================
# exhaustive breadth-first closure
# =================================================================================================

ADV = [0.75, 3.0]
ADV_TTL = [0.75, 2.0, 3.0]  # 2.0 == the ttl of the exhaustive configurations: puts an entry exactly on the boundary
ADV_NOTTL = [0.75, 1000.0]  # ttl == 0: the clock must have no effect, not even far beyond the default ttl (600 s)
COSTS = [0, 1, 2, 5, -1]
_KEYS = ["a", "b", "c", "d", "e", "f"]
_CLK = ["int", "float", "call"]


def _bval(k, c):
    return None if c == 0 else f"{k}{c}"  # zero-cost entries carry the value None


def small_space(nkeys, deep=False):
    """-> list of (family, cfg, ops). Every capacity `cap` is explored over at least cap+1 keys, so that a full
    container meets a new key (the TTL containers: in their ttl == 0 configuration, whose state space has no ages).
    deep: one more capacity, one more byte cap and cost."""
    out = []
    caps = (0, 1, 2, 3, 4) if deep else (0, 1, 2, 3)
    costs = COSTS + [3] if deep else COSTS

    def kk(cap, base=nkeys):
        return _KEYS[:max(base, cap + 1)]

    for me in caps:
        for mb in ((0, 3, 5, 8) if deep else (0, 3, 5)):
            keys = kk(me)
            # 4 keys: fewer costs keep the closure small (without a byte cap the cost only feeds the accounting)
            cs = costs if len(keys) <= (4 if deep else 3) else ([0, 2, 5, -1] if mb else [0, 2, -1])
            ops = [["put", k, _bval(k, c), c] for k in keys for c in cs] + [["get", k] for k in keys] + [["clear"]]
            out.append(("lrubytes", {"me": me, "mb": mb, "keys": keys}, ops))
    # one put that has to evict three entries needs four keys: a1 b1 c1 d1, then a (cost 5 == max_bytes) again
    keys = _KEYS[:4]
    ops = [["put", k, _bval(k, c), c] for k in keys for c in (0, 1, 5)] + [["get", keys[0]]]
    out.append(("lrubytes", {"me": 0, "mb": 5, "keys": keys}, ops))
    for me, mb in ((2, 0), (0, 3), (2, 3)):  # through ThreadSafeBytesCache, lock handed in
        keys = _KEYS[:3]
        ops = ([["put", k, _bval(k, c), c] for k in keys for c in (0, 2, 5)] + [["get", k] for k in keys]
               + [["contains", k] for k in keys[:2]] + [["items"]])
        out.append(("lrubytes", {"me": me, "mb": mb, "keys": keys, "wrap": "spy", "k2s": "repr"}, ops))
    i = 0
    for mx in caps:
        for ttl in (0, 2):
            i += 1
            keys = kk(mx) if ttl == 0 else _KEYS[:nkeys]
            adv = [["adv", d] for d in (ADV_TTL if ttl else ADV_NOTTL)]
            clk = _CLK[i % 3]
            vals = (None,) if (ttl and mx >= (4 if deep else 3)) else (None, 1)  # ages x values: one value where ages abound
            ops = [["set", k, v] for k in keys for v in vals] + [["get", k] for k in keys] + adv + [["invalidate"]]
            out.append(("nscache", {"max": mx, "ttl": ttl, "keys": keys, "clk": clk}, ops))
            ctors = _CTORS if mx <= 1 else [_CTORS[(mx + ttl + j) % len(_CTORS)] for j in (0, 3)][:2 if mx == 2 else 1]
            for ctor in ctors:
                ops = ([["set", k, v] for k in keys for v in vals] + [["put", keys[0], 2]] + [["get", k] for k in keys]
                       + [["get2", k] for k in keys[:2]] + [["contains", k] for k in keys] + [["items"]] + adv
                       + [["invalidate"], ["clear"]])
                out.append(("lrucache", {"max": mx, "ttl": ttl, "ctor": ctor, "keys": keys, "clk": _CLK[(i + 1) % 3]}, ops))
            mkeys = keys[:max(2, len(keys) - 1)]  # namespace n1: several keys, two values; n2: one key, one value
            ops = ([["set", "n1", k, v] for k in mkeys for v in vals] + [["set", "n2", keys[0], 0]]
                   + [["get", "n1", k] for k in mkeys] + [["get", "n2", keys[0]]] + adv
                   + [["inv_ns", "n1"], ["inv_ns", "n2"], ["inv_ns", "zz"], ["inv_all"]])
            out.append(("manager", {"max": mx, "ttl": ttl, "keys": mkeys, "clk": _CLK[(i + 2) % 3],
                                    "ctor": "positional" if mx % 2 else "kw"}, ops))
    # the clock stepping back (a new run on an old state): an entry stamped in the future is not older than its ttl.
    # Ages then have no lower bound, so this configuration is explored to a fixed depth instead of to closure.
    keys = _KEYS[:2]
    ops = ([["set", k, 1] for k in keys] + [["get", keys[0]], ["contains", keys[0]], ["items"], ["adv", 0.75], ["adv", -3.0]])
    out.append(("lrucache", {"max": 2, "ttl": 2, "ctor": "ttl_s", "keys": keys, "depth": 8 if deep else 6}, ops))
    for ttl in (0, 2):  # through ThreadSafeCache, lock handed in
        keys = _KEYS[:3]
        ops = ([["put", k, v] for k in keys for v in (None, 1)] + [["get", k] for k in keys] + [["contains", k] for k in keys[:2]]
               + [["items"]] + [["adv", d] for d in (ADV_TTL if ttl else ADV_NOTTL)])
        out.append(("lrucache", {"max": 2, "ttl": ttl, "ctor": "ttl_s", "keys": keys, "wrap": "spy"}, ops))
    for cap in caps:
        for ug in (True, False):
            for up in (True, False):
                keys = kk(cap)
                ops = ([["put", k, v] for k in keys for v in (None, 1)] + [["get", k] for k in keys]
                       + [["getd", keys[0], 9]] + [["pop"], ["clear"]])
                out.append(("detlru", {"cap": cap, "ug": ug, "up": up, "keys": keys}, ops))
    for ug, up, wrap in ((True, True, "spy"), (False, True, "spy-pos"), (True, False, "own")):  # through ThreadSafeCache
        keys = _KEYS[:3]
        ops = ([["put", k, v] for k in keys for v in (None, 1)] + [["get", k] for k in keys] + [["contains", k] for k in keys[:2]]
               + [["items"], ["pop"]])
        out.append(("detlru", {"cap": 2, "ug": ug, "up": up, "keys": keys, "wrap": wrap}, ops))
    for cap in caps:
        keys = kk(cap)
        for fam in ("fifoset", "ringlru"):
            out.append((fam, {"cap": cap, "keys": keys}, [["add", k] for k in keys] + [["clear"]]))
        keys = _KEYS[:nkeys]
        ops = ([["add", k] for k in keys] + [["discard", k] for k in keys] + [["extend", [keys[0], keys[1]]],
               ["extend", [keys[1], keys[1], keys[0]], "gen"], ["extend", [keys[2], keys[0], keys[0], keys[2]], "tuple"],
               ["extend", [], "gen"], ["clear"]])
        out.append(("ring", {"k": cap, "keys": keys}, ops))
    return out


def bfs(rec, family, cfg, ops, depth, max_states):
    """Closure over reachable states (first path to a state is kept: BFS => shortest). Every op is checked in every
    expanded state. Returns (states, transitions, closed)."""
    try:
        seen = {_mk_pair(family, cfg).state_key()}
    except Mismatch as e:
        rec.violation(f"[{family} {cfg}] {e.msg}", {"family": family, "cfg": cfg, "ops": []}, f"{family}:{e.sig}")
        return 0, 0, False
    frontier = [[]]
    transitions = 0
    for _d in range(min(depth, cfg.get("depth", depth))):
        nxt = []
        for path in frontier:
            for op in ops:
                try:
                    pair = _mk_pair(family, cfg)
                    for o in path:
                        pair.step(o, check=False)
                    tight = pair.pressure()
                    labels = pair.step(op, check=True)
                except Mismatch as e:
                    case = {"family": family, "cfg": cfg, "ops": path + [op]}
                    rec.violation(f"[{family} {cfg}] after op #{len(path)} {op!r}: {e.msg}", case, f"{family}:{e.sig}")
                    return len(seen), transitions, False
                transitions += 1
                nt = tight or bool(set(labels) & {"evict", "evict-multi", "expire", "reject-oversize"})
                rec.case(nontrivial=nt, dig=None, labels=[family] + [f"{family}.{lb}" for lb in set(labels)]
                         + ([f"{family}.tight-state"] if tight else [])
                         + ([f"{family}.disabled"] if _is_disabled(family, cfg) else []),
                         sample={"family": family, "cfg": cfg, "ops": path + [op]} if nt and len(path) >= 3 and
                         transitions % 997 == 0 else None)
                key = pair.state_key()
                if key not in seen:
                    seen.add(key)
                    nxt.append(path + [op])
                    if len(seen) >= max_states:
                        rec.budget_hit = True
                        return len(seen), transitions, False
        frontier = nxt
        if not frontier:
            return len(seen), transitions, True
    return len(seen), transitions, False


def _is_disabled(family, cfg):
    if family == "lrubytes":
        return cfg["me"] == 0 and cfg["mb"] == 0
    if family == "ring":
        return cfg["k"] == 0
    return cfg.get("max", cfg.get("cap")) == 0


def sub_exhaustive(rec, seed, shard, nshards, nkeys=3, depth=6, max_states=200000, deep=False):
    space = small_space(nkeys, deep)
    closed_all = True
    tot_states = 0
    for idx, (family, cfg, ops) in enumerate(space):
        if idx % nshards != shard:
            continue
        states, trans, closed = bfs(rec, family, cfg, ops, depth, max_states)
        tot_states += states
        closed_all = closed_all and closed
        rec.label(f"closed.{family}" if closed else f"depth-bounded.{family}")
    rec.note(f"shard{shard}", {"states": tot_states, "all_closed_before_depth": closed_all, "depth": depth, "nkeys": nkeys})


# =================================================================================================
# Hypothesis state machines
# =================================================================================================


# keys that are easily confused by a normalisation that is not the documented one: int vs its decimal string, a tuple
# vs its str()/repr() and vs the list with the same elements, the empty string / 0 (falsy), an unhashable tuple.
_T12 = {"__t__": [1, 2]}
_MIXKEYS = [0, 1, "0", "1", "", _T12, {"__t__": ["v1", 0]}, "(1, 2)", "[1,2]"]
_UNHASHABLE = [[1, 2], [2, 1], {"a": 1, "b": 2}, {"b": 2, "a": 1}, [[1], {"x": None}], {"__t__": [1, [2]]}, [1, [2]],
               {"a": {"y": 1, "x": 2}}, {"a": {"x": 2, "y": 1}}, []]


def _strategies(family):
    from hypothesis import strategies as st

    keys = st.integers(0, 7)
    hkeys = st.one_of(keys, keys, st.sampled_from(_MIXKEYS))  # hashable keys of mixed types
    vals = st.one_of(st.integers(0, 3), st.integers(0, 3), st.sampled_from([None, 0, ""]))
    # clock: multiples of 0.75 and of 0.5 (ttl 2/5/10 are met exactly by the latter), no move, steps back, far jumps
    adv = st.one_of(st.integers(0, 8).map(lambda i: ["adv", i * 0.75]), st.integers(0, 8).map(lambda i: ["adv", i * 0.5]),
                    st.sampled_from([["adv", 0.75]] * 5 + [["adv", -0.75], ["adv", -2.0], ["adv", 600.0], ["adv", 1e7]]))
    ttl = st.sampled_from([2, 0, 5, 0, 10])
    cap = st.sampled_from([2, 1, 3, 4, 0, 6, 9, 1000])
    clk = st.sampled_from(_CLK + ["direct"])
    wrap = st.sampled_from([None, None, "spy", "own", "spy-pos"])
    if family == "lrubytes":
        cfg = st.fixed_dictionaries({"me": st.sampled_from([2, 0, 1, 3, 5, 8, 1000]), "mb": st.sampled_from([10, 0, 0, 5, 20, 100000]),
                                     "wrap": wrap, "k2s": st.sampled_from([None, "repr"])})
        cost = st.one_of(st.integers(0, 12), st.integers(0, 4), st.sampled_from([-1, -3, 0, 21]))
        return cfg, st.one_of(st.tuples(st.just("put"), hkeys, st.one_of(st.integers(0, 99), st.none()), cost).map(list),
                              st.tuples(st.just("put"), hkeys, st.integers(0, 99), cost).map(list),
                              st.tuples(st.just("get"), hkeys).map(list),
                              st.tuples(st.just("get"), hkeys).map(list),
                              st.tuples(st.just("contains"), hkeys).map(list),
                              st.sampled_from([["clear"]] + [["items"]] * 3 + [["get", 0]] * 4))
    ukeys = st.one_of(keys, keys, st.sampled_from(["s", "t"] + _MIXKEYS), st.sampled_from(_UNHASHABLE))
    if family == "nscache":
        cfg = st.fixed_dictionaries({"max": cap, "ttl": ttl, "clk": clk})
        return cfg, st.one_of(st.tuples(st.just("set"), hkeys, vals).map(list), st.tuples(st.just("set"), hkeys, vals).map(list),
                              st.tuples(st.just("get"), hkeys).map(list), st.tuples(st.just("get"), hkeys).map(list), adv,
                              st.sampled_from([["invalidate"]] + [["adv", 0.75]] * 9))
    if family == "lrucache":
        cfg = st.fixed_dictionaries({"max": cap, "ttl": ttl, "ctor": st.sampled_from(_CTORS), "clk": clk, "wrap": wrap})
        return cfg, st.one_of(st.tuples(st.sampled_from(["set", "put"]), ukeys, vals).map(list),
                              st.tuples(st.sampled_from(["set", "put"]), ukeys, vals).map(list),
                              st.tuples(st.sampled_from(["get", "get2", "get", "contains"]), ukeys).map(list),
                              st.tuples(st.sampled_from(["get", "get2", "get", "contains"]), ukeys).map(list), adv,
                              st.sampled_from([["items"]] * 6 + [["invalidate"], ["clear"]]))
    if family == "manager":
        cfg = st.fixed_dictionaries({"max": cap, "ttl": ttl, "clk": clk, "ctor": st.sampled_from(["kw", "positional"])})
        ns = st.sampled_from(["t2:semantic", "t2:semantic", "t1", ""])
        mkeys = st.one_of(st.integers(0, 3), st.integers(0, 3), ukeys)
        return cfg, st.one_of(st.tuples(st.just("set"), ns, mkeys, vals).map(list), st.tuples(st.just("set"), ns, mkeys, vals).map(list),
                              st.tuples(st.just("get"), ns, mkeys).map(list), st.tuples(st.just("get"), ns, mkeys).map(list), adv,
                              # (a nested one_of would be flattened into equal-weight branches: keep invalidations rare)
                              st.sampled_from([["inv_all"], ["inv_ns", "t1"], ["inv_ns", "t2:semantic"], ["inv_ns", "never"]]
                                              + [["adv", 1.5]] * 12))
    if family == "detlru":
        cfg = st.fixed_dictionaries({"cap": cap, "ug": st.booleans(), "up": st.booleans(), "wrap": wrap})
        return cfg, st.one_of(st.tuples(st.just("put"), hkeys, vals).map(list), st.tuples(st.just("put"), hkeys, vals).map(list),
                              st.tuples(st.just("get"), hkeys).map(list), st.tuples(st.just("get"), hkeys).map(list),
                              st.tuples(st.just("getd"), hkeys, st.sampled_from([None, 7])).map(list),
                              st.tuples(st.just("contains"), hkeys).map(list),
                              st.sampled_from([["pop"]] * 4 + [["items"]] * 3 + [["clear"]]))
    skeys = st.one_of(keys, st.integers(0, 20), st.sampled_from(["", "0", "1", "é", "a b"]))
    if family in ("fifoset", "ringlru"):
        cfg = st.fixed_dictionaries({"cap": cap})
        return cfg, st.one_of(st.tuples(st.just("add"), skeys).map(list), st.tuples(st.just("add"), skeys).map(list),
                              st.tuples(st.just("add"), skeys).map(list), st.sampled_from([["clear"]] + [["add", 1]] * 9))
    if family == "ring":
        cfg = st.fixed_dictionaries({"k": cap})
        rkeys = st.one_of(keys, keys, st.sampled_from(["", "0", "1"]))
        return cfg, st.one_of(st.tuples(st.just("add"), rkeys).map(list), st.tuples(st.just("add"), rkeys).map(list),
                              st.tuples(st.just("add"), rkeys).map(list),
                              st.tuples(st.just("extend"), st.lists(rkeys, max_size=12),
                                        st.sampled_from(["list", "gen", "tuple"])).map(list),
                              st.tuples(st.just("discard"), rkeys).map(list),
                              st.sampled_from([["clear"]] + [["add", 1]] * 9))
    raise ValueError(family)


def make_machine(family, rec):
    from hypothesis.stateful import RuleBasedStateMachine, initialize, rule

    cfg_st, op_st = _strategies(family)

    class Machine(RuleBasedStateMachine):
        _vx_last = {}

        def __init__(self):
            super().__init__()
            self.pair = None
            self.cfg = None
            self.history = []
            self.labels = set()
            self.failed = False

        @initialize(cfg=cfg_st)
        def init(self, cfg):
            self.cfg = cfg
            try:
                self.pair = _mk_pair(family, cfg)
            except Mismatch as e:
                self.failed = True
                v = Violation(f"[{family} {cfg}] {e.msg}", {"family": family, "cfg": cfg, "ops": []}, f"{family}:{e.sig}")
                type(self)._vx_last["v"] = v
                raise v

        @rule(op=op_st)
        def do(self, op):
            self.history.append(op)
            try:
                self.labels.update(self.pair.step(op, check=True))
            except Mismatch as e:
                self.failed = True
                case = {"family": family, "cfg": self.cfg, "ops": list(self.history)}
                v = Violation(f"[{family} {self.cfg}] after op #{len(self.history) - 1} {op!r}: {e.msg}", case, f"{family}:{e.sig}")
                type(self)._vx_last["v"] = v
                raise v

        def teardown(self):
            if self.pair is None or self.failed:
                return
            nt = bool(self.pair.flags & {"evict", "expire"})
            n = len(self.history)
            size = "len<10" if n < 10 else ("len<50" if n < 50 else "len>=50")
            rec.case(nontrivial=nt, dig=digest([family, self.cfg, self.history]) if nt else None,
                     labels=[family, f"{family}.{size}"] + [f"{family}.{lb}" for lb in sorted(self.labels)]
                     + ([f"{family}.disabled"] if _is_disabled(family, self.cfg) else []),
                     sample={"family": family, "cfg": self.cfg, "ops": self.history[:12]} if nt and n >= 8 else None)

    Machine.__name__ = Machine.__qualname__ = f"Machine_{family}"
    return Machine


def sub_machines(rec, seed, shard, nshards, n=10, steps=200, shrink=True):
    for i, family in enumerate(sorted(PAIRS)):
        run_machine(rec, seed + i, make_machine(family, rec), max_examples=n, steps=steps, shrink=shrink,
                    name=f"machine[{family}]")


# =================================================================================================
# threads through the lock wrappers
# =================================================================================================

_TL = threading.local()
_TRACED_SUFFIXES = ("clematis/engine/cache.py", "clematis/engine/util/lru_bytes.py", "clematis/engine/util/lru_det.py")


def _make_tracer(p):
    def local(frame, event, arg):
        if event == "line":
            rng = getattr(_TL, "rng", None)
            if rng is not None and rng.random() < p:
                time.sleep(0 if rng.random() < 0.7 else 1e-5)
        return local

    def tracer(frame, event, arg):
        if event == "call" and frame.f_code.co_filename.endswith(_TRACED_SUFFIXES):
            return local
        return None

    return tracer


def gen_round(rng, small):
    kind = rng.choice(["lru", "bytes", "det", "lru", "bytes"])  # det: ThreadSafeCache over a generator-backed items()
    nthreads = rng.choice([2, 2, 3]) if small else rng.choice([2, 3, 4])
    U = rng.randint(1, 3) if small else rng.randint(2, 6)
    tight = rng.random() < (0.7 if small else 0.4)
    cfg = {"kind": kind}
    maxcost = 4
    if kind == "lru":
        cfg["max"] = (rng.randint(0, max(0, U - 1)) if tight else U + rng.randint(0, 2))
        cfg["ttl"] = rng.choice([0, 0, 5])
    elif kind == "det":
        cfg["cap"] = (rng.randint(0, max(0, U - 1)) if tight else U + rng.randint(0, 2))
        cfg["ug"], cfg["up"] = rng.choice([(True, True), (True, True), (False, True), (True, False)])
    else:
        if tight:
            cfg["me"], cfg["mb"] = rng.choice([(rng.randint(1, max(1, U - 1)), 0), (0, rng.randint(2, 6)),
                                               (rng.randint(1, U), rng.randint(2, 6))])
        else:
            cfg["me"], cfg["mb"] = rng.choice([(U + rng.randint(0, 2), 0), (0, maxcost * U + 3), (U, maxcost * U)])
    progs = []
    for t in range(nthreads):
        nops = rng.randint(1, 3) if small else rng.choice([3, 10, 30, 100, 200])
        prog = []
        seq = 0
        for _ in range(nops):
            r = rng.random()
            k = rng.randrange(U)
            if r < 0.5:
                op = ["put", k, f"{t}.{seq}"] + ([rng.randint(0, maxcost)] if kind == "bytes" else [])
                seq += 1
            elif r < 0.8:
                op = ["get", k]
            elif r < 0.9:
                op = ["contains", k]
            else:
                op = ["items"]
            prog.append(op)
        progs.append(prog)
    return {"cfg": cfg, "U": U, "tight": tight, "small": small, "progs": progs,
            "p": rng.choice([0.0, 0.02, 0.1, 0.3]), "tseed": rng.randrange(1 << 30)}


def _build_wrapped(cfg):
    from clematis.engine.cache import LRUCache, ThreadSafeBytesCache, ThreadSafeCache
    from clematis.engine.util.lru_bytes import LRUBytes
    from clematis.engine.util.lru_det import DeterministicLRU

    clock = Clock()
    if cfg["kind"] == "lru":
        inner = LRUCache(max_entries=cfg["max"], ttl_s=cfg["ttl"], time_fn=clock.time)
        return ThreadSafeCache(inner), inner, clock
    if cfg["kind"] == "det":
        inner = DeterministicLRU(cfg["cap"], update_on_get=cfg["ug"], update_on_put=cfg["up"])
        return ThreadSafeCache(inner), inner, clock
    inner = LRUBytes(cfg["me"], cfg["mb"])
    return ThreadSafeBytesCache(inner), inner, clock


def _ref_for(cfg):
    clock = Clock()
    if cfg["kind"] == "lru":
        return RefLRUCacheb(cfg["max"], cfg["ttl"], clock.ref_time, ttl_inclusive())
    if cfg["kind"] == "det":
        return RefDetLRU(cfg["cap"], cfg["ug"], cfg["up"])
    return RefLRUBytes(cfg["me"], cfg["mb"])


def _ref_apply(ref, op):
    name = op[0]
    if name == "put":
        if isinstance(ref, RefLRUBytes):
            return ref.put(op[1], op[2], op[3])
        ref.put(op[1], op[2])
        return None  # ThreadSafeCache.put -> None whatever the inner cache reports
    if name == "get":
        return ref.get(op[1])
    if name == "contains":
        return ref.contains(op[1])
    if name == "items":
        return ref.items()
    raise ValueError(op)


def execute_round(case):
    """Run the programme on real threads. Returns (results per thread [(inv, res, result)], errors, wrapped, inner)."""
    wrapped, inner, _clock = _build_wrapped(case["cfg"])
    progs = case["progs"]
    n = len(progs)
    results = [[] for _ in range(n)]
    errors = []
    barrier = threading.Barrier(n)
    stamp = itertools.count()

    def worker(t):
        _TL.rng = random.Random(case["tseed"] * 131 + t)
        prog = progs[t]
        out = results[t]
        barrier.wait()
        try:
            for op in prog:
                name = op[0]
                inv = next(stamp)
                if name == "put":
                    r = wrapped.put(*op[1:])
                elif name == "get":
                    r = wrapped.get(op[1])
                elif name == "contains":
                    r = op[1] in wrapped
                else:
                    r = list(wrapped.items())
                out.append((inv, next(stamp), r))
        except BaseException as e:  # recorded, judged by the oracle (the wrappers must not raise)
            errors.append((t, len(out), f"{type(e).__name__}: {e}"))
        finally:
            _TL.rng = None

    old = sys.getswitchinterval()
    sys.setswitchinterval(1e-6)
    if case["p"] > 0:
        threading.settrace(_make_tracer(case["p"]))
    try:
        ths = [threading.Thread(target=worker, args=(t,)) for t in range(n)]
        for th in ths:
            th.start()
        for th in ths:
            th.join()
    finally:
        threading.settrace(None)
        sys.setswitchinterval(old)
    return results, errors, wrapped, inner


def _tid_seq(v):
    t, s = v.split(".")
    return int(t), int(s)


def check_round(case, results, errors, wrapped, inner):
    """Schedule-independent oracles. Raises Violation."""
    cfg, progs = case["cfg"], case["progs"]
    kind = cfg["kind"]

    def bad(msg, sig):
        c = dict(case)
        c["observed"] = {"results": [[list(x) for x in r] for r in results], "errors": errors}
        raise Violation(f"[threads {cfg}] {msg}", c, f"threads:{sig}")

    if errors:
        bad(f"operation raised in thread {errors[0][0]} at op #{errors[0][1]}: {errors[0][2]}", "exception")

    # writes: value -> (key, cost); per thread/key ordered seqs
    def accepted(op):  # documented: a put whose cost exceeds max_bytes is rejected and leaves the cache unchanged
        return not (kind == "bytes" and cfg["mb"] > 0 and op[3] > cfg["mb"])

    writes = {}
    last_write = {}  # (t, k) -> value of the thread's last (accepted) write to k
    for t, prog in enumerate(progs):
        for op in prog:
            if op[0] == "put" and accepted(op):
                writes[op[2]] = (op[1], op[3] if kind == "bytes" else 0)
                last_write[(t, op[1])] = op[2]
    roomy = not case["tight"]

    # per-read validity
    total_gets = hits = 0
    for t, prog in enumerate(progs):
        own_latest = {}
        seen_from = {}  # (key, writer) -> max seq seen
        for op, (_inv, _res, r) in zip(prog, results[t]):
            name = op[0]
            if name == "put":
                if accepted(op):
                    own_latest[op[1]] = op[2]
                elif tuple(r) != (0, 0):
                    bad(f"rejected oversize put returned {r!r}", "put-return")
                want_type = tuple if kind == "bytes" else type(None)
                if not isinstance(r, want_type):
                    bad(f"put returned {r!r}", "put-return")
                if kind == "bytes" and roomy and tuple(r) != (0, 0):
                    bad(f"put reported evictions {r!r} although capacity covers the whole key universe", "spurious-evict")
            elif name == "get":
                total_gets += 1
                k = op[1]
                if r is None:
                    if roomy and k in own_latest:
                        bad(f"thread {t}: get({k}) missed after its own put although nothing can be evicted (lost update)",
                            "lost-update")
                    continue
                hits += 1
                if r not in writes or writes[r][0] != k:
                    bad(f"thread {t}: get({k}) returned {r!r}, never written to that key", "phantom")
                wt, ws = _tid_seq(r)
                if wt == t and own_latest.get(k) != r:
                    bad(f"thread {t}: get({k}) returned its own overwritten value {r!r} (latest own {own_latest.get(k)!r})", "stale-own")
                if ws < seen_from.get((k, wt), -1):
                    bad(f"thread {t}: reads of key {k} from writer {wt} went backwards ({seen_from[(k, wt)]} then {ws})", "non-monotonic")
                seen_from[(k, wt)] = ws
            elif name == "contains":
                if not isinstance(r, bool):
                    bad(f"contains returned {r!r}", "contains")
                if roomy and not r and op[1] in own_latest:
                    bad(f"thread {t}: key {op[1]} not contained after its own put although nothing can be evicted", "lost-update")
            else:
                ks = [k for k, _ in r]
                if len(set(ks)) != len(ks):
                    bad(f"items() snapshot has duplicate keys {ks!r}", "items-dup")
                for k, v in r:
                    if v not in writes or writes[v][0] != k:
                        bad(f"items() snapshot maps {k!r} to {v!r}, never written to that key", "phantom")

    # final state
    final = list(wrapped.items())
    fkeys = [k for k, _ in final]
    if len(set(fkeys)) != len(fkeys):
        bad(f"final items() has duplicate keys {fkeys!r}", "items-dup")
    for k, v in final:
        if v not in writes or writes[v][0] != k:
            bad(f"final state maps {k!r} to {v!r}, never written to that key", "phantom")
        if v not in [last_write.get((t, k)) for t in range(len(progs))]:
            bad(f"final value {v!r} of key {k} is not the last write of any thread to it (lost update)", "lost-update")
    written = sorted({k for (_t, k) in last_write})
    if roomy and sorted(fkeys) != written:
        bad(f"final keys {sorted(fkeys)!r} != keys written {written!r} although nothing can be evicted", "lost-update")
    if kind == "bytes":
        me, mb = cfg["me"], cfg["mb"]
        if len(inner._q) != len(inner._map) or set(inner._q) != set(inner._map):
            bad(f"recency queue {list(inner._q)!r} and map keys {sorted(inner._map)!r} disagree", "structure")
        if me > 0 and len(inner) > me:
            bad(f"{len(inner)} entries exceed max_entries={me}", "bound-entries")
        if mb > 0 and inner.size_bytes() > mb:
            bad(f"{inner.size_bytes()} bytes exceed max_bytes={mb}", "bound-bytes")
        want_bytes = sum(writes[v][1] for _, v in final)
        if inner.size_bytes() != want_bytes:
            bad(f"size_bytes()={inner.size_bytes()} but the stored values were put with costs summing to {want_bytes}", "bytes-accounting")
        if len(inner) != len(final):
            bad(f"len()={len(inner)} but items() has {len(final)} entries", "structure")
    elif kind == "det":
        cap = cfg["cap"]
        if len(inner._q) != len(inner._map) or set(inner._q) != set(inner._map):
            bad(f"recency queue {list(inner._q)!r} and map keys {sorted(inner._map)!r} disagree", "structure")
        if len(inner._map) > max(0, cap):
            bad(f"{len(inner._map)} entries exceed cap={cap}", "bound-entries")
        if len(inner) != len(final):
            bad(f"len()={len(inner)} but items() has {len(final)} entries", "structure")
    else:
        st_ = inner.stats
        if len(inner) > max(0, cfg["max"]):
            bad(f"{len(inner)} entries exceed max_entries={cfg['max']}", "bound-entries")
        if st_["hits"] + st_["misses"] != total_gets or st_["hits"] != hits:
            bad(f"stats {st_!r} but {total_gets} gets were issued of which {hits} hit (lost counter update)", "lost-counter")
        if roomy and st_["evicted"] != 0:
            bad(f"stats.evicted={st_['evicted']} although capacity covers the whole key universe", "spurious-evict")
        if st_["size"] != len(final):
            bad(f"stats.size={st_['size']} but items() has {len(final)} entries", "structure")

    if case["small"]:
        fin = (final, inner.size_bytes() if kind == "bytes" else (len(inner) if kind == "det" else dict(inner.stats)))
        if not linearizable(cfg, progs, results, fin):
            bad("no sequential order of the operations (respecting program order and real-time order) explains the "
                f"observed results and final state {fin!r}", "not-linearizable")


def linearizable(cfg, progs, results, fin):
    n = len(progs)
    kind = cfg["kind"]
    seen_dead = set()

    def norm(r):
        if isinstance(r, list):
            return [tuple(x) for x in r]
        if isinstance(r, tuple):
            return tuple(r)
        return r

    def rec_(idx, order):
        if all(idx[t] == len(progs[t]) for t in range(n)):
            ref = _ref_for(cfg)
            for (t, i) in order:
                _ref_apply(ref, progs[t][i])
            want = (ref.items(), ref.total() if kind == "bytes" else (len(ref) if kind == "det" else ref.stats()))
            return want == (norm(fin[0]), fin[1])
        for t in range(n):
            i = idx[t]
            if i >= len(progs[t]):
                continue
            inv = results[t][i][0]
            # real-time: another pending op that responded before this one was invoked must come first
            if any(u != t and idx[u] < len(progs[u]) and results[u][idx[u]][1] < inv for u in range(n)):
                continue
            ref = _ref_for(cfg)
            for (tt, ii) in order:
                _ref_apply(ref, progs[tt][ii])
            got = _ref_apply(ref, progs[t][i])
            if norm(got) != norm(results[t][i][2]):
                continue
            nidx = idx[:t] + (i + 1,) + idx[t + 1:]
            key = (nidx, repr(ref.snapshot() if kind in ("bytes", "det") else (ref.ns.snapshot(), ref.stats())))
            if key in seen_dead:
                continue
            if rec_(nidx, order + [(t, i)]):
                return True
            seen_dead.add(key)
        return False

    return rec_(tuple(0 for _ in range(n)), [])


def _round_labels(case):
    touched = {}
    for t, prog in enumerate(case["progs"]):
        for op in prog:
            if op[0] in ("put", "get", "contains"):
                touched.setdefault(op[1], set()).add(t)
    common = any(len(s) >= 2 for s in touched.values())
    labels = [f"kind={case['cfg']['kind']}", "small" if case["small"] else "long", "tight" if case["tight"] else "roomy",
              "traced" if case["p"] > 0 else "untraced", f"threads={len(case['progs'])}"]
    return common, labels


def _relabel(progs):
    """Values are '<thread>.<seq>': renumber after a structural change."""
    out = []
    for t, prog in enumerate(progs):
        seq = 0
        np_ = []
        for op in prog:
            op = list(op)
            if op[0] == "put":
                op[2] = f"{t}.{seq}"
                seq += 1
            np_.append(op)
        out.append(np_)
    return out


def _fails(case, tries):
    """Re-execute under fresh schedules; -> Violation or None."""
    for i in range(tries):
        c = dict(case)
        c["tseed"] = case["tseed"] + 7919 * i
        if c["p"] == 0 and i % 2:
            c["p"] = 0.1
        results, errors, wrapped, inner = execute_round(c)
        try:
            check_round(c, results, errors, wrapped, inner)
        except Violation as v:
            return v
    return None


def shrink_round(case, first, budget=60, tries=12):
    """Greedy structural shrinking of a failing thread programme (drop threads, halve programmes, drop single ops).
    A candidate is kept when it fails again (any oracle) within `tries` fresh schedules."""
    best, best_v = case, first
    progress = True
    while progress and budget > 0:
        progress = False
        progs = best["progs"]
        cands = []
        if len(progs) > 2:
            cands += [[p for j, p in enumerate(progs) if j != i] for i in range(len(progs))]
        for i, p in enumerate(progs):
            if len(p) > 1:
                cands.append([q if j != i else q[: len(q) // 2] for j, q in enumerate(progs)])
                cands.append([q if j != i else q[len(q) // 2:] for j, q in enumerate(progs)])
        if sum(len(p) for p in progs) <= 12:
            for i, p in enumerate(progs):
                for k in range(len(p)):
                    if len(p) > 1:
                        cands.append([q if j != i else q[:k] + q[k + 1:] for j, q in enumerate(progs)])
        for cp in cands:
            if budget <= 0:
                break
            budget -= 1
            c = dict(best)
            c.pop("observed", None)
            c["progs"] = _relabel(cp)
            c["small"] = len(cp) <= 3 and all(len(p) <= 3 for p in cp)
            v = _fails(c, tries)
            if v is not None:
                best, best_v = c, v
                progress = True
                break
    return best_v


def sub_threads(rec, seed, shard, nshards, rounds=50, small_frac=0.5):
    rng = random.Random(seed)
    for _ in range(rounds):
        case = gen_round(rng, small=rng.random() < small_frac)
        results, errors, wrapped, inner = execute_round(case)
        try:
            check_round(case, results, errors, wrapped, inner)
        except Violation as v:
            v = shrink_round(case, v)
            rec.violation(v.message, v.case, v.sig)
            return
        common, labels = _round_labels(case)
        rec.case(nontrivial=common, dig=digest(case) if common else None, labels=labels + (["common-key"] if common else []),
                 sample={"cfg": case["cfg"], "progs": [p[:4] for p in case["progs"]]} if common and case["small"] else None)


def replay_threads(case):
    # the schedule itself cannot be replayed: re-execute the programme under 60 fresh perturbed schedules
    case = dict(case)
    case.pop("observed", None)
    v = _fails(case, 60)
    if v is not None:
        raise v


# =================================================================================================
# deterministic merge
# =================================================================================================

_WKINDS = ["lrucache", "lrubytes", "detlru", "tslru", "tsbytes", "tsdet", "lrucache-ttl"]


def merge_cases():
    from hypothesis import strategies as st

    @st.composite
    def cases(draw):
        nkeys = draw(st.integers(1, 6))
        # multi-digit keys / worker ids: numeric order != order of their decimal strings
        keys = st.sampled_from(draw(st.sampled_from([[0, 1, 2, 3, 4, 5], [0, 7, 10, 23, 100, 101]]))[:nkeys])
        vals = st.sampled_from([0, 1, 2, None, 0, 1])
        nworkers = draw(st.integers(0, 4))
        # worker ids: mostly distinct; sometimes the same id twice (then only the list order can break the tie)
        wkeys = draw(st.lists(st.integers(0, 30), min_size=nworkers, max_size=nworkers, unique=draw(st.integers(0, 4)) > 0))
        workers = []
        for wk in wkeys:
            kind = draw(st.sampled_from(_WKINDS))
            ops = [st.tuples(st.just("put"), keys, vals).map(list), st.tuples(st.just("put"), keys, vals).map(list),
                   st.tuples(st.just("get"), keys).map(list)]
            if kind == "lrucache-ttl":  # ttl 2: entries written before the clock moved on are gone when merged
                ops.append(st.sampled_from([["adv", 0.75], ["adv", 3.0]]))
            script = draw(st.lists(st.one_of(*ops), max_size=8))
            w = {"wkey": wk, "kind": kind, "cap": draw(st.sampled_from([1, 2, 3, 8])), "script": script}
            if kind in ("detlru", "tsdet"):
                w["ug"], w["up"] = draw(st.booleans()), draw(st.booleans())
            workers.append(w)
        perm = draw(st.permutations(list(range(nworkers))))
        return {
            "target": {"kind": draw(st.sampled_from(["lrucache", "lrucache", "det"])),
                       "max": draw(st.sampled_from([0, 1, 2, 3, 8, 64])), "ttl": draw(st.sampled_from([0, 0, 2])),
                       "pre": draw(st.lists(st.tuples(keys, vals).map(list), max_size=3)),
                       "adv": draw(st.sampled_from([0.0, 0.75, 3.0])), "wrapped": draw(st.booleans())},
            "workers": workers, "perm": list(perm),
            "on_conflict": draw(st.sampled_from(["first_wins", "first_wins", "assert_equal"])),
            "worder": draw(st.sampled_from(["id", "neg", "half"])),
            "korder": draw(st.sampled_from(["id", "neg", "str"])),
        }

    return cases()


_WORDER = {"id": lambda w: (w,), "neg": lambda w: (-w,), "half": lambda w: (w // 2,)}
_KORDER = {"id": lambda k: (k,), "neg": lambda k: (-k,), "str": lambda k: str(k * 7 % 10) + str(k)}


class _ContainerRaised(Exception):
    pass


def _build_worker(w):
    from clematis.engine.cache import LRUCache, ThreadSafeBytesCache, ThreadSafeCache
    from clematis.engine.util.lru_bytes import LRUBytes
    from clematis.engine.util.lru_det import DeterministicLRU

    kind = w["kind"]
    clock = None
    if kind == "lrucache":
        c = LRUCache(max_entries=w["cap"], ttl_s=0)
        put = c.put
    elif kind == "lrucache-ttl":
        clock = Clock()
        c = LRUCache(max_entries=w["cap"], ttl_s=2, time_fn=clock.time)
        put = c.put
    elif kind == "tslru":
        c = ThreadSafeCache(LRUCache(max_entries=w["cap"], ttl_s=0))
        put = c.put
    elif kind in ("lrubytes", "tsbytes"):
        c = LRUBytes(w["cap"], 0)
        if kind == "tsbytes":
            c = ThreadSafeBytesCache(c)
        put = lambda k, v: c.put(k, v, 1)
    else:
        c = DeterministicLRU(w["cap"], update_on_get=w.get("ug", True), update_on_put=w.get("up", True))
        if kind == "tsdet":
            c = ThreadSafeCache(c)
        put = c.put
    for op in w["script"]:
        if op[0] == "put":
            put(op[1], op[2])
        elif op[0] == "adv":
            if clock is not None:
                clock.advance(op[1])
        else:
            c.get(op[1])
    return c


def _build_target(t):
    from clematis.engine.cache import LRUCache, ThreadSafeCache
    from clematis.engine.util.lru_det import DeterministicLRU

    clock = Clock()
    if t.get("kind", "lrucache") == "det":
        inner = DeterministicLRU(t["max"])
        ref = RefDetLRU(t["max"], True, True)
    else:
        inner = LRUCache(max_entries=t["max"], ttl_s=t["ttl"], time_fn=clock.time)
        ref = RefLRUCacheb(t["max"], t["ttl"], clock.ref_time, ttl_inclusive())
    for k, v in t["pre"]:
        inner.put(k, v)
        ref.put(k, v)
    clock.advance(t["adv"])
    return (ThreadSafeCache(inner) if t["wrapped"] else inner), inner, ref


def _t_items(case, inner, ref):
    """(implementation, reference) contents of the target, oldest->newest, without pruning or touching."""
    if case["target"].get("kind", "lrucache") == "det":
        return list(inner.items()), ref.items()
    return list(inner._ns.items()), ref.ns.items()


def _run_merge(case, order):
    from clematis.engine.cache import merge_caches_deterministic

    try:
        target, inner, ref = _build_target(case["target"])
        built = [(case["workers"][i]["wkey"], _build_worker(case["workers"][i])) for i in order]
        before = [list(c.items()) for _, c in built]
    except Exception as e:  # noqa: BLE001 - plain puts/gets on the containers: reported, the sequence checks localise it
        raise _ContainerRaised(f"{type(e).__name__}: {e}")
    raised = None
    try:
        merge_caches_deterministic(target, built, worker_order_key=_WORDER[case["worder"]],
                                   key_order_key=_KORDER[case["korder"]], on_conflict=case["on_conflict"])
    except AssertionError as e:
        raised = str(e)
    except Exception as e:  # noqa: BLE001
        raise _ContainerRaised(f"merge_caches_deterministic raised {type(e).__name__}: {e}")
    after = [list(c.items()) for _, c in built]
    return target, inner, ref, before, after, raised


def check_merge(case, rec=None):
    order = list(range(len(case["workers"])))
    mode = case["on_conflict"]

    def bad(msg, sig):
        raise Violation(f"[merge] {msg}", case, f"merge:{sig}")

    try:
        target, inner, ref, before, after, raised = _run_merge(case, order)
    except _ContainerRaised as e:
        bad(f"building / merging the caches raised: {e}", "raises")
    tkind = case["target"].get("kind", "lrucache")

    if before != after:
        bad(f"merge changed a worker cache: {before!r} -> {after!r}", "worker-mutated")
    if raised is not None and mode != "assert_equal":
        bad(f"first_wins merge raised AssertionError: {raised}", "raises")

    # reference
    ref_workers = [(case["workers"][i]["wkey"], before[i]) for i in order]
    ref_raised = False
    try:
        ref_merge(ref, ref_workers, _WORDER[case["worder"]], _KORDER[case["korder"]], mode)
    except Conflict:
        ref_raised = True
    total_keys = len({k for kvs in before for k, _ in kvs} | {k for k, _ in case["target"]["pre"]})
    roomy = case["target"]["max"] >= total_keys
    got_items, want_items = _t_items(case, inner, ref)
    if mode == "first_wins":
        if got_items != want_items:
            bad(f"target after merge {got_items!r} != reference (sorted workers, sorted keys, first wins) {want_items!r}", "result")
        if tkind == "lrucache" and inner.stats["evicted"] != ref.evicted:
            bad(f"target evicted {inner.stats['evicted']} entries, reference {ref.evicted}", "result")
    elif roomy:
        if (raised is not None) != ref_raised:
            bad(f"assert_equal: implementation {'raised' if raised is not None else 'did not raise'}, but a conflicting "
                f"later value {'exists' if ref_raised else 'does not exist'}", "assert-equal")
        if raised is None and dict(got_items) != dict(want_items):
            bad(f"target after merge {dict(got_items)!r} != reference {dict(want_items)!r}", "result")
    nstored = len(inner._map) if tkind == "det" else len(inner)
    if nstored > max(0, case["target"]["max"]):
        bad(f"target holds {nstored} > max_entries={case['target']['max']}", "bound-entries")

    # independence of the worker list order
    okeys = [_WORDER[case["worder"]](w["wkey"]) for w in case["workers"]]
    distinct = len(set(okeys)) == len(okeys)
    if distinct and case["perm"] != order:
        try:
            _t2, inner2, ref2, _b2, _a2, raised2 = _run_merge(case, case["perm"])
        except _ContainerRaised as e:
            bad(f"building / merging the caches raised: {e}", "raises")
        if (raised is None) != (raised2 is None):
            bad(f"raising depends on the order of the worker list (perm {case['perm']})", "list-order")
        got2 = _t_items(case, inner2, ref2)[0]
        if raised is None and got2 != got_items:
            bad(f"result depends on the order of the worker list: {got_items!r} vs {got2!r} "
                f"(perm {case['perm']})", "list-order")

    if rec is not None:
        kc = {}
        for i, kvs in enumerate(before):
            for k, v in kvs:
                kc.setdefault(k, set()).add(i)
        shared = any(len(s) >= 2 for s in kc.values())
        vals = {}
        for kvs in before:
            for k, v in kvs:
                vals.setdefault(k, set()).add(v)
        conflict = any(len(s) >= 2 for s in vals.values())
        wk = [w["wkey"] for w in case["workers"]]
        labels = [mode, "roomy" if roomy else "evicting-target", f"target={tkind}"] + (["shared-key"] if shared else []) + \
                 (["conflict-values"] if conflict else []) + (["raised"] if raised is not None else []) + \
                 (["permuted"] if distinct and case["perm"] != order else []) + (["order-ties"] if not distinct else []) + \
                 (["pre-populated"] if case["target"]["pre"] else []) + \
                 (["none-value"] if any(v is None for kvs in before for _, v in kvs) else []) + \
                 (["dup-worker-id"] if len(set(wk)) != len(wk) else []) + \
                 sorted({f"worker={w['kind']}" for w in case["workers"]}) + \
                 (["worker-expired-entries"] if any(w["kind"] == "lrucache-ttl" and any(o[0] == "adv" for o in w["script"])
                                                    for w in case["workers"]) else [])
        rec.case(nontrivial=shared, dig=digest(case) if shared else None, labels=labels,
                 sample={"workers": before, "target": case["target"], "mode": mode} if shared and conflict else None)


def sub_merge(rec, seed, shard, nshards, n=400, shrink=True):
    run_hypothesis(rec, seed, merge_cases(), lambda c: check_merge(c, rec), max_examples=n, shrink=shrink, name="merge")


def replay_merge(case):
    check_merge(case, None)


# =================================================================================================
# the clock injection helpers (logical_now_s -> holder -> logical_time_fn)
# =================================================================================================


def _clock_rows():
    rows = []
    for n in (0, 1, 999, 1000, 1500, 2250, -250, 315532800000, 10 ** 12 + 1):
        rows.append({"fn": "now_s", "how": "int", "v": n})
        rows.append({"fn": "now_s", "how": "call", "v": n})
    for x in (0.0, 0.5, 750.0, 1500.25, -0.0):
        rows.append({"fn": "now_s", "how": "float", "v": x})
        rows.append({"fn": "now_s", "how": "call", "v": x})
    rows.append({"fn": "now_s", "how": "absent"})
    rows.append({"fn": "now_s", "how": "none"})
    for v in (0, 0.0, 1, 2.25, -1.5, 1.7e9):
        rows.append({"fn": "time_fn", "key": None, "v": v})
        rows.append({"fn": "time_fn", "key": "logical", "v": v})
    rows.append({"fn": "time_fn", "key": None, "v": 5.0, "then": 0.0})  # the holder is re-read on every call
    rows.append({"fn": "time_fn", "key": "logical", "v": 0, "then": 7})
    rows.append({"fn": "time_fn", "key": None, "missing": True})
    return rows


def check_clock_row(row):
    """Raises Violation. Only what the docstrings state: logical_now_s == ctx.now_ms (value or callable) in seconds,
    None when the context carries none; logical_time_fn reads holder[key] as stored last (0 included) and falls back
    to the wall clock (some float - the value is not looked at) only when there is none."""
    from clematis.engine.cache import logical_now_s, logical_time_fn

    def bad(msg, sig):
        raise Violation(f"[clock] {row}: {msg}", row, f"clock:{sig}")

    try:
        if row["fn"] == "now_s":
            how = row["how"]
            if how == "absent":
                got, want = logical_now_s(types.SimpleNamespace()), None
            elif how == "none":
                got, want = logical_now_s(types.SimpleNamespace(now_ms=None)), None
            else:
                v = row["v"]
                got = logical_now_s(types.SimpleNamespace(now_ms=(lambda: v) if how == "call" else v))
                want = float(v) / 1000.0
            if got != want or (want is not None and not isinstance(got, float)):
                bad(f"logical_now_s -> {got!r}, expected {want!r}", "now_s")
            return
        holder = {"now_s": 123.0, "logical": 456.0, "other": 789.0}
        key = row["key"]
        fn = logical_time_fn(holder) if key is None else logical_time_fn(holder, key)
        slot = key or "now_s"
        if row.get("missing"):
            del holder[slot]
            got = fn()
            if not isinstance(got, float):
                bad(f"without a logical time the clock returned {got!r} (not a float)", "time_fn")
            holder[slot] = None
            got = fn()
            if not isinstance(got, float):
                bad(f"with logical time None the clock returned {got!r} (not a float)", "time_fn")
            return
        for v in [row["v"]] + ([row["then"]] if "then" in row else []):
            holder[slot] = v
            got = fn()
            if got != float(v) or not isinstance(got, float):
                bad(f"holder[{slot!r}] = {v!r} but the clock reads {got!r}", "time_fn")
    except Violation:
        raise
    except Exception as e:  # noqa: BLE001 - the helpers are total on these inputs
        bad(f"raised {type(e).__name__}: {e}", "raises")


def sub_clock(rec, seed, shard, nshards):
    for i, row in enumerate(_clock_rows()):
        if i % nshards != shard:
            continue
        try:
            check_clock_row(row)
        except Violation as v:
            rec.violation(v.message, v.case, v.sig)
            return
        zero = row.get("v", 1) == 0
        rec.case(nontrivial=True, dig=None, labels=[f"clock.{row['fn']}"] + (["clock.zero"] if zero else [])
                 + ([f"clock.{row['how']}"] if "how" in row else []) + (["clock.custom-key"] if row.get("key") else []))


def replay_clock(case):
    check_clock_row(case)


# =================================================================================================

SUBCHECKS = [
    Sub("exhaustive", sub_exhaustive, quick={"nkeys": 3, "depth": 20}, thorough={"nkeys": 4, "depth": 24, "max_states": 2000000, "deep": True},
        shards_quick=6, shards_thorough=16, exhaustive=True, replay=replay_sequence),
    Sub("machines", sub_machines, quick={"n": 7, "steps": 200}, thorough={"n": 80, "steps": 200},
        shards_quick=6, shards_thorough=16, replay=replay_sequence),
    Sub("threads", sub_threads, quick={"rounds": 250}, thorough={"rounds": 1500}, shards_quick=4, shards_thorough=16,
        replay=replay_threads),
    Sub("merge", sub_merge, quick={"n": 400}, thorough={"n": 4000}, shards_quick=2, shards_thorough=8, replay=replay_merge),
    Sub("clock", sub_clock, quick={}, thorough={}, shards_quick=1, shards_thorough=1, exhaustive=True, replay=replay_clock),
]

KNOWN_PROBES = {}
