#!/bin/sh
# tools/selftest_par.sh [N] — tools/selftest.sh for every property, N properties at a time (default 4), merged into
# mutants/RESULTS.md (or $SELFTEST_OUT).  Each property's rows go through its own temporary result file.
cd "$(dirname "$0")/.."
N="${1:-4}"
OUT="${SELFTEST_OUT:-mutants/RESULTS.md}"
D=$(mktemp -d)
{ if [ -n "$SELFTEST_PIDS" ]; then echo $SELFTEST_PIDS | tr ' ' '\n'; else ls mutants | grep '^C[0-9]' | sort; fi; } | xargs -P "$N" -I{} sh -c 'SELFTEST_OUT="'"$D"'/{}.md" VERIF_JOBS="${VERIF_JOBS:-4}" tools/selftest.sh {} > "'"$D"'/{}.log" 2>&1'
{ echo "# Sensitivity results (tools/selftest.sh, quick tier, seed ${VERIF_SEED:-1})"; echo; echo "| property | mutant | result |"; echo "|---|---|---|";
  for f in $(ls "$D"/*.md | sort); do grep '^| C' "$f"; done; } > "$OUT"
grep -c "| caught |" "$OUT"; grep -v "| caught |" "$OUT" | grep '^| C'
rm -rf "$D"
