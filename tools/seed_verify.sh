#!/bin/sh
# tools/seed_verify.sh <seed_out_dir> <PID> <name>  — confirm a seeded change (suite green, demo fails with / passes
# without), run the property's quick check against it, and file it under seeded/<PID>-<name>/ with what was run.
SRC="$(readlink -f "$1")"; PID="$2"; NAME="$3"
HERE="$(cd "$(dirname "$0")/.." && pwd)"
S=$(mktemp -d /tmp/seedv_XXXXXX)
(cd /repo && git ls-files -z | xargs -0 cp --parents -t "$S" 2>/dev/null)
cd "$S"
export CLEMATIS_LOG_DIR="$S/.vlogs" CLEMATIS_SNAPSHOT_DIR="$S/.vsnap" CI=true TZ=UTC
PYTHONPATH="$S" /venv/bin/python "$SRC/demo.py" > "$S/.demo0" 2>&1; d0=$?
if ! patch -p1 -s < "$SRC/patch.diff"; then echo "SEED $NAME: patch does not apply"; rm -rf "$S"; exit 3; fi
PYTHONPATH="$S" /venv/bin/python "$SRC/demo.py" > "$S/.demo1" 2>&1; d1=$?
suite=$(env -u CLEMATIS_LOG_DIR -u CLEMATIS_SNAPSHOT_DIR -u CI -u TZ /venv/bin/python -m pytest -q -p no:cacheprovider --timeout=900 --continue-on-collection-errors 2>&1 | tail -1)
cd "$HERE"; rm -rf "$S"
chk=$(VERIF_JOBS="${VERIF_JOBS:-8}" tools/mutant.sh "$SRC/patch.diff" "$PID" 2>&1 | tail -3)
case "$chk" in *CAUGHT*) res=caught;; *) res=MISSED;; esac
echo "SEED $PID-$NAME: demo_without=$d0 demo_with=$d1 suite=[$suite] check=$res"
D="$HERE/seeded/$PID-$NAME"; mkdir -p "$D"; cp "$SRC/patch.diff" "$SRC/demo.py" "$D/"
python3 - "$SRC/meta.json" "$D/meta.json" "$d0" "$d1" "$suite" "$res" "$PID" <<'PY'
import json,sys
src,dst,d0,d1,suite,res,pid=sys.argv[1:8]
try: m=json.load(open(src))
except Exception: m={}
m.update({"property":pid,"verified":{"demo_exit_without_patch":int(d0),"demo_exit_with_patch":int(d1),"suite_with_patch":suite,
  "commands":["scratch copy of /repo tracked files; python demo.py; patch -p1 < patch.diff; python demo.py; pytest -q (519 expected)",
              f"tools/mutant.sh patch.diff {pid}  (quick tier, VERIF_SEED=1)"],
  "quick_check_result":res}})
json.dump(m,open(dst,"w"),indent=1,ensure_ascii=False)
PY
