"""C20 — optional subsystems fail soft: a turn always completes (fault enumeration).

DECLARED fail-soft sites were derived from the code's own guards and comments (grep "must never break the turn",
"fail-soft", "best-effort", "never fail ... due to", "never crash", "must not break") and docs/m10/reflection.md §
"All errors (embedding/memory/logging) are fail-soft".  A *site* is a callable (module attribute, class attribute or
a method of a state double) that the engine invokes INSIDE one of those declared try/except guards:

  guard (file:where)                                             sites injected here
  ------------------------------------------------------------   ------------------------------------------------------
  core.run_turn boot hook "Loader must never crash the turn"      core.load_latest_snapshot, snapshot._pick_latest_snapshot_path,
                                                                  _read_header_payload, _import_store_from_snapshot,
                                                                  _sanitize_gel_for_load, _set_state_field (boot phase only)
  core.run_turn GEL merge/split/promotion "Never let optional     core.gel_merge_candidates, gel_apply_merge, gel_split_candidates,
    ... features break the turn"                                  gel_apply_split, gel_promote_clusters, gel_apply_promotion
  core.run_turn "Reflection must never break the turn" +          t3.reflect.reflect, t3.reflect._normalize, core._safe_extract_snippets,
    _run_reflection_if_enabled (reflect_error:<Type>)             core.ReflectionBundle
  core.run_turn "Reflection writes must never break the turn" +   orchestrator.reflection.write_reflection_entries, _choose_index,
    reflection.write_reflection_entries "Never raises"            _episode_id, _normalize_entry, _now_iso_from_ctx, memory_index.add (double)
  core.run_turn "Never allow reflection telemetry to break the    core.log_t3_reflection, orchestrator.logging.append_jsonl
    turn" + logging.log_t3_reflection "Fail-soft"
  core.run_turn LLM adapter construction (adapter_error)          core.build_llm_adapter, t3.policy._get_llm_adapter_from_cfg
  t2/quality.py hybrid guard                                      quality.rerank_with_gel, hybrid._edge_weight
  t2/quality.py fusion/MMR guards                                 quality_ops.fuse, quality.items_for_fusion, quality_ops.maybe_apply_mmr
  t2/quality.py "Never fail the request due to tracing issues"    quality._emit_quality_trace, quality._quality_cfg_snapshot,
                                                                  quality_trace._config_digest
  t3/trace.py emit_trace (internal guard)                         unreachable from run_turn (gate always closed); direct calls with
                                                                  raising doubles: logs.append, bundle.keys, prompt.__str__
  apply.py "never fail apply due to cache invalidation"           CacheManager.invalidate_namespace
  apply.py batch / per-delta store error fallback                 store.apply_deltas (double; all calls raise / only the batch call raises)
  snapshot.py "Sidecar failure must not break snapshot write"     snapshot._write_sidecar_meta, _deterministic_created_at,
                                                                  atomic_write_text (only for *.meta)
  core.run_turn "never allow timestamp normalization to break"    core._iso_from_ms (first call of each turn)
  core.run_turn GEL block, pass summary line                      core._append_jsonl for the merge/split/promotion line of gel.jsonl only
  core.run_turn "cannot build a safe key: bypass the turn-level   t2.core.t2_request_key
    cache for this turn"
  apply.py "a malformed result must never trigger the fallback"   store.apply_deltas batch call returning garbage instead of a report
  apply.py per-delta fallback "continue applying others"          batch call raises and the 1st / 2nd per-delta call raises as well
  t3/reflect.py _maybe_embed + docs/m10/reflection.md             reflect._EMBED_ADAPTER.encode
    "All errors (embedding/memory/logging) are fail-soft"

Dimensions added by the hardening pass (each has a label so its frequency shows in the evidence):
  carry     >=2 (half the time 3) turns on ONE state with the cross-turn consumers switched on: graph.enabled with a fast additive
            update and a low co-activation threshold, t2.hybrid.enabled with a low edge threshold and a strong graph term (turn N's
            GEL learning reorders turn N+1's hits: labels carry:hybrid_*), and an LLM fixture file that lets the adapter be built
            when it is not faulted.  A fault whose effect only shows on LATER turns (boot mark not set so the loader re-runs and
            resets state.graph, a "circuit breaker" left on the state by an error path) then differs from the idle baseline.
  arm       transient faults: the spies raise in the first / the last turn only (boot spies stay armed throughout); the per-turn
            baseline switches the subsystem off in exactly the turns in which the fault fired.
  exc_extra 20 more Exception subclasses (builtins outside the 8, non-trivial constructors, args == (), ExceptionGroup, the repo's
            own SnapshotError / SnapshotSchemaError / LLMAdapterError), 2 per site and world in `sites`, drawn in `combos`.
  GEL       two components over non-episode ids (strong triangle, two pairs + weak bridge) keep a merge/promotion and a split
            candidate alive in every turn whatever the observation of retrieved episodes does to the rest of the graph.

NOT declared (left out, reported in evidence notes only): gel_observe / gel_tick are called without a guard and the docs
only call them "optional" in the sense of "gated by graph.enabled"; core.emit_trace as a whole (run_turn calls it
unguarded, the declared guard is inside emit_trace); T1, T2 core retrieval, meta-filter, canonical log appends, the
snapshot BODY write.

Fault SHAPES beyond "the call raises": mode "lookup" (LOOKUP_OK sites = collaborator OBJECTS the state / a module legitimately
carries: state['_cache_mgr'], state['memory_index'], reflect._EMBED_ADAPTER): obtaining the method from the collaborator fails --
with AttributeError this is exactly "the object lacks the attribute" (hasattr() is False), with the other types "attribute access
raises" (property / __getattr__) -- so a guard that only wraps the CALL (bound method hoisted out of the try) is exposed.
Baseline as for "before" (the operation never happened).  Not generated: collaborator None / foreign object for _cache_mgr (None
means "absent", run_turn builds one; an object without get/set breaks the undeclared T2 cache lookup), store.apply_deltas lookup
(getattr(store, 'apply_deltas', None) sits outside every guard: only AttributeError is tolerated, by design, and selects the
documented "no-apply-fn" path), malformed t4.cache.namespaces (rejected by validate_config).
Fault modes: "before" = the spy raises instead of calling the callable (all sites); "after" = the callable does its work and
then raises, i.e. its result/report is lost (AFTER_OK sites only; baseline = the same run without fault).
Baselines are built PER TURN: a subsystem is switched off in the baseline only in the turns in which its fault really fired
(a turn in which e.g. no split candidate existed ran normally, so its baseline turn runs normally too).

Genuine defects found by this check (known-finding paths below, fixes in proposed_fixes/C20-*.diff):
  boot-gel-edge-attrs-unsanitized    snapshot._sanitize_gel_for_write copies a GEL edge's attrs verbatim; a snapshot file with
                                     attrs null/str/list or a non-numeric attrs.coact is imported at boot and the (unguarded)
                                     gel_observe/gel_tick abort the first turn when graph.enabled
  mmr-fault-drops-fusion-telemetry   quality.apply_quality: fusion and MMR share one try; an MMR failure resets q_fusion_used /
                                     q_fusion_meta but keeps the fused ranking, so t2.jsonl (metrics gate on) loses
                                     t2q.fusion_mode/alpha_semantic/lex_hits w.r.t. the MMR-off run

Sub-checks
  sites       every site x 8 exception types x generated worlds (1-3 real turns through Orchestrator.run_turn)
  combos      Hypothesis-sampled pairs/triples of sites x exception types x worlds (shrinks)
  bootfiles   enumerated classes of corrupt / foreign snapshot-dir contents x worlds + Hypothesis-generated contents
  boot_fuzz   optional atheris byte target (fuzz/c20_boot_fuzz.py, child process) for the boot file contents
"""
from __future__ import annotations

import copy
import json
import os
import random
import re
import shutil
import subprocess
import sys
import tempfile

from hypothesis import strategies as st

from harness.runner import Sub, Violation, run_hypothesis, digest
from harness import world, observe

LEVEL = "fault_enumeration"
RULE = ("sites: for each generated world (1-2 concept graphs, 5-7 episodes sharing a topic word so T2 returns >=3 hits, a GEL "
        "graph with a strong triangle + weak bridge so merge/split/promotion/hybrid have work, injected proposed deltas, "
        "1-3 turns, random profile of other optional subsystems switched on) x every declared site x 8 exception types "
        "(ValueError, KeyError, TypeError, RuntimeError, OSError, ZeroDivisionError, AttributeError, custom Exception "
        "subclass) + 2 of 20 further Exception subclasses x mode (raise instead of the call; for 8 sites also raise after the call "
        "did its work) x carry (cross-turn consumers on: GEL learning -> hybrid rerank of the next turn, buildable LLM adapter; "
        ">=2 turns) x arming (every turn / first turn only / last turn only): the callable at the "
        "site is shadowed by a spy that raises; a case is NON-TRIVIAL only when the spy "
        "was really hit (fault reached) and the world had t1.pops>0 and t2.k_returned>0; distinct = (site, exception, "
        "world digest). combos: same with 2-3 compatible sites faulted at once, non-trivial = >=2 faults reached. "
        "bootfiles: non-trivial = the loader really opened the planted entry (spy on snapshot._read_text / the entry "
        "was picked by _pick_latest_snapshot_path); distinct = (class, content digest, world digest).")
ASSUMPTIONS = [
    "oracle per case: every turn returns (no exception, str line) and emits exactly one t1/t2/t4/apply/turn record; the five "
    "canonical streams and the returned lines are byte-identical to a fault-free baseline run of the same world in which the "
    "faulted subsystem is off/idle in exactly the turns where the fault fired: hybrid fault => t2.hybrid.enabled=false; fusion fault => t2.quality.enabled=false; MMR fault => mmr.enabled=false; "
    "items_for_fusion fault => both; shadow-trace fault => quality.shadow=false; reflection compute/write fault => "
    "t3.allow_reflection=false; reflection telemetry fault => same run without fault; adapter fault => t3.backend=rulebased; "
    "GEL pass fault => that pass and the later passes of the block disabled (earlier passes stay on); cache invalidation "
    "fault => t4.cache_bust_mode=none (NOT 'same run with cache_invalidations masked': t2.jsonl's cache_size would "
    "legitimately differ); store faults: all calls raise => idle store double (returns edits 0), only batch raises => "
    "fault-free store double; sidecar / timestamp fault => same run without fault (sidecar: snapshot body bytes equal too); "
    "loader fault / garbage boot entry => empty snapshot dir",
    "when perf.enabled && perf.metrics.report_memory (metrics gate) the t2.jsonl keys t2q.mmr.lambda, t2q.mmr.selected and "
    "t2q.diversity_avg_pairwise are emitted iff t2.quality.enabled (config-gated presence), so they are masked on both sides "
    "for fuse / items_for_fusion faults only (their baseline switches quality.enabled off); MMR faults and everything else "
    "are compared unmasked; with the gate off nothing is masked",
    "health.jsonl is compared too but a difference there alone is only labelled (the property names t1/t2/t4/apply/turn); "
    "TurnResult.line (the returned result) must equal the baseline's",
    "valid foreign JSON objects / valid snapshots with wrong-typed fields: only 'returns and emits records' is demanded",
    "store double: InMemoryGraphStore.apply_deltas cannot digest ProposedDelta objects (it always raises and apply falls "
    "back), so all runs use an 'ok' apply_deltas double returning {'edits': len(deltas)}",
    "t3/trace.py:emit_trace cannot be reached through run_turn at all (the dialog bundle's cfg snapshot carries neither "
    "perf.metrics nor t3.trace, so its gate is always closed in a real turn): its internal guard is exercised by DIRECT calls "
    "with the gate open and raising doubles (state logs list whose append raises, bundle whose keys() raises, prompt whose "
    "__str__ raises); those direct cases are counted as evaluations, never as non-trivial",
    "a baseline run that itself raises is not C20's business: the case is skipped and labelled baseline_raises",
    "boot entries never use the name state_<agent>.json for a DIRECTORY: that breaks the snapshot BODY write, which is not "
    "a declared fail-soft site",
    "transient faults (arm first/last): the baseline runs the SAME state through per-turn configs, the subsystem being off only in "
    "the turns in which the fault fired; two arm values are not generated where config cannot mirror them (cache-key fault in the "
    "last turn only: the cache manager created earlier stays on the state; embedding fault in some turns only: an unarmed turn "
    "would add a 32-dim vector to a bag-of-words index)",
    "store report faults: a batch call that returns garbage leaves apply.jsonl applied/clamps open (masked), everything else must "
    "equal the run with a well-behaved store; batch + one per-delta call raising => baseline store reports one edit less in "
    "exactly the turns in which that per-delta call was reached",
    "bootfiles class garbage_picked_valid_unpicked is completion-only: whether a loader may fall back to an older valid file is "
    "not C20's business",
]

CUSTOM = type("InjectedCustomError", (Exception,), {})


class InjectedBareError(Exception):
    """Raised WITHOUT arguments (args == ()): a handler that formats e.args[0] must survive it."""

    def __str__(self):
        return "injected fault (C20) at " + str(getattr(self, "site", "?"))


EXC = {"ValueError": ValueError, "KeyError": KeyError, "TypeError": TypeError, "RuntimeError": RuntimeError,
       "OSError": OSError, "ZeroDivisionError": ZeroDivisionError, "AttributeError": AttributeError, "Custom": CUSTOM}
EXC_NAMES = list(EXC)  # enumerated in full for every site
# further Exception subclasses, sampled (2 per site and world in `sites`, drawn in `combos`): builtins outside the eight above,
# exceptions with a non-trivial constructor, an exception carrying no args, an ExceptionGroup, and the repo's OWN error
# hierarchies (a guard narrowed to "the documented error type of that subsystem" must not pass because only that type is thrown)
EXC_EXTRA = ["AssertionError", "IndexError", "LookupError", "StopIteration", "RecursionError", "MemoryError", "NotImplementedError",
             "ImportError", "OverflowError", "UnicodeDecodeError", "JSONDecodeError", "FileNotFoundError", "PermissionError",
             "TimeoutError", "EOFError", "ExceptionGroup", "Bare", "SnapshotError", "LLMAdapterError", "SnapshotSchemaError"]


def make_exc(exc_name: str, site_name: str) -> BaseException:
    msg = "injected fault (C20) at " + site_name
    if exc_name in EXC:
        return EXC[exc_name](msg)
    if exc_name == "UnicodeDecodeError":
        return UnicodeDecodeError("utf-8", b"\xff", 0, 1, msg)
    if exc_name == "JSONDecodeError":
        return json.JSONDecodeError(msg, "{", 0)
    if exc_name == "ExceptionGroup":
        return ExceptionGroup(msg, [ValueError(msg), CUSTOM(msg)])  # noqa: F821 (py>=3.11)
    if exc_name == "Bare":
        e = InjectedBareError()
        e.site = site_name
        return e
    if exc_name in ("SnapshotError", "SnapshotSchemaError"):
        return getattr(_mod(M_SNAP), exc_name)(msg)
    if exc_name == "LLMAdapterError":
        return _mod("clematis.adapters.llm").LLMAdapterError(msg)
    import builtins
    return getattr(builtins, exc_name)(msg)
FIVE = ["t1.jsonl", "t2.jsonl", "t4.jsonl", "apply.jsonl", "turn.jsonl"]

M_CORE = "clematis.engine.orchestrator.core"
M_SNAP = "clematis.engine.snapshot"
M_REFL_W = "clematis.engine.orchestrator.reflection"
M_REFLECT = "clematis.engine.stages.t3.reflect"
M_LOGGING = "clematis.engine.orchestrator.logging"
M_POLICY = "clematis.engine.stages.t3.policy"
M_QUAL = "clematis.engine.stages.t2.quality"
M_QOPS = "clematis.engine.stages.t2.quality_ops"
M_QTRACE = "clematis.engine.stages.t2.quality_trace"
M_HYB = "clematis.engine.stages.hybrid"
M_CACHE = "clematis.engine.cache"

GEL_ON = {"graph": {"enabled": True, "merge": {"enabled": True, "min_size": 3, "min_avg_w": 0.2, "max_diameter": 2},
                    "split": {"enabled": True, "weak_edge_thresh": 0.05, "min_component_size": 2},
                    "promotion": {"enabled": True}}}
REFL_ON = {"t3": {"allow_reflection": True}}
REFL_OFF = {"t3": {"allow_reflection": False}}
Q_ON = {"t2": {"quality": {"enabled": True}}}
QM_ON = {"t2": {"quality": {"enabled": True, "mmr": {"enabled": True}}}}
SNAP_EVERY_TURN = {"t4": {"snapshot_every_n_turns": 1}}
SHADOW_ON = {"perf": {"enabled": True, "metrics": {"report_memory": True}}, "t2": {"quality": {"enabled": False, "shadow": True}}}


def _gel_off(first):
    order = ["merge", "split", "promotion"]
    return {"graph": {p: {"enabled": False} for p in order[order.index(first):]}}


# name -> dict(group, patch=(kind, ...), on=cfg overrides forcing the subsystem on, off=baseline overrides,
#              when=None|"boot"|"meta"|"first", needs=flags the world/run must provide, tags)
SITES = {}


def _site(name, group, patch, on=None, off=None, when=None, needs=(), tags=(), base=None):
    SITES[name] = {"name": name, "group": group, "patch": patch, "on": on or {}, "off": off or {}, "when": when,
                   "needs": tuple(needs), "tags": tuple(tags), "base": base}


# --- boot loader (state not boot-loaded; baseline = empty snapshot dir)
_site("boot.load_latest_snapshot", "boot", ("mod", M_CORE, "load_latest_snapshot"), needs=("boot",), base="empty_dir")
for _a in ("_pick_latest_snapshot_path", "_read_header_payload", "_set_state_field"):
    _site("boot." + _a, "boot", ("mod", M_SNAP, _a), when="boot", needs=("boot", "boot_early"), base="empty_dir")
for _a in ("_import_store_from_snapshot", "_sanitize_gel_for_load"):
    _site("boot." + _a, "boot", ("mod", M_SNAP, _a), when="boot", needs=("boot", "boot_late"), base="empty_dir")
# --- GEL maintenance passes
_site("gel.merge_candidates", "gel", ("mod", M_CORE, "gel_merge_candidates"), on=GEL_ON, off=_gel_off("merge"), needs=("gel",))
_site("gel.apply_merge", "gel", ("mod", M_CORE, "gel_apply_merge"), on=GEL_ON, off=_gel_off("merge"), needs=("gel",))
_site("gel.split_candidates", "gel", ("mod", M_CORE, "gel_split_candidates"), on=GEL_ON, off=_gel_off("split"), needs=("gel",))
_site("gel.apply_split", "gel", ("mod", M_CORE, "gel_apply_split"), on=GEL_ON, off=_gel_off("split"), needs=("gel",))
_site("gel.promote_clusters", "gel", ("mod", M_CORE, "gel_promote_clusters"), on=GEL_ON, off=_gel_off("promotion"), needs=("gel",))
_site("gel.apply_promotion", "gel", ("mod", M_CORE, "gel_apply_promotion"), on=GEL_ON, off=_gel_off("promotion"), needs=("gel",))
# the pass summary line of gel.jsonl is written INSIDE the guarded block (the observe / decay lines are not): a failing append there
# is a failure of the maintenance block; all passes have run, so the baseline is the same run without fault
_site("gel.summary_log_append", "gellog", ("mod", M_CORE, "_append_jsonl"), on=GEL_ON, when="gelmsp", needs=("gel",))
# --- reflection compute
_site("reflect.reflect", "reflect", ("mod", M_REFLECT, "reflect"), on=REFL_ON, off=REFL_OFF, needs=("reflection",))
_site("reflect._normalize", "reflect", ("mod", M_REFLECT, "_normalize"), on=REFL_ON, off=REFL_OFF, needs=("reflection",))
_site("reflect._safe_extract_snippets", "reflect", ("mod", M_CORE, "_safe_extract_snippets"), on=REFL_ON, off=REFL_OFF, needs=("reflection",))
_site("reflect.ReflectionBundle", "reflect", ("mod", M_CORE, "ReflectionBundle"), on=REFL_ON, off=REFL_OFF, needs=("reflection",))
# docs/m10/reflection.md: "All errors (embedding/memory/logging) are fail-soft": the summary embedding; baseline = embed off
_site("reflect.embed_encode", "reflembed", ("objattr", M_REFLECT, "_EMBED_ADAPTER", "encode"),
      on=world.deep_merge(REFL_ON, {"t3": {"reflection": {"embed": True}}}), off={"t3": {"reflection": {"embed": False}}},
      needs=("reflection",))
# --- reflection write
for _a in ("write_reflection_entries", "_choose_index", "_episode_id", "_normalize_entry", "_now_iso_from_ctx"):
    _site("reflwrite." + _a, "reflwrite", ("mod", M_REFL_W, _a), on=REFL_ON, off=REFL_OFF, needs=("reflection",))
_site("reflwrite.index_add", "reflwrite", ("state", "memory_index_add"), on=REFL_ON, off=REFL_OFF, needs=("reflection",))
# --- reflection telemetry (baseline: same run, no fault; entries are written in both)
_site("refllog.log_t3_reflection", "refllog", ("mod", M_CORE, "log_t3_reflection"), on=REFL_ON, needs=("reflection",))
_site("refllog.append_jsonl", "refllog", ("mod", M_LOGGING, "append_jsonl"), on=REFL_ON, needs=("reflection",))
# --- LLM adapter construction
_site("adapter.build_llm_adapter", "adapter", ("mod", M_CORE, "build_llm_adapter"), on={"t3": {"backend": "llm"}},
      off={"t3": {"backend": "rulebased"}})
_site("adapter._get_llm_adapter_from_cfg", "adapter", ("mod", M_POLICY, "_get_llm_adapter_from_cfg"), on={"t3": {"backend": "llm"}},
      off={"t3": {"backend": "rulebased"}})
# --- T2 quality layers
_site("hybrid.rerank_with_gel", "hybrid", ("mod", M_QUAL, "rerank_with_gel"), on={"t2": {"hybrid": {"enabled": True}}},
      off={"t2": {"hybrid": {"enabled": False}}}, needs=("gel",))
_site("hybrid._edge_weight", "hybrid", ("mod", M_HYB, "_edge_weight"), on={"t2": {"hybrid": {"enabled": True}}},
      off={"t2": {"hybrid": {"enabled": False}}}, needs=("gel",))
_site("quality.fuse", "quality", ("mod", M_QOPS, "fuse"), on=Q_ON, off={"t2": {"quality": {"enabled": False}}}, tags=("q_on", "t2q"))
_site("quality.items_for_fusion", "quality", ("mod", M_QUAL, "items_for_fusion"), on=QM_ON,
      off={"t2": {"quality": {"enabled": False, "mmr": {"enabled": False}}}}, tags=("q_on", "t2q"))
_site("quality.maybe_apply_mmr", "quality", ("mod", M_QOPS, "maybe_apply_mmr"), on=QM_ON,
      off={"t2": {"quality": {"mmr": {"enabled": False}}}}, tags=("q_on",))
_site("shadow._emit_quality_trace", "shadow", ("mod", M_QUAL, "_emit_quality_trace"), on=SHADOW_ON,
      off={"t2": {"quality": {"shadow": False}}}, tags=("q_off",))
_site("shadow._quality_cfg_snapshot", "shadow", ("mod", M_QUAL, "_quality_cfg_snapshot"), on=SHADOW_ON,
      off={"t2": {"quality": {"shadow": False}}}, tags=("q_off",))
_site("shadow._config_digest", "shadow", ("mod", M_QTRACE, "_config_digest"), on=SHADOW_ON,
      off={"t2": {"quality": {"shadow": False}}}, tags=("q_off",))
# --- cache invalidation
_site("cache.invalidate_namespace", "cache", ("cls", M_CACHE, "CacheManager", "invalidate_namespace"),
      on={"t4": {"cache_bust_mode": "on-apply"}}, off={"t4": {"cache_bust_mode": "none"}})
# --- store apply errors
_site("store.all_calls", "store", ("state", "store_all"), needs=("deltas",), base="store_idle", tags=("store",))
_site("store.batch_call", "store", ("state", "store_batch"), needs=("deltas",), tags=("store",))
# the batch call raises AND one call of the per-delta fallback raises too ("continue applying others"): the baseline is a store that
# is idle for exactly that delta (reports one edit less), in exactly the turns in which that per-delta call was reached
_site("store.batch_and_one_delta", "store", ("state", "store_kth"), needs=("deltas",), tags=("store",))
# a store whose batch call "succeeds" but reports garbage (apply.py: "a malformed result must never trigger the per-delta
# fallback"): only the counts taken from that report (apply.jsonl applied / clamps) are left open, everything else must equal
# the run with a well-behaved store
_site("store.malformed_result", "store", ("state", "store_malformed"), needs=("deltas",), tags=("store", "mask_applied"))
# --- turn-level T2 result cache: "cannot build a safe key: bypass the turn-level cache for this turn"
_site("cachekey.t2_request_key", "cachekey", ("mod", "clematis.engine.stages.t2.core", "t2_request_key"),
      on={"t4": {"cache": {"enabled": True}}}, off={"t4": {"cache": {"enabled": False}}})
# --- snapshot sidecar
_site("sidecar._write_sidecar_meta", "sidecar", ("mod", M_SNAP, "_write_sidecar_meta"), on=SNAP_EVERY_TURN, needs=("snapshot",))
_site("sidecar._deterministic_created_at", "sidecar", ("mod", M_SNAP, "_deterministic_created_at"), on=SNAP_EVERY_TURN, needs=("snapshot",))
_site("sidecar.atomic_write_text", "sidecar", ("mod", M_SNAP, "atomic_write_text"), on=SNAP_EVERY_TURN, when="meta", needs=("snapshot",))
# --- timestamp normalisation
_site("ts._iso_from_ms", "ts", ("mod", M_CORE, "_iso_from_ms"), when="first")

SITE_NAMES = list(SITES)
# transient-fault arming a site's off/idle baseline cannot mirror: a cache manager created in an earlier fault-free turn stays on
# the state, so "t4.cache.enabled=false in the last turn only" is not a run without the turn-level cache
# ... and an unarmed turn of the embedding site would add a 32-dim vector to a bag-of-words (12-dim) index
ARMS_EXCLUDED = {"cachekey.t2_request_key": ("last",), "reflect.embed_encode": ("first", "last")}


def arm_for(names, arm):
    return "all" if any(arm in ARMS_EXCLUDED.get(n, ()) for n in names) else arm
# sites also faulted in mode "after" (the callable completes its work, then raises): the baseline is the same run without fault
# sites whose callable is a METHOD OF A COLLABORATOR OBJECT: also faulted in mode "lookup" (see module docstring)
LOOKUP_OK = ["cache.invalidate_namespace", "reflwrite.index_add", "reflect.embed_encode"]
AFTER_OK = ["boot.load_latest_snapshot", "reflwrite.write_reflection_entries", "reflwrite.index_add", "refllog.log_t3_reflection",
            "refllog.append_jsonl", "cache.invalidate_namespace", "sidecar._write_sidecar_meta", "sidecar.atomic_write_text"]
# which snapshot-dir contents let a boot site be reached
BOOT_KINDS = {"boot._read_header_payload": ["garbage", "own"], "boot._import_store_from_snapshot": ["own"],
              "boot._sanitize_gel_for_load": ["own"]}


def _fast_tmp():
    """Sandboxes on tmpfs when available (every turn fsyncs its snapshot and log appends): only speed, no semantics."""
    if not os.environ.get("VERIF_TMP") and os.path.isdir("/dev/shm") and os.access("/dev/shm", os.W_OK):
        os.environ["VERIF_TMP"] = "/dev/shm"


# =====================================================================================================
# worlds
# =====================================================================================================

TOPICS = ["apple", "pear", "kiwi", "fig", "plum"]


# "carry" = what one turn leaves on the shared state is consumed by the next turn's canonical records: GEL learning
# (graph.enabled, fast additive update, low co-activation threshold) feeding the hybrid rerank of t2.jsonl (low edge threshold,
# strong graph term so hits really reorder), and an LLM adapter that CAN be built when t3.backend=llm (fixture file in the
# sandbox; "<FX>" is replaced by its path) so a turn after a failed construction is distinguishable from a rule-based one.
FX_PLACEHOLDER = "<FX>"


def carry_cfg(tune: dict) -> dict:
    return {"graph": {"enabled": True, "coactivation_threshold": tune.get("coact", 0.0), "update": {"alpha": tune.get("alpha", 0.3)}},
            "t2": {"hybrid": {"enabled": True, "edge_threshold": tune.get("edge_threshold", 0.05),
                              "lambda_graph": tune.get("lambda_graph", 1.0), "max_bonus": tune.get("max_bonus", 1.0),
                              "walk_hops": tune.get("walk_hops", 1)}},
            "t3": {"llm": {"fixtures": {"enabled": True, "path": FX_PLACEHOLDER}}}}


def gen_tune(rng: random.Random) -> dict:
    return {"alpha": rng.choice([0.2, 0.3, 0.5]), "coact": rng.choice([0.0, 0.0, 0.05]), "edge_threshold": rng.choice([0.05, 0.1]),
            "lambda_graph": rng.choice([0.5, 1.0]), "max_bonus": rng.choice([0.5, 1.0]), "walk_hops": rng.choice([1, 1, 2])}


def gen_world(rng: random.Random, boot: bool = False, carry=None) -> dict:
    """A small world in which every optional subsystem has work to do. Plain JSON.
    carry: True = force a multi-turn history with the cross-turn consumers on; None = by chance; False = never."""
    topic, other, third = rng.sample(TOPICS, 3)
    enc = rng.choice(["bow", "bow", "native"])
    n_eps = rng.randint(5, 7)
    pool = [w for w in world.VOCAB[:10]]
    eps = []
    for i in range(1, n_eps + 1):
        words = [topic] + rng.sample(pool, rng.randint(0, 2))
        if i % 2 == 0:
            words.append(other)
        rng.shuffle(words)
        ep = {"id": f"e{i}", "owner": rng.choice(["A", "A", "world", "B"]), "text": " ".join(words),
              "ts": world.iso_minus(world.NOW_ISO, rng.choice([0, 3600, 86400, 6 * 86400, 29 * 86400]))}
        if rng.random() < 0.4:
            ep["aux"] = {"importance": rng.choice([0.0, 0.5, 1.0])}
            if rng.random() < 0.5:
                ep["aux"]["cluster_id"] = rng.choice(["c1", "c2"])
        eps.append(ep)
    # concept graphs: labels from the topic words so T1 seeds and T2 residuals fire
    graphs = {}
    for gi in range(rng.randint(1, 2)):
        labels = [topic, other, third, rng.choice(pool)][: rng.randint(2, 4)]
        nodes = [{"id": "abcd"[j], "label": lb, "tags": []} for j, lb in enumerate(labels)]
        edges = [{"id": f"x{j}", "src": nodes[j]["id"], "dst": nodes[(j + 1) % len(nodes)]["id"],
                  "w": rng.choice([0.9, 0.5, -0.5, 0.25]), "rel": rng.choice(["supports", "associates", "contradicts"])}
                 for j in range(rng.randint(1, len(nodes)))]
        graphs[f"g{gi + 1}"] = {"nodes": nodes, "edges": edges}
    # GEL graph over episode ids: strong triangle (merge candidate, hybrid evidence), weak bridge to a strong pair (split)
    ids = [e["id"] for e in eps]
    tri = ids[:3]
    pair = ids[3:5]
    ge = {}

    def edge(a, b, w):
        s, d = (a, b) if a <= b else (b, a)
        ge[f"{s}→{d}"] = {"id": f"{s}→{d}", "src": s, "dst": d, "weight": w, "rel": "coact", "attrs": {}}

    edge(tri[0], tri[1], rng.choice([0.5, 0.9, 0.3]))
    edge(tri[1], tri[2], rng.choice([0.6, 0.4]))
    edge(tri[0], tri[2], rng.choice([0.4, 0.8, -0.5]))
    edge(tri[2], pair[0], rng.choice([0.01, 0.02, 0.04]))
    edge(pair[0], pair[1], rng.choice([0.3, 0.7]))
    # two components over ids that are NOT episodes (never retrieved, so GEL observation never touches them): a strong triangle
    # (a merge / promotion candidate in every turn) and two strong pairs joined by a weak bridge (a split candidate in every turn),
    # whatever the learning rate does to the episode part of the graph
    edge("m1", "m2", rng.choice([0.6, 0.9]))
    edge("m2", "m3", rng.choice([0.5, 0.7]))
    edge("m1", "m3", rng.choice([0.4, 0.8]))
    edge("s1", "s2", rng.choice([0.6, 0.8]))
    edge("s2", "s3", rng.choice([0.01, 0.03]))
    edge("s3", "s4", rng.choice([0.5, 0.7]))
    gel = {"nodes": {i: {"id": i} for i in ids + ["m1", "m2", "m3", "s1", "s2", "s3", "s4"]}, "edges": ge, "meta": {}}
    n_turns = rng.choice([1, 2, 2, 3])
    turns = []
    for t in range(n_turns):
        text = rng.choice([topic, f"{topic} {other}", f"{other} {topic}", f"{topic} {third} zzz"])
        nd = rng.randint(1, 3)
        deltas = [{"k": rng.choice(["node", "edge"]), "id": tid, "v": rng.choice([0.1, -0.2, 0.3])}
                  for tid in rng.sample(["n:a", "n:b", "e:a|r|b", "n:c"], nd)]
        turns.append({"agent": rng.choice(["A", "A", "B"]) if t else "A", "text": text, "deltas": deltas,
                      "tid": rng.choice(["int", "int", "str"])})
    profile = {k: rng.random() < 0.4 for k in ("graph", "passes", "hybrid", "quality", "mmr", "reflection", "bust", "gate", "llm")}
    w = {"enc": enc, "eps": eps, "graphs": graphs, "gel": gel, "version": rng.choice(["0", "0", None, "41"]),
         "turns": turns, "profile": profile, "every": rng.choice([1, 1, 2])}
    if boot:
        w["version"] = None
        w["boot"] = rng.choice(["none", "garbage", "own"])
    # drawn last so that the rest of the world does not depend on the new dimension
    tune = gen_tune(rng)
    extra = {"agent": rng.choice(["A", "A", "B"]), "text": rng.choice([topic, f"{topic} {other}", f"{third} {topic}"]),
             "deltas": [{"k": "node", "id": "n:a", "v": 0.1}], "tid": "int"}
    by_chance = rng.random() < 0.35
    if carry or (carry is None and by_chance):
        w["carry"] = tune
        if len(w["turns"]) < 2:
            w["turns"].append(extra)
    return w


def profile_cfg(w: dict) -> dict:
    p = w.get("profile") or {}
    o = {"t1": {"cache": {"enabled": False}}, "t2": {"cache": {"enabled": False}, "sim_threshold": 0.0 if w["enc"] == "bow" else -1.0},
         "t4": {"snapshot_every_n_turns": int(w.get("every", 1))},
         "t3": {"reflection": {"embed": w["enc"] != "bow"}}}
    if p.get("graph"):
        o = world.deep_merge(o, {"graph": {"enabled": True}})
        if p.get("passes"):
            o = world.deep_merge(o, GEL_ON)
    if p.get("hybrid"):
        o = world.deep_merge(o, {"t2": {"hybrid": {"enabled": True}}})
    if p.get("quality"):
        o = world.deep_merge(o, QM_ON if p.get("mmr") else Q_ON)
    if p.get("reflection"):
        o = world.deep_merge(o, REFL_ON)
    if p.get("bust"):
        o = world.deep_merge(o, {"t4": {"cache_bust_mode": "on-apply"}})
    if p.get("gate"):
        o = world.deep_merge(o, {"perf": {"enabled": True, "metrics": {"report_memory": True}}})
    if p.get("llm"):
        o = world.deep_merge(o, {"t3": {"backend": "llm"}})
    if w.get("carry"):
        o = world.deep_merge(o, carry_cfg(w["carry"]))
    return o


def _subst_fx(o, path):
    """config overrides with the fixture placeholder replaced by the sandbox path."""
    if isinstance(o, dict):
        return {k: _subst_fx(v, path) for k, v in o.items()}
    return path if o == FX_PLACEHOLDER else o


_VEC_CACHE = {}


def _vec(enc, text):
    k = (enc, text)
    if k not in _VEC_CACHE:
        if enc == "bow":
            _VEC_CACHE[k] = world.BowEncoder().vec(text)
        else:
            from clematis.adapters.embeddings import BGEAdapter
            _VEC_CACHE[k] = [float(x) for x in BGEAdapter(dim=32).encode([text])[0]]
    return _VEC_CACHE[k]


def engine_spec(w: dict) -> dict:
    eps = []
    for e in w["eps"]:
        d = dict(e)
        d["vec_full"] = list(_vec(w["enc"], e["text"]))
        eps.append(d)
    agents = {a: list(w["graphs"].keys()) for a in ("A", "B")}
    return {"graphs": w["graphs"], "eps": eps, "gel": w.get("gel"), "version": w.get("version"), "agents": agents}


# =====================================================================================================
# fault installation
# =====================================================================================================

class _Env:
    def __init__(self):
        self.in_boot = False
        self.hits = {}       # site -> times the spy was entered while armed
        self.raised = {}     # site -> times it raised
        self.boot_reads = []  # paths handed to snapshot._read_text during the boot phase
        self.restore = []
        self.turn = 0
        self.raised_by_turn = {}  # turn index (0-based) -> set of site names that raised during that turn
        self.store_mode = "ok"
        self.armed_turns = None   # None = every turn; else a set of 0-based turn indices in which the spies raise
        self.hits_turn = {}       # (site, turn) -> armed entries during that turn (for when="first")
        self.loader_calls = 0
        self.kth_fired = set()    # turns in which the per-delta call of store.batch_and_one_delta really raised

    def armed(self, site=None) -> bool:
        """Transient faults: outside the armed turns a spy simply calls through. The boot hook runs once per state (turn 1
        on an intact tree), so boot sites stay armed throughout -- a loader that is wrongly re-run later still meets the fault."""
        if self.armed_turns is None or (site is not None and site["group"] == "boot"):
            return True
        return self.turn in self.armed_turns

    def mark(self, name):
        self.raised[name] = self.raised.get(name, 0) + 1
        self.raised_by_turn.setdefault(self.turn, set()).add(name)


def _mk_raiser(env: _Env, site: dict, exc_name: str, orig, mode="before"):
    name = site["name"]
    when = site["when"]

    def spy(*a, **k):
        armed = env.armed(site)
        if when == "boot":
            armed = armed and env.in_boot
        elif when == "meta":
            armed = armed and bool(a) and str(a[0]).endswith(".meta")
        elif when == "gelmsp":
            armed = armed and len(a) >= 2 and str(a[0]) == "gel.jsonl" and isinstance(a[1], dict) and "merge_attempts" in a[1]
        elif when == "first":  # the first call of each (armed) turn
            armed = armed and env.hits_turn.get((name, env.turn), 0) == 0
        if not armed:
            return orig(*a, **k)
        env.hits[name] = env.hits.get(name, 0) + 1
        env.hits_turn[(name, env.turn)] = env.hits_turn.get((name, env.turn), 0) + 1
        if mode == "after":  # the callable does its work, then fails (e.g. the report / return value is lost)
            orig(*a, **k)
        env.mark(name)
        raise make_exc(exc_name, name)

    return spy


class _LookupDescriptor:
    """Class-level stand-in for a method: reading it from an INSTANCE raises while armed (AttributeError == attribute missing)."""

    def __init__(self, env, site, exc_name, orig):
        self._env, self._site, self._exc, self._orig = env, site, exc_name, orig

    def __get__(self, inst, owner=None):
        if inst is None:
            return self._orig
        if not self._env.armed(self._site):
            return self._orig.__get__(inst, owner)
        n = self._site["name"]
        self._env.hits[n] = self._env.hits.get(n, 0) + 1
        self._env.mark(n)
        raise make_exc(self._exc, n)


class _LookupProxy:
    """Stand-in for a collaborator object: everything is served by the real object, only reading `attr` raises while armed."""
    kind = "inmemory"

    def __init__(self, env, site, exc_name, real, attr):
        self.__dict__.update(_env=env, _site=site, _exc=exc_name, _real=real, _attr=attr)

    def __getattr__(self, name):
        d = self.__dict__
        if name == d["_attr"] and d["_env"].armed(d["_site"]):
            n = d["_site"]["name"]
            d["_env"].hits[n] = d["_env"].hits.get(n, 0) + 1
            d["_env"].mark(n)
            raise make_exc(d["_exc"], n)
        return getattr(d["_real"], name)


def _mod(modname):
    import importlib

    importlib.import_module(modname)
    return sys.modules[modname]


def _patch_attr(env: _Env, obj, attr, value):
    had = attr in vars(obj)
    old = vars(obj).get(attr)

    def undo():
        if had:
            setattr(obj, attr, old)
        else:
            try:
                delattr(obj, attr)
            except AttributeError:
                pass

    setattr(obj, attr, value)
    env.restore.append(undo)


class _RaisingIndex:
    """state['memory_index'] double (the reflection writer's key): add raises; T2 keeps using state['mem_index'].
    mode 'after': the episode is added to the real index first."""
    kind = "inmemory"

    def __init__(self, env, site, exc_name, real, after=False):
        self._env, self._site, self._exc, self._real, self._after = env, site, exc_name, real, after

    def add(self, *a, **k):
        n = self._site["name"]
        if not self._env.armed(self._site):
            return self._real.add(*a, **k)
        self._env.hits[n] = self._env.hits.get(n, 0) + 1
        if self._after:
            self._real.add(*a, **k)
        self._env.mark(n)
        raise make_exc(self._exc, n)


class _NoGet:
    def get(self, *a, **k):
        raise RuntimeError("injected fault (C20) at store report .get")


def _malformed_report(i: int):
    """What a broken store might hand back instead of {'edits': n, 'clamps': m} (none of them is a usable count)."""
    pool = [None, "ok", [], {"edits": "many", "clamps": None}, {"edits": None, "clamped": {}}, {"edits": [1], "clamps": "x"},
            _NoGet(), {"edits": float("nan"), "clamps": float("inf")}, 7, {"result": {"edits": 3}}]
    return pool[i % len(pool)]


def _store_double(env, site=None, exc_name=None):
    """apply_deltas double. env.store_mode: ok | idle | all | batch (set per turn by the turn loop). The batch call is
    recognised as the first call of a turn (env.store_calls is reset by the turn loop)."""
    env.store_calls = 0

    def apply_deltas(gid, deltas):
        deltas = list(deltas)
        env.store_calls += 1
        first = env.store_calls == 1
        mode = env.store_mode
        kth = 0
        if mode == "kth":  # which per-delta call fails: the 1st or the 2nd (call 1 is the batch)
            kth = 2 + (EXC_NAMES.index(exc_name) % 2 if exc_name in EXC_NAMES else len(exc_name) % 2)
        if mode == "all" or (mode in ("batch", "kth") and first) or (kth and env.store_calls == kth):
            n = site["name"]
            env.hits[n] = env.hits.get(n, 0) + 1
            env.mark(n)
            if kth and not first:
                env.kth_fired.add(env.turn)
            raise make_exc(exc_name, n)
        if mode == "minus1":  # baseline of "kth": idle for one delta
            return {"edits": max(0, len(deltas) - 1), "clamps": 0}
        if mode == "malformed" and first:
            n = site["name"]
            env.hits[n] = env.hits.get(n, 0) + 1
            env.mark(n)
            return _malformed_report(EXC_NAMES.index(exc_name) if exc_name in EXC_NAMES else len(exc_name))
        if mode == "idle":
            return {"edits": 0, "clamps": 0}
        return {"edits": len(deltas), "clamps": 0}

    return apply_deltas


def install_faults(env: _Env, eng, faults):
    """faults: list of (site dict, exception name, mode)."""
    store_mode = None
    for site, exc_name, mode in faults:
        p = site["patch"]
        if mode == "lookup":
            if p[0] == "cls":
                cls = getattr(_mod(p[1]), p[2])
                _patch_attr(env, cls, p[3], _LookupDescriptor(env, site, exc_name, vars(cls)[p[3]]))
            elif p[0] == "objattr":
                m = _mod(p[1])
                _patch_attr(env, m, p[2], _LookupProxy(env, site, exc_name, getattr(m, p[2]), p[3]))
            elif p[1] == "memory_index_add":
                eng.state["memory_index"] = _LookupProxy(env, site, exc_name, eng.state["mem_index"], "add")
            else:
                raise RuntimeError(f"no lookup shape for {p!r}")
        elif p[0] == "mod":
            m = _mod(p[1])
            orig = getattr(m, p[2])
            _patch_attr(env, m, p[2], _mk_raiser(env, site, exc_name, orig, mode))
        elif p[0] == "objattr":
            obj = getattr(_mod(p[1]), p[2])
            orig = getattr(obj, p[3])
            _patch_attr(env, obj, p[3], _mk_raiser(env, site, exc_name, orig, mode))
        elif p[0] == "cls":
            cls = getattr(_mod(p[1]), p[2])
            orig = getattr(cls, p[3])
            _patch_attr(env, cls, p[3], _mk_raiser(env, site, exc_name, orig, mode))
        elif p[1] == "memory_index_add":
            eng.state["memory_index"] = _RaisingIndex(env, site, exc_name, eng.state["mem_index"], after=(mode == "after"))
        elif p[1] in ("store_all", "store_batch", "store_malformed", "store_kth"):
            store_mode = (p[1].split("_")[1], site, exc_name)
        else:
            raise RuntimeError(f"unknown patch {p!r}")
    return store_mode


# =====================================================================================================
# running a world
# =====================================================================================================

def _pd(d, i):
    from clematis.engine.types import ProposedDelta
    return ProposedDelta(target_kind=d["k"], target_id=d["id"], attr="weight", delta=d["v"], op_idx=None, idx=i)


_OWN_SNAPSHOT = {}


def own_snapshot_bytes() -> bytes:
    """A snapshot body really written by the engine (one turn of a fixed world), cached per process."""
    if "b" not in _OWN_SNAPSHOT:
        w = gen_world(random.Random(20), boot=False)
        w["turns"] = w["turns"][:1]
        w["every"] = 1
        w["profile"] = {"graph": True}
        r = run_world(w, profile_cfg(w), [], keep_snap=True, store_w=True)
        _OWN_SNAPSHOT["b"] = r["snaps"]["state_A.json"]
    return _OWN_SNAPSHOT["b"]


def plant(root: str, entries) -> None:
    """entries: list of {"name", "kind": file|dir|symlink|unreadable, "hex"|"text"|"gen": ...}"""
    snap = os.path.join(root, "snap")
    for e in entries or []:
        p = os.path.join(snap, e["name"])
        if e["kind"] == "dir":
            os.makedirs(p, exist_ok=True)
            if e.get("child"):
                with open(os.path.join(p, "inner.json"), "wb") as f:
                    f.write(b"{}")
        elif e["kind"] == "symlink":
            os.symlink(e.get("target", e["name"]), p)
        else:
            with open(p, "wb") as f:
                f.write(entry_bytes(e))
            if e["kind"] == "unreadable":
                os.chmod(p, 0)


def entry_bytes(e) -> bytes:
    if "hex" in e:
        return bytes.fromhex(e["hex"])
    if "text" in e:
        return e["text"].encode("utf-8", "surrogatepass")
    g = e["gen"]
    n = int(e.get("n", 1000))
    if g == "deep_list":
        return b"[" * n + b"]" * n
    if g == "deep_obj":
        return b'{"a":' * n + b"1" + b"}" * n
    if g == "huge_int":
        return b"9" * n
    if g == "huge_obj_int":
        return b'{"version_etag": ' + b"9" * n + b"}"
    if g == "long_string":
        return b'"' + b"x" * n + b'"'
    if g == "own":
        return own_snapshot_bytes()
    if g == "own_truncated":
        b = own_snapshot_bytes()
        return b[: max(1, min(len(b) - 1, n))]
    raise RuntimeError(f"unknown generator {g!r}")


def armed_turns(arm, n_turns):
    """arm: None/"all" -> every turn; "first" / "last" -> that turn only; a list of 0-based indices -> those turns."""
    if arm in (None, "all"):
        return None
    if arm == "first":
        return {0}
    if arm == "last":
        return {n_turns - 1}
    return {int(i) for i in arm}


def run_world(w: dict, over: dict, faults, *, boot_entries=None, booting=False, store="ok", keep_snap=False, store_w=False, arm=None):
    """Run all turns of world `w` under config overrides `over` (one dict, or a list with one dict per turn; `store`
    likewise) with `faults` installed (raising only in the turns selected by `arm`).
    Returns dict(exc, lines, logs (all canonical incl. health), counts, hits, raised, nontrivial_world, snaps)."""
    import clematis.engine.orchestrator as orch
    import clematis.engine.orchestrator.core as core
    from clematis.engine.types import Plan, SpeakOp

    world.reset_engine_globals()
    env = _Env()
    env.armed_turns = armed_turns(arm, len(w["turns"]))
    out = {"exc": [], "lines": []}
    with world.sandbox() as root:
        eng = observe.Engine(engine_spec(w), root, encoder=("bow" if w["enc"] == "bow" else None))
        fx_path = os.path.join(root, "cwd", "fx.jsonl")  # a loadable (if unhelpful) LLM fixture file, see carry_cfg
        with open(fx_path, "w", encoding="utf-8") as fh:
            fh.write(json.dumps({"prompt_hash": "0" * 64, "completion": "fixture completion"}) + "\n")
        eng.state["_planner_reflection_flag"] = True  # the rule-based planner never sets Plan.reflection; only matters when allowed
        if store_w:
            eng.state["store"].w = {("node", "n:a", "weight"): 0.5}
        if booting:
            eng.state.pop("_boot_loaded", None)
            eng.state.pop("graph", None)
            eng.state["store"].w = {("node", "n:a", "weight"): 0.5}
            plant(root, boot_entries)
        cur = {}

        def delib(ctx, state, bundle):
            return Plan(version="t3-plan-v1", ops=[SpeakOp(kind="Speak", intent="ack", topic_labels=[], max_tokens=8)],
                        deltas=[_pd(d, i) for i, d in enumerate(cur["t"]["deltas"])])

        had_delib = "t3_deliberate" in vars(orch)
        old_delib = vars(orch).get("t3_deliberate")
        try:
            store_mode = install_faults(env, eng, faults)
            # boot-phase flag + record of what the loader opened
            orig_load = core.load_latest_snapshot
            snapmod = _mod(M_SNAP)
            orig_read = snapmod._read_text

            def load_wrapper(ctx, state):
                env.loader_calls += 1
                env.in_boot = True
                try:
                    return orig_load(ctx, state)
                finally:
                    env.in_boot = False

            def read_wrapper(path):
                if env.in_boot:
                    env.boot_reads.append(os.path.basename(os.fspath(path)))
                return orig_read(path)

            _patch_attr(env, core, "load_latest_snapshot", load_wrapper)
            _patch_attr(env, snapmod, "_read_text", read_wrapper)
            if store_mode is not None:
                eng.state["store"].apply_deltas = _store_double(env, store_mode[1], store_mode[2])
            else:
                eng.state["store"].apply_deltas = _store_double(env)
            orch.t3_deliberate = delib
            cfgs = {}
            nt_t1 = nt_t2 = False
            for i, t in enumerate(w["turns"], 1):
                cur["t"] = t
                env.store_calls = 0
                env.turn = i - 1
                if store_mode is not None:
                    env.store_mode = store_mode[0] if env.armed() else "ok"
                else:
                    env.store_mode = store[i - 1] if isinstance(store, list) else store
                ov = over[i - 1] if isinstance(over, list) else over
                ck = id(ov)
                if ck not in cfgs:
                    cfgs[ck] = eng.cfg(_subst_fx(ov, fx_path))
                cfg = cfgs[ck]
                tid = i if t.get("tid", "int") == "int" else str(i)
                r = eng.turn(t["agent"], t["text"], cfg, tid, world.NOW_MS + i * 1000)
                out["exc"].append(r["exc"])
                out["lines"].append(r["line"])
                if r["exc"] is not None:
                    break
                nt_t1 = nt_t1 or bool(((r.get("t1") or {}).get("counters") or {}).get("pops"))
                nt_t2 = nt_t2 or bool((r.get("t2") or {}).get("k_returned"))
            out["nontrivial_world"] = bool(nt_t1 and nt_t2)
        finally:
            for undo in reversed(env.restore):
                undo()
            if had_delib:
                orch.t3_deliberate = old_delib
            else:
                vars(orch).pop("t3_deliberate", None)
                if "t3_deliberate" in vars(core):
                    delattr(core, "t3_deliberate")
        logs = eng.logs()
        out["logs"] = {k: logs.get(k, b"") for k in FIVE + ["health.jsonl"]}
        out["counts"] = {k: out["logs"][k].count(b"\n") for k in FIVE}
        out["listing"] = sorted(logs)
        out["hits"] = dict(env.hits)
        out["raised"] = dict(env.raised)
        out["raised_by_turn"] = [sorted(env.raised_by_turn.get(i, ())) for i in range(len(w["turns"]))]
        out["boot_reads"] = list(env.boot_reads)
        out["loader_calls"] = env.loader_calls
        out["kth_fired"] = sorted(env.kth_fired)
        out["version"] = eng.state.get("version_etag")
        if keep_snap:
            out["snaps"] = {k: v for k, v in eng.snaps().items() if not k.endswith(".meta")}
    return out


# t2.jsonl keys that are emitted iff t2.quality.enabled (under the metrics gate), whatever the quality layers did: they
# necessarily differ between "fusion faulted" (quality.enabled=true) and its baseline (quality.enabled=false)
T2Q_CONFIG_GATED = ("t2q.mmr.lambda", "t2q.mmr.selected", "t2q.diversity_avg_pairwise")


def _mask_t2q(data: bytes) -> bytes:
    out = []
    for ln in data.splitlines():
        o = json.loads(ln)
        o = {k: v for k, v in o.items() if k not in T2Q_CONFIG_GATED}
        out.append(json.dumps(o, ensure_ascii=False))
    return "\n".join(out).encode()


def _mask_field(data: bytes, field: str) -> bytes:
    out = []
    for ln in data.splitlines():
        o = json.loads(ln)
        if field in o:
            o[field] = "<masked>"
        out.append(json.dumps(o, ensure_ascii=False))
    return "\n".join(out).encode()


F_MMR = "mmr-fault-drops-fusion-telemetry"
F_ATTRS = "boot-gel-edge-attrs-unsanitized"
FUSION_TELEMETRY = {"t2q.fusion_mode", "t2q.alpha_semantic", "t2q.lex_hits"}


def _only_fusion_telemetry_lost(fa: bytes, ba: bytes) -> bool:
    """True iff the faulted t2.jsonl equals the baseline except that fusion's own fields are absent in some records."""
    la, lb = fa.splitlines(), ba.splitlines()
    if len(la) != len(lb):
        return False
    lost = False
    for x, y in zip(la, lb):
        ox, oy = json.loads(x), json.loads(y)
        if ox == oy:
            continue
        keys = {k for k in set(ox) | set(oy) if ox.get(k, "<absent>") != oy.get(k, "<absent>")}
        if not keys or not keys <= FUSION_TELEMETRY or any(k in ox for k in keys):
            return False
        lost = True
    return lost


def _first_diff(a: bytes, b: bytes) -> str:
    la, lb = a.splitlines(), b.splitlines()
    for i in range(max(len(la), len(lb))):
        x = la[i] if i < len(la) else b"<missing>"
        y = lb[i] if i < len(lb) else b"<missing>"
        if x != y:
            try:
                ox, oy = json.loads(x), json.loads(y)
                keys = sorted(k for k in set(ox) | set(oy) if ox.get(k, "<absent>") != oy.get(k, "<absent>"))
                return f"record {i + 1}: fields {keys}: faulted " + repr({k: ox.get(k, '<absent>') for k in keys})[:300] + \
                       " vs baseline " + repr({k: oy.get(k, '<absent>') for k in keys})[:300]
            except Exception:
                return f"record {i + 1}: {x[:200]!r} vs {y[:200]!r}"
    return "identical"


# =====================================================================================================
# the oracle for one (world, faults) case
# =====================================================================================================

_BASE_CACHE = {}


def effective_cfgs(w, faults, raised_by_turn=None):
    """(on, off): on = profile + every faulted site's subsystem switched on; off = list with one config per turn in which
    the subsystems whose fault FIRED during that turn of the faulted run are switched off (a turn in which the site was not
    reached -- e.g. no split candidate existed -- ran normally, so its baseline turn runs normally too)."""
    on = profile_cfg(w)
    for s, _, _ in faults:
        on = world.deep_merge(on, s["on"])
    if raised_by_turn is None:
        return on, None
    offs, memo = [], {}
    for fired in raised_by_turn:
        key = tuple(fired)
        if key not in memo:
            off = on
            for s, _, mode in faults:
                if mode != "after" and s["name"] in fired:  # 'after' faults: baseline is the same run without fault
                    off = world.deep_merge(off, s["off"])
            memo[key] = off
        offs.append(memo[key])
    return on, offs


def site_applicable(site, w):
    if "boot" in site["needs"]:
        if not w.get("boot"):
            return False
        if "boot_late" in site["needs"] and w["boot"] != "own":
            return False
    return True


def check_faults(case, rec=None, labels_extra=()):
    """case: {"world": w, "faults": [[site name, exc name(, "after")], ...]}"""
    w = case["world"]
    faults = [(SITES[f[0]], f[1], (f[2] if len(f) > 2 else "before")) for f in case["faults"]]
    sites = [s for s, _, _ in faults]
    before = [s for s, _, m in faults if m != "after"]
    names = [s["name"] for s in sites]
    on, _ = effective_cfgs(w, faults)
    booting = bool(w.get("boot"))
    boot_entries = None
    if booting:
        if w["boot"] == "garbage":
            boot_entries = [{"name": "state_A.json", "kind": "file", "text": '{"version_etag": "9", "store"'}]
        elif w["boot"] == "own":
            boot_entries = [{"name": "state_A.json", "kind": "file", "gen": "own"}]
    arm = case.get("arm")
    f = run_world(w, on, faults, boot_entries=boot_entries, booting=booting, keep_snap=True, arm=arm)
    fired_any = set().union(*map(set, f["raised_by_turn"])) if f["raised_by_turn"] else set()
    _, off = effective_cfgs(w, faults, f["raised_by_turn"])
    # store double of the baseline, per turn: idle in the turns in which every store call raised
    base_store = ["idle" if any(s["base"] == "store_idle" and s["name"] in fired for s in before) else
                  ("minus1" if ti in f["kth_fired"] else "ok") for ti, fired in enumerate(f["raised_by_turn"])]
    # late boot faults on a valid snapshot: part of the snapshot was already imported -> only completion is demanded
    completion_only = any("boot_late" in s["needs"] and s["name"] in fired_any for s in before)
    # a boot fault that fired => baseline = empty snapshot dir; otherwise the baseline keeps the planted entries
    boot_faulted = any(s["group"] == "boot" and s["name"] in fired_any for s in before)
    base_entries = None if boot_faulted else boot_entries
    sig_site = "+".join(sorted(names))
    reached = [n for n in names if f["raised"].get(n)]
    bad = [e for e in f["exc"] if e is not None]
    if bad:
        # is it the injected fault that escaped, or something else?
        escaped = "injected fault (C20)" in bad[0]
        if escaped:
            m = re.search(r"injected fault \(C20\) at ([A-Za-z_][\w.]*)", bad[0])
            which = m.group(1) if m else bad[0].split(" at ")[-1].strip("'\" ")
            group = SITES[which]["group"] if which in SITES else which
            raise Violation(f"fault {bad[0]!r} injected at declared fail-soft site escaped run_turn (turn {len(f['exc'])}); "
                            f"sites {names}", case, f"escape:{group}")
        # not our exception: does the fault-free baseline raise the same way?
        b = _baseline(w, off, base_entries, booting, base_store)
        if any(e is not None for e in b["exc"]):
            if rec is not None:
                rec.case(nontrivial=False, labels=["baseline_raises"] + list(labels_extra))
            return
        raise Violation(f"turn {len(f['exc'])} raised {bad[0]!r} with faults {case['faults']} although the fault-free off/idle "
                        f"baseline completes", case, f"secondary:{sig_site}:{bad[0].split(':')[0]}")
    n = len(w["turns"])
    for k in FIVE:
        if f["counts"][k] != n:
            raise Violation(f"{n} turns completed but {k} holds {f['counts'][k]} records (faults {case['faults']})", case,
                            f"records:{sig_site}:{k}")
    if any(not isinstance(x, str) for x in f["lines"]):
        raise Violation(f"run_turn result line is not a str: {f['lines']!r}", case, f"result:{sig_site}")
    b = _baseline(w, off, base_entries, booting, base_store)
    if any(e is not None for e in b["exc"]):
        if rec is not None:
            rec.case(nontrivial=False, labels=["baseline_raises"] + list(labels_extra))
        return
    mask = on.get("perf", {}).get("enabled") and on.get("perf", {}).get("metrics", {}).get("report_memory") and \
        any("t2q" in s["tags"] for s in sites)
    # invalidation done, then the call failed: the count is lost (0 instead of n) -- the one field that may differ
    mask_inv = any(s["group"] == "cache" and m == "after" for s, _, m in faults)
    mask_applied = any("mask_applied" in s["tags"] and s["name"] in fired_any for s in sites)
    labels = list(labels_extra)
    if not completion_only:
        for k in FIVE:
            fa, ba = f["logs"][k], b["logs"][k]
            if mask and k == "t2.jsonl":
                fa, ba = _mask_t2q(fa), _mask_t2q(ba)
            if mask_inv and k == "apply.jsonl":
                fa, ba = _mask_field(fa, "cache_invalidations"), _mask_field(ba, "cache_invalidations")
            if mask_applied and k == "apply.jsonl":
                for fld in ("applied", "clamps"):
                    fa, ba = _mask_field(fa, fld), _mask_field(ba, fld)
            if fa != ba:
                if k == "t2.jsonl" and "quality.maybe_apply_mmr" in fired_any and _only_fusion_telemetry_lost(fa, ba):
                    # finding mmr-fault-drops-fusion-telemetry: exactly the fusion layer's own fields are missing, nothing else
                    if rec is not None and rec.is_known(F_MMR):
                        labels.append("known:" + F_MMR)  # only this stream's failure mode is excused; the rest is still compared
                        continue
                    raise Violation(f"t2.jsonl differs from the MMR-off baseline with faults {case['faults']}: the MMR failure also "
                                    f"wiped the fusion layer's record fields although the fused ranking is kept: {_first_diff(fa, ba)}",
                                    case, "diff:mmr-fault-drops-fusion-telemetry")
                raise Violation(f"{k} differs from the off/idle baseline with faults {case['faults']} (reached {reached}): "
                                f"{_first_diff(fa, ba)}", case, f"diff:{sig_site}:{k}")
        if all(s["group"] == "sidecar" for s in sites) and f.get("snaps") != b.get("snaps"):
            raise Violation(f"snapshot body differs from the fault-free run under a sidecar fault {case['faults']}", case,
                            f"diff:{sig_site}:snapshot-body")
        if f["logs"]["health.jsonl"] != b["logs"]["health.jsonl"]:
            labels.append("health_diff")
        if f["lines"] != b["lines"]:
            raise Violation(f"TurnResult.line differs from the off/idle baseline with faults {case['faults']} (reached {reached}): "
                            f"{f['lines']!r} vs {b['lines']!r}", case, f"diff:{sig_site}:line")
    else:
        labels.append("completion_only")
    if rec is not None:
        nt = bool(reached) and len(reached) == len(names) and f["nontrivial_world"]
        if len(names) > 1:
            nt = len(reached) >= 2 and f["nontrivial_world"]
        for nme in names:
            labels.append(("reached:" if f["raised"].get(nme) else "unreached:") + nme)
        labels += [f"turns={n}", f"enc={w['enc']}"] + (["mask_t2q"] if mask else []) + (["mask_cache_invalidations"] if mask_inv else []) + \
            (["mask_applied"] if mask_applied else [])
        labels += ["mode:" + m for _, _, m in faults if m != "before"]
        labels.append("arm:" + (arm if isinstance(arm, str) else ("all" if arm is None else "list")))
        if w.get("sparse"):
            labels.append("sparse_world")
        if w.get("carry"):
            labels.append("carry")
            # did this turn sequence really consume what an earlier turn left on the state?
            t2recs = [json.loads(ln) for ln in b["logs"]["t2.jsonl"].splitlines()]
            if any((r.get("hybrid") or {}).get("k_reordered") for r in t2recs[1:]):
                labels.append("carry:hybrid_reordered_later_turn")
            elif any(r.get("hybrid") for r in t2recs[1:]):
                labels.append("carry:hybrid_block_later_turn")
        for _, en, _ in faults:
            if en not in EXC:
                labels.append("exc_extra:" + en)
        if f["loader_calls"] > 1:
            labels.append("loader_ran_more_than_once")
        if not f["nontrivial_world"]:
            labels.append("trivial_world")
        rec.case(nontrivial=nt, dig=digest([sorted(map(list, case["faults"])), arm, digest(w)]) if nt else None, labels=labels,
                 sample={"faults": case["faults"], "reached": reached, "turns": [t["text"] for t in w["turns"]],
                         "profile": sorted(k for k, v in (w.get("profile") or {}).items() if v), "enc": w["enc"]} if nt else None)


def _baseline(w, off, entries, booting, store):
    key = digest([w, off, entries, booting, store])
    if key not in _BASE_CACHE:
        if len(_BASE_CACHE) > 64:
            _BASE_CACHE.clear()
        _BASE_CACHE[key] = run_world(w, off, [], boot_entries=entries, booting=booting, store=store, keep_snap=True)
    return _BASE_CACHE[key]


# =====================================================================================================
# minimisation for the enumerated (non-Hypothesis) sub-checks
# =====================================================================================================

def _variants(case):
    w = case["world"]
    if len(w["turns"]) > 1:
        for i in range(len(w["turns"])):
            c = copy.deepcopy(case)
            del c["world"]["turns"][i]
            yield c
    for k, v in (w.get("profile") or {}).items():
        if v:
            c = copy.deepcopy(case)
            c["world"]["profile"][k] = False
            yield c
    if len(w["graphs"]) > 1:
        c = copy.deepcopy(case)
        c["world"]["graphs"].pop(sorted(c["world"]["graphs"])[-1])
        yield c
    for i in range(len(w["eps"]) - 1, -1, -1):
        c = copy.deepcopy(case)
        eid = c["world"]["eps"][i]["id"]
        del c["world"]["eps"][i]
        if c["world"].get("gel"):
            g = c["world"]["gel"]
            g["nodes"].pop(eid, None)
            g["edges"] = {k: e for k, e in g["edges"].items() if eid not in (e["src"], e["dst"])}
        yield c
    if w.get("gel") and w["gel"]["edges"]:
        for k in list(w["gel"]["edges"]):
            c = copy.deepcopy(case)
            del c["world"]["gel"]["edges"][k]
            yield c
    for ti, t in enumerate(w["turns"]):
        if len(t["deltas"]) > 1:
            c = copy.deepcopy(case)
            c["world"]["turns"][ti]["deltas"] = t["deltas"][:1]
            yield c
    if w["enc"] != "bow":
        c = copy.deepcopy(case)
        c["world"]["enc"] = "bow"
        yield c
    if len(case.get("faults", [])) > 1:
        for i in range(len(case["faults"])):
            c = copy.deepcopy(case)
            del c["faults"][i]
            yield c
    if case.get("arm") not in (None, "all"):
        c = copy.deepcopy(case)
        c.pop("arm")
        yield c
    if w.get("carry"):
        c = copy.deepcopy(case)
        c["world"].pop("carry")
        yield c


def minimise(case, checker, sig, budget=120):
    """Greedy structural shrink keeping the violation signature."""
    def fails(c):
        try:
            checker(c, None)
        except Violation as v:
            return v.sig == sig
        return False

    improved = True
    while improved and budget > 0:
        improved = False
        for cand in _variants(case):
            budget -= 1
            if budget <= 0:
                break
            if fails(cand):
                case = cand
                improved = True
                break
    return case


def _guarded(rec, case, checker, seen_sigs, labels_extra=()):
    """Run one enumerated case; on the first violation of a signature minimise and record it (the enumeration continues)."""
    try:
        if labels_extra:
            checker(case, rec, labels_extra)
        else:
            checker(case, rec)
    except Violation as v:
        if v.sig in seen_sigs:
            rec.label("repeat_violation:" + v.sig)
            return
        seen_sigs.add(v.sig)
        small = minimise(v.case, checker, v.sig)
        try:
            checker(small, None)
        except Violation as v2:
            rec.violation(v2.message, v2.case, v2.sig)
            return
        rec.violation(v.message, v.case, v.sig)


# =====================================================================================================
# sub-check: sites (every site x exception type x worlds)
# =====================================================================================================

def with_carry(w: dict, rng: random.Random) -> dict:
    """Copy of `w` with the cross-turn consumers on (see carry_cfg) and at least two turns on the one state."""
    c = copy.deepcopy(w)
    c["carry"] = c.get("carry") or gen_tune(rng)
    want = 3 if rng.random() < 0.5 else 2  # a write made after T2 of turn k+1 (reflection entry) only shows in turn k+2's records
    while len(c["turns"]) < want:
        t = copy.deepcopy(c["turns"][len(c["turns"]) % 2 if len(c["turns"]) > 1 else 0])
        t["agent"] = rng.choice(["A", "A", "B"])
        c["turns"].append(t)
    return c


def sparsify(w: dict) -> dict:
    """Degenerate variant: the optional subsystems are switched on but have (almost) nothing to work on -- no GEL edges, no
    proposed deltas, a query outside the vocabulary.  Error handlers must not assume progress was made before the fault."""
    c = copy.deepcopy(w)
    if c.get("gel"):
        c["gel"]["edges"] = {}
    for t in c["turns"]:
        t["deltas"] = []
        t["text"] = "zzz"
    c["sparse"] = True
    return c


def without_carry(w: dict) -> dict:
    c = copy.deepcopy(w)
    c.pop("carry", None)
    return c


# (carry, arm) per variant index: every site meets a transient fault (first / last turn only) and a permanent one, each with the
# cross-turn consumers on and off; the offset (site index + world index) rotates the pairing with the exception types
_VARIANT_PLAN = [(False, "all"), (True, "all"), (False, "first"), (True, "first"), (False, "all"), (True, "last"), (False, "last"), (True, "all")]


def sub_sites(rec, seed, shard, nshards, worlds=4, extras=2):
    _fast_tmp()
    rng = random.Random(seed)
    seen_sigs = set()
    idx = 0
    for wi in range(worlds):
        w0, b0 = gen_world(rng, boot=False), gen_world(rng, boot=True)
        plain = {False: without_carry(w0), True: with_carry(w0, rng)}
        bootw = {False: without_carry(b0), True: with_carry(b0, rng)}
        for si, name in enumerate(SITE_NAMES):
            site = SITES[name]
            is_boot = "boot" in site["needs"]
            variants = [(e, "before") for e in EXC_NAMES] + ([(e, "after") for e in EXC_NAMES] if name in AFTER_OK else [])
            variants += [(e, "lookup") for e in EXC_NAMES] if name in LOOKUP_OK else []
            variants += [(EXC_EXTRA[(si * extras + wi * 7 + j) % len(EXC_EXTRA)], "before") for j in range(extras)]
            for k, (exc_name, mode) in enumerate(variants):
                idx += 1
                if idx % nshards != shard:
                    continue
                carry, arm = _VARIANT_PLAN[(k + si + wi) % len(_VARIANT_PLAN)]
                if is_boot:
                    w = copy.deepcopy(bootw[carry])
                    kinds = BOOT_KINDS.get(name, ["none", "garbage", "own"])
                    w["boot"] = b0["boot"] if b0["boot"] in kinds else kinds[wi % len(kinds)]
                    arm = "all"  # the boot hook runs once per state; boot spies are armed throughout
                else:
                    w = plain[carry]
                case = {"world": w, "faults": [[name, exc_name] + ([mode] if mode != "before" else [])]}
                arm = arm_for([name], arm)
                if arm != "all" and len(w["turns"]) >= 2:
                    case["arm"] = arm
                _guarded(rec, case, check_faults, seen_sigs)
    if shard == 0:
        probe_undeclared(rec, seed)
        for dbl in ("logs_append", "bundle_keys", "prompt_str"):
            for exc_name in EXC_NAMES:
                try:
                    check_t3trace_direct({"direct": "t3trace", "double": dbl, "exc": exc_name}, rec)
                except Violation as v:
                    if v.sig not in seen_sigs:
                        seen_sigs.add(v.sig)
                        rec.violation(v.message, v.case, v.sig)
    rec.note("sites", len(SITE_NAMES))
    rec.note("exception_types", EXC_NAMES)
    rec.note("undeclared_left_out", "gel_observe/gel_tick (unguarded in run_turn; docs call them optional = config-gated only), "
             "core.emit_trace as a whole (declared guard is inside emit_trace), T1/T2 core, meta-filter, canonical appends, snapshot body write")


UNDECLARED = {"gel_observe": (M_CORE, "gel_observe"), "gel_tick": (M_CORE, "gel_tick"), "core.emit_trace": (M_CORE, "emit_trace")}


def probe_undeclared(rec, seed):
    """Informational only (never a violation): what happens when a callable that run_turn invokes WITHOUT a guard, and that
    neither code comments nor docs declare fail-soft, raises."""
    w = gen_world(random.Random(seed), boot=False)
    w["turns"] = w["turns"][:1]
    w["profile"] = {"graph": True}
    res = {}
    for name, (modname, attr) in UNDECLARED.items():
        site = {"name": "undeclared." + name, "group": "undeclared", "patch": ("mod", modname, attr), "on": {}, "off": {}, "when": None,
                "needs": (), "tags": (), "base": None}
        f = run_world(w, profile_cfg(w), [(site, "RuntimeError", "before")])
        res[name] = "escapes run_turn" if (f["exc"] and f["exc"][0]) else ("swallowed" if f["raised"] else "not reached")
        rec.case(nontrivial=False, labels=["undeclared_probe:" + name + ":" + res[name].split()[0]])
    rec.note("undeclared_probe", res)


def check_t3trace_direct(case, rec=None):
    """case: {"direct": "t3trace", "double": logs_append|bundle_keys|prompt_str, "exc": name}"""
    from clematis.engine.stages.t3.trace import emit_trace

    exc = EXC[case["exc"]]
    hit = []

    def boom(*a, **k):
        hit.append(1)
        raise exc("injected fault (C20) at t3trace." + case["double"])

    class Logs(list):
        append = boom

    class Bundle(dict):
        keys = boom

    class Prompt:
        __str__ = boom

    cfg = {"perf": {"metrics": {"enabled": True}}, "t3": {"trace": {"enabled": True}}}
    logs = Logs() if case["double"] == "logs_append" else []
    bundle = Bundle(a=1) if case["double"] == "bundle_keys" else {"a": 1}
    prompt = Prompt() if case["double"] == "prompt_str" else "p"
    try:
        r = emit_trace(cfg, prompt, bundle, {"state_logs": logs})
    except Exception as e:
        raise Violation(f"t3 emit_trace let {type(e).__name__} escape ({case['double']} raising, gate open)", case,
                        f"escape:t3trace.{case['double']}")
    if r is not None or not hit:
        raise Violation(f"t3 emit_trace direct call: returned {r!r}, double hit={bool(hit)}", case, f"t3trace-direct:{case['double']}")
    if rec is not None:
        rec.case(nontrivial=False, labels=["direct:t3trace." + case["double"]])


# =====================================================================================================
# sub-check: combos (Hypothesis: pairs / triples)
# =====================================================================================================

def compatible(names):
    sites = [SITES[n] for n in names]
    tags = set()
    for s in sites:
        tags.update(s["tags"])
    if "q_on" in tags and "q_off" in tags:
        return False
    if sum(1 for s in sites if "store" in s["tags"]) > 1:
        return False
    if len(set(names)) != len(names):
        return False
    # two patches of the same attribute cannot be stacked meaningfully
    if len({s["patch"] for s in sites}) != len(sites):
        return False
    return True


@st.composite
def combo_cases(draw):
    k = draw(st.sampled_from([2, 2, 3]))
    names = draw(st.lists(st.sampled_from(SITE_NAMES), min_size=k, max_size=k, unique=True).filter(compatible))
    excs = [draw(st.sampled_from(EXC_NAMES + EXC_NAMES + EXC_EXTRA)) for _ in names]
    modes = [draw(st.sampled_from(["before", "before"] + (["after"] if (nm in AFTER_OK and SITES[nm]["group"] != "boot") else []) +
                                  (["lookup"] if nm in LOOKUP_OK else []))) for nm in names]
    wseed = draw(st.integers(0, 10 ** 6))
    boot = any("boot" in SITES[n]["needs"] for n in names)
    w = gen_world(random.Random(wseed), boot=boot, carry=draw(st.sampled_from([None, True])))
    if boot:
        kinds = ["none", "garbage", "own"]
        for nme in names:
            kinds = [k for k in kinds if k in BOOT_KINDS.get(nme, kinds)]
        w["boot"] = draw(st.sampled_from(kinds or ["own"]))
    if not w.get("carry") and draw(st.booleans()):
        w["turns"] = w["turns"][:1]
    if draw(st.sampled_from([False, False, False, False, False, False, True])):
        w = sparsify(w)
    case = {"world": w, "faults": [[n, e] + ([m] if m != "before" else []) for n, e, m in zip(names, excs, modes)]}
    arm = arm_for(names, draw(st.sampled_from(["all", "all", "first", "last"])))
    if arm != "all" and len(w["turns"]) >= 2:
        case["arm"] = arm
    return case


def sub_combos(rec, seed, shard, nshards, n=60, shrink=True):
    _fast_tmp()
    run_hypothesis(rec, seed, combo_cases(), lambda c: check_faults(c, rec, ("combo",)), max_examples=n, shrink=shrink, name="combos")


# =====================================================================================================
# sub-check: bootfiles
# =====================================================================================================

def _hex(b: bytes) -> dict:
    return {"hex": b.hex()}


def boot_classes(rng: random.Random):
    """(class name, strictness, entries). strict=True: must equal the empty-dir baseline; False: completion only."""
    own = own_snapshot_bytes()
    body = json.loads(own)
    out = []

    def f(name, cls, strict, spec, fname=None, kind="file"):
        fname = fname or rng.choice(["state_A.json", "state_zz.json", "snap_000123.json", "anything.json", "state_B.json"])
        out.append((cls, strict, [dict({"name": fname, "kind": kind}, **spec)]))

    f("", "random_bytes", True, _hex(bytes(rng.randrange(256) for _ in range(rng.randint(1, 200)))))
    f("", "empty_file", True, _hex(b""))
    f("", "whitespace", True, {"text": " \n\t\n"})
    f("", "truncated_json", True, {"gen": "own_truncated", "n": rng.randint(1, len(own) - 1)})
    f("", "truncated_json", True, {"gen": "own_truncated", "n": rng.randint(1, 40)})
    f("", "top_list", True, {"text": json.dumps([body, 1, "x"])})
    f("", "top_list", True, {"text": "[]"})
    f("", "top_number", True, {"text": rng.choice(["5", "0", "-1.5e3", "1e999", "-0"])})
    f("", "top_string", True, {"text": json.dumps(rng.choice(["", "snapshot", "{\"version_etag\": \"3\"}"]))})
    f("", "top_null", True, {"text": rng.choice(["null", "true", "false"])})
    f("", "top_nan", True, {"text": rng.choice(["NaN", "Infinity", "-Infinity"])})
    f("", "deep_nesting", True, {"gen": "deep_list", "n": rng.choice([500, 5000, 100000])})
    f("", "deep_nesting", True, {"gen": "deep_obj", "n": rng.choice([500, 5000, 50000])})
    f("", "huge_number", True, {"gen": "huge_int", "n": rng.choice([400, 5000])})
    f("", "long_string", True, {"gen": "long_string", "n": 200000})
    f("", "invalid_utf8", True, _hex(b'{"version_etag": "\xff\xfe"}'))
    f("", "bom", True, _hex(b"\xef\xbb\xbf" + own))
    f("", "utf16", True, _hex(own.decode().encode("utf-16")))
    f("", "nul_bytes", True, _hex(b"\x00" * 64))
    f("", "trailing_garbage", True, _hex(own + b"}}}"))
    f("", "header_then_list", True, {"text": '{"mode": "full"}\n[1, 2, 3]'})
    f("", "header_then_garbage", True, {"text": '{"mode": "full", "etag_to": "12"}\n{"version_etag": '})
    f("", "delta_without_baseline", True, {"text": json.dumps({"mode": "delta", "delta_of": "5", "etag_from": "5", "etag_to": "6", "schema": "snapshot:v1"})
                                           + "\n" + json.dumps({"_adds": {"version_etag": "6"}, "_dels": [], "_mods": {}})},
      fname="snapshot-6.delta.json")
    # delta whose "baseline" is garbage / header-only
    out.append(("delta_bad_baseline", True, [
        {"name": "snapshot-5.full.json", "kind": "file", "text": '{"mode": "full", "etag_to": "5"}'},
        {"name": "snapshot-6.delta.json", "kind": "file", "text": json.dumps({"mode": "delta", "delta_of": "5", "etag_to": "6"}) + "\n" + "{}"}]))
    # delta whose baseline exists only as (undecodable) .zst; delta without baseline whose sibling full is not a full snapshot
    _delta = json.dumps({"mode": "delta", "delta_of": "5", "etag_from": "5", "etag_to": "6"}) + "\n" + json.dumps({"_adds": {"version_etag": "6"}})
    out.append(("delta_zst_baseline", True, [
        {"name": "snapshot-5.full.json.zst", "kind": "file", "hex": bytes(rng.randrange(256) for _ in range(40)).hex()},
        {"name": "snapshot-6.delta.json", "kind": "file", "text": _delta}]))
    out.append(("delta_sibling_full_garbage", True, [
        {"name": "snapshot-6.full.json", "kind": "file", "text": rng.choice(['{"mode": "full", "etag_to": "6"}\n[1]', '{"mode": "full"', "[]", '{"mode": "delta", "etag_to": "6"}\n7'])},
        {"name": "snapshot-6.delta.json", "kind": "file", "text": _delta}]))
    f("", "directory", True, {}, fname=rng.choice(["snap_000007.json", "state_zz.json", "x.json"]), kind="dir")
    out.append(("directory", True, [{"name": "snap_000009.json", "kind": "dir", "child": True}]))
    out.append(("dangling_symlink", True, [{"name": "snap_000001.json", "kind": "symlink", "target": "nowhere.json"}]))
    out.append(("symlink_loop", True, [{"name": "state_zz.json", "kind": "symlink", "target": "state_zz.json"}]))
    f("", "unreadable", True, {"gen": "own"}, kind="unreadable")
    # file NAMES: 'snap_<digits>.json' is parsed with int(); str.isdigit() accepts characters int() rejects ('²') and non-ASCII digits
    f("", "weird_name", True, {"text": rng.choice(["[1, 2, 3]", "{", ""])}, fname=rng.choice(["snap_².json", "snap_١٢.json", "snap_１２.json"]))
    # the picked file is garbage, a perfectly valid snapshot sits next to it but is not the latest (completion only: whether a
    # loader may fall back to the older file is not C20's business)
    out.append(("garbage_picked_valid_unpicked", False, [
        {"name": "snap_000009.json", "kind": "file", "text": rng.choice(["[1, 2, 3]", "\"snapshot\"", "17", '{"version_etag": "9", "store"', "true"])},
        {"name": "state_zz.json", "kind": "file", "gen": "own"}]))
    # ---- valid JSON objects: only completion is demanded
    f("", "foreign_object", False, {"text": json.dumps(rng.choice([{}, {"name": "pkg", "version": "1.0.0", "dependencies": {"a": "^1"}},
                                                                   {"version_etag": "77"}, {"a": {"b": {"c": [1, 2, {"d": None}]}}},
                                                                   {"version_etag": 12, "nodes": [], "edges": []}]))})
    f("", "foreign_object", False, {"gen": "huge_obj_int", "n": 400})
    f("", "own_valid", False, {"gen": "own"})

    def mut(cls, **kv):
        b = copy.deepcopy(body)
        for k, v in kv.items():
            if v == "__del__":
                b.pop(k, None)
            else:
                b[k] = v
        f("", cls, False, {"text": json.dumps(b)})

    mut("wrong_version_etag", version_etag=rng.choice([[1, 2], {"a": 1}, True, None, 1.5, float("nan"), "", "abc", -3, 10 ** 30]))
    mut("wrong_store", store=rng.choice(["string", 5, [1], None, {"state": "x"}, {"weights": "x"}, {"weights": [1, None, "a", {}]},
                                        {"weights": [{"target_kind": [], "value": "nan"}, {"value": {}}]}, {"state": None, "weights": None}]))
    mut("wrong_gel", gel=rng.choice([5, "x", [1, 2], None, True, {"nodes": 3, "edges": 4}, {"edges": []}, {"edges": "abc"}, {"meta": 7, "edges": {}}]))
    ge = {"a→b": {"src": "a", "dst": "b", "weight": "heavy"}, "x": 5, "k2": None, "k3": {"src": None, "dst": 7, "weight": None},
          "k4": {"src": "e1", "dst": "e2", "weight": float("nan")}, "k5": {"src": "e2", "dst": "e3", "weight": float("inf")},
          "k6": {"src": "e1", "dst": "e3", "weight": 1e308, "attrs": "no"}, "k7": {"src": {"x": 1}, "dst": [1], "weight": True},
          "e1→e2": {"id": 9, "src": "e2", "dst": "e1", "weight": -7, "rel": None},
          "k8": {"src": "e1", "dst": "e4", "weight": 0.5, "attrs": None},
          "k9": {"src": "e2", "dst": "e4", "weight": 0.5, "attrs": {"coact": "many", "last_seen_turn": []}, "updated_at": {"x": 1}}}
    keys = rng.sample(sorted(ge), rng.randint(2, len(ge)))
    mut("gel_edges_garbage", gel={"nodes": {"e1": 5, "e2": None}, "edges": {k: ge[k] for k in keys}, "meta": {"merges": 3, "last_update": {}}})
    mut("graph_instead_of_gel", gel="__del__", graph={"nodes": {}, "edges": {k: ge[k] for k in keys}, "meta": []})
    mut("gel_edge_attrs", gel={"edges": {"e1→e2": {"src": "e1", "dst": "e2", "weight": 0.5,
                                                    "attrs": rng.choice([None, "no", 5, [1], {"coact": "many"}, {"last_seen_turn": "x", "coact": None}])}}})
    mut("gel_edges_list", gel={"edges": [{"src": "e1", "dst": "e2", "weight": 0.5, "rel": "coact", "attrs": rng.choice([{}, None, {"coact": 1.5}])},
                                         5, None, {"src": "e2"}], "nodes": [{"id": "e1"}, None, 7]})
    mut("wrong_misc", turn="x", agent=[1], applied="many", deltas=5, schema_version=rng.choice([None, 9, "v0", []]))
    return out


def classify_content(data: bytes) -> str:
    """Independent classification of a planted single file by the documented formats: 'garbage' (no JSON object can be
    read from it: strict oracle) or 'object' (some JSON object is readable: completion only)."""
    try:
        text = data.decode("utf-8")
    except UnicodeDecodeError:
        return "garbage"
    parts = text.splitlines()
    if len(parts) >= 2:
        try:
            h = json.loads(parts[0])
            json.loads("\n".join(parts[1:]))
            if isinstance(h, dict):
                return "object"
        except (ValueError, RecursionError):
            pass
    try:
        v = json.loads(text)
    except (ValueError, RecursionError):
        return "garbage"
    return "object" if isinstance(v, dict) else "garbage"


def _payload_of(data: bytes):
    """The JSON payload the documented formats yield for a file (two-line header+payload, else single JSON), or None."""
    try:
        text = data.decode("utf-8")
    except UnicodeDecodeError:
        return None
    parts = text.splitlines()
    if len(parts) >= 2:
        try:
            h = json.loads(parts[0])
            pl = json.loads("\n".join(parts[1:]))
            if isinstance(h, dict):
                return pl
        except (ValueError, RecursionError):
            pass
    try:
        return json.loads(text)
    except (ValueError, RecursionError):
        return None


def _is_attrs_crash(exc_text: str) -> bool:
    return (exc_text.startswith("AttributeError") and "has no attribute 'get'" in exc_text) or \
           (exc_text.startswith("ValueError") and "invalid literal for int()" in exc_text) or \
           (exc_text.startswith("TypeError") and "int() argument must be" in exc_text) or \
           (exc_text.startswith("OverflowError") and "cannot convert float" in exc_text) or \
           (exc_text.startswith("ValueError") and "cannot convert float NaN" in exc_text)


def _int_ok(v) -> bool:
    try:
        int(v)
        return True
    except Exception:
        return False


def entries_have_bad_edge_attrs(entries) -> bool:
    for e in entries:
        if e["kind"] != "file":
            continue
        pl = _payload_of(entry_bytes(e))
        if not isinstance(pl, dict):
            continue
        for sect in ("gel", "graph"):
            g = pl.get(sect)
            edges = g.get("edges") if isinstance(g, dict) else None
            vals = list(edges.values()) if isinstance(edges, dict) else (edges if isinstance(edges, list) else [])
            for ed in vals:
                if isinstance(ed, dict) and "attrs" in ed:
                    a = ed["attrs"]
                    if not isinstance(a, dict) or ("coact" in a and not _int_ok(a["coact"])):
                        return True
    return False


def check_bootfile(case, rec=None, labels_extra=()):
    """case: {"world": w, "cls": str, "strict": bool, "entries": [...]}"""
    w = case["world"]
    entries = case["entries"]
    if any(e["kind"] == "unreadable" for e in entries) and os.geteuid() == 0:
        if rec is not None:
            rec.case(nontrivial=False, labels=["skipped:unreadable_as_root"])
        return
    on = profile_cfg(w)
    f = run_world(w, on, [], boot_entries=entries, booting=True)
    cls = case["cls"]
    bad = [e for e in f["exc"] if e is not None]
    if bad:
        b = _baseline(w, on, None, True, "ok")
        if any(e is not None for e in b["exc"]):
            if rec is not None:
                rec.case(nontrivial=False, labels=["baseline_raises"])
            return
        if _is_attrs_crash(bad[0]) and entries_have_bad_edge_attrs(entries):
            # finding boot-gel-edge-attrs-unsanitized: the loader imports a GEL edge's attrs verbatim (not a mapping, or a
            # non-numeric coact counter) and the unguarded GEL observe/tick crash on it
            if rec is not None and rec.is_known(F_ATTRS):
                rec.case(nontrivial=False, labels=["known:" + F_ATTRS, f"class:{cls}"] + list(labels_extra))
                return
            raise Violation(f"turn {len(f['exc'])} raised {bad[0]!r}: the boot loader imported a GEL edge's 'attrs' verbatim (not a "
                            f"mapping / non-numeric coact) from {[e['name'] for e in entries]} (class {cls}) and GEL observe/tick "
                            f"crashed on it; with an empty snapshot dir the same turns complete", case,
                            "boot-raises:gel-edge-attrs-unsanitized")
        raise Violation(f"turn {len(f['exc'])} raised {bad[0]!r} with boot entry class {cls} ({[e['name'] for e in entries]}) in the "
                        f"snapshot dir; with an empty dir the same turns complete", case, f"boot-raises:{cls}:{bad[0].split(':')[0]}")
    n = len(w["turns"])
    for k in FIVE:
        if f["counts"][k] != n:
            raise Violation(f"{n} turns completed but {k} holds {f['counts'][k]} records (boot class {cls})", case, f"boot-records:{cls}:{k}")
    labels = [f"class:{cls}", "strict" if case["strict"] else "completion_only", f"turns={n}"] + list(labels_extra)
    if w.get("carry"):
        labels.append("carry")
    if f["loader_calls"] > 1:
        labels.append("loader_ran_more_than_once")
    if case["strict"]:
        b = _baseline(w, on, None, True, "ok")
        if any(e is not None for e in b["exc"]):
            if rec is not None:
                rec.case(nontrivial=False, labels=["baseline_raises"])
            return
        for k in FIVE:
            if f["logs"][k] != b["logs"][k]:
                raise Violation(f"{k} differs from the empty-snapshot-dir run with garbage boot entry class {cls} "
                                f"({[e['name'] for e in entries]}): {_first_diff(f['logs'][k], b['logs'][k])}", case, f"boot-diff:{cls}:{k}")
        if f["version"] != b["version"]:
            raise Violation(f"state version {f['version']!r} after garbage boot entry class {cls}, {b['version']!r} with an empty dir",
                            case, f"boot-diff:{cls}:version")
        if f["lines"] != b["lines"]:
            raise Violation(f"TurnResult.line differs from the empty-snapshot-dir run with garbage boot entry class {cls}: "
                            f"{f['lines']!r} vs {b['lines']!r}", case, f"boot-diff:{cls}:line")
        if w.get("carry"):
            t2recs = [json.loads(ln) for ln in b["logs"]["t2.jsonl"].splitlines()]
            if any(r.get("hybrid") for r in t2recs[1:]):
                labels.append("carry:hybrid_later_turn")
    if rec is not None:
        opened = bool(f["boot_reads"])
        picked = opened or any(e["kind"] in ("dir", "symlink") for e in entries)
        if opened:
            labels.append("opened")
        nt = picked and f["nontrivial_world"]
        rec.case(nontrivial=nt, dig=digest([cls, entries, digest(w)]) if nt else None, labels=labels,
                 sample={"class": cls, "entries": [{k: (v if k != "hex" else v[:60]) for k, v in e.items()} for e in entries],
                         "opened": f["boot_reads"]} if nt else None)


_JSON_LEAF = st.one_of(st.none(), st.booleans(), st.integers(-10 ** 20, 10 ** 20), st.floats(allow_nan=True, allow_infinity=True),
                       st.text(max_size=8), st.sampled_from(["e1", "e2", "7", "v1", "→", "a→b"]))
_JSON = st.recursive(_JSON_LEAF, lambda c: st.one_of(st.lists(c, max_size=4),
                                                      st.dictionaries(st.one_of(st.text(max_size=5), st.sampled_from(
                                                          ["version_etag", "store", "gel", "graph", "edges", "nodes", "weights", "state",
                                                           "src", "dst", "weight", "meta", "mode", "delta_of", "etag_to", "_adds"])), c, max_size=5)),
                     max_leaves=12)


@st.composite
def boot_contents(draw):
    kind = draw(st.sampled_from(["bytes", "text", "json", "json", "mutate", "mutate", "truncate", "twoline"]))
    own = own_snapshot_bytes()
    if kind == "bytes":
        data = draw(st.binary(max_size=300))
    elif kind == "text":
        data = draw(st.text(max_size=200)).encode("utf-8", "surrogatepass")
    elif kind == "json":
        data = json.dumps(draw(_JSON)).encode()
    elif kind == "mutate":
        body = json.loads(own)
        for _ in range(draw(st.integers(1, 3))):
            target = draw(st.sampled_from(["top", "gel", "store", "edges"]))
            v = draw(_JSON)
            if target == "top":
                body[draw(st.sampled_from(sorted(body) + ["extra"]))] = v
            elif target == "gel" and isinstance(body.get("gel"), dict):
                body["gel"][draw(st.sampled_from(["nodes", "edges", "meta", "x"]))] = v
            elif target == "store" and isinstance(body.get("store"), dict):
                body["store"][draw(st.sampled_from(["weights", "state", "x"]))] = v
            elif target == "edges" and isinstance(body.get("gel"), dict) and isinstance(body["gel"].get("edges"), dict):
                body["gel"]["edges"][draw(st.sampled_from(sorted(body["gel"]["edges"]) + ["new"]))] = v
        data = json.dumps(body).encode()
    elif kind == "truncate":
        data = own[: draw(st.integers(0, len(own)))]
    else:
        data = (json.dumps(draw(_JSON)) + "\n" + json.dumps(draw(_JSON))).encode()
    name = draw(st.sampled_from(["state_A.json", "state_zz.json", "snap_000123.json", "anything.json"]))
    wseed = draw(st.integers(0, 10 ** 6))
    w = gen_world(random.Random(wseed), boot=True, carry=draw(st.sampled_from([None, True])))
    if not w.get("carry") and draw(st.booleans()):
        w["turns"] = w["turns"][:1]
    strict = classify_content(data) == "garbage"
    return {"world": w, "cls": "generated:" + kind, "strict": strict, "entries": [{"name": name, "kind": "file", "hex": data.hex()}]}


def sub_bootfiles(rec, seed, shard, nshards, worlds=2, n=60, shrink=True):
    _fast_tmp()
    rng = random.Random(seed)
    idx = 0
    seen_sigs = set()
    for wi in range(worlds):
        # every second world carries state across turns (GEL learning -> hybrid rerank of the next turn): a loader failure whose
        # effect only shows from turn 2 on (re-run, state reset, half-imported fields) then differs from the empty-dir run
        w = gen_world(rng, boot=True, carry=(wi % 2 == 1))
        for cls, strict, entries in boot_classes(rng):
            idx += 1
            if idx % nshards != shard:
                continue
            wc = w
            if "gel" in cls or "graph" in cls:  # GEL content only matters to a turn when the GEL / hybrid layers are on
                wc = copy.deepcopy(w)
                wc["profile"].update({"graph": True, "hybrid": True, "passes": True})
            case = {"world": wc, "cls": cls, "strict": strict, "entries": entries}
            _guarded(rec, case, check_bootfile, seen_sigs)
    run_hypothesis(rec, seed, boot_contents(), lambda c: check_bootfile(c, rec, ("generated",)), max_examples=n, shrink=shrink,
                   name="bootfiles")


# =====================================================================================================
# sub-check: boot_fuzz (optional atheris byte target in a child process)
# =====================================================================================================

def fuzz_case(data: bytes) -> dict:
    """bytes -> bootfile case (shared by the fuzz target and its replay). First byte picks the world and the file name."""
    sel = data[0] if data else 0
    multi = bool((sel >> 4) & 1)  # bit 4: two turns on the one state with the cross-turn consumers on
    w = gen_world(random.Random(1000 + (sel & 3)), boot=True, carry=multi)
    w["turns"] = w["turns"][:2] if multi else w["turns"][:1]
    w["profile"] = {"graph": True, "hybrid": True}
    name = ["state_A.json", "snap_000123.json", "anything.json", "state_zz.json"][(sel >> 2) & 3]
    body = data[1:]
    return {"world": w, "cls": "fuzz", "strict": classify_content(body) == "garbage",
            "entries": [{"name": name, "kind": "file", "hex": body.hex()}]}


def atheris_available() -> bool:
    try:
        import atheris  # noqa: F401
        return True
    except Exception:
        return False


def sub_boot_fuzz(rec, seed, shard, nshards, runs=300):
    if not atheris_available():
        rec.note("atheris", "not importable: fuzz sub-check skipped (the enumerated/Hypothesis sub-checks decide the property)")
        return
    _fast_tmp()
    verif = os.path.dirname(os.path.dirname(os.path.abspath(__file__)))
    target = os.path.join(verif, "fuzz", "c20_boot_fuzz.py")
    work = tempfile.mkdtemp(prefix="c20_fz_", dir=os.environ.get("VERIF_TMP") or None)
    try:
        corpus = os.path.join(work, "corpus")
        os.makedirs(corpus)
        own = own_snapshot_bytes()
        seeds = [b"\x00" + own, b"\x05" + own[: len(own) // 2], b"\x02[1,2]", b"\x03{\"version_etag\": [1]}",
                 b"\x01" + json.dumps({"mode": "delta", "delta_of": "5", "etag_to": "6"}).encode() + b"\n{}",
                 b"\x12[1,2]", b"\x16\"snapshot\"", b"\x1117", b"\x10" + own, b"\x1b" + b'{"mode": "full"}\n[1, 2, 3]']
        for i, s in enumerate(seeds):
            with open(os.path.join(corpus, f"seed{i}"), "wb") as f:
                f.write(s)
        env = dict(os.environ)
        env["C20_FUZZ_OUT"] = work
        env["C20_FUZZ_KNOWN"] = ",".join(sorted(rec.known))
        cmd = [sys.executable, target, f"-runs={int(runs)}", f"-seed={seed % (2 ** 31 - 1) + 1}", "-max_len=4096",
               f"-artifact_prefix={work}/", "-verbosity=0", corpus]
        p = subprocess.run(cmd, env=env, cwd=work, stdout=subprocess.PIPE, stderr=subprocess.STDOUT)
        out = p.stdout.decode(errors="replace")
        stats = {}
        sp = os.path.join(work, "stats.json")
        if os.path.exists(sp):
            with open(sp, "r", encoding="utf-8") as f:
                stats = json.load(f)
        execs = int(stats.get("execs", 0))
        rec.case(nontrivial=False, n=execs)
        for lb, k in (stats.get("labels") or {}).items():
            rec.label(lb, k)
        for d in stats.get("nontrivial", []):
            rec.case(nontrivial=True, dig=d, n=0)
        for fid, k in (stats.get("excluded") or {}).items():
            rec.excluded[fid] = rec.excluded.get(fid, 0) + int(k)
        rec.note("atheris_execs", execs)
        fp = os.path.join(work, "failure.json")
        if os.path.exists(fp):
            with open(fp, "r", encoding="utf-8") as f:
                fail = json.load(f)
            rec.violation("boot_fuzz: " + fail["message"], fail["case"], fail["sig"])
            return
        if p.returncode != 0 or execs == 0:
            raise RuntimeError(f"atheris target failed rc={p.returncode}\n{out[-3000:]}")
    finally:
        shutil.rmtree(work, ignore_errors=True)


# =====================================================================================================
# replay / registration
# =====================================================================================================

def _fix(case):
    """undo jsonable's float encoding inside a replayed case."""
    if isinstance(case, dict):
        if set(case) == {"__float__"}:
            return float(case["__float__"])
        return {k: _fix(v) for k, v in case.items()}
    if isinstance(case, list):
        return [_fix(v) for v in case]
    return case


def replay_faults(case):
    case = _fix(case)
    if case.get("direct") == "t3trace":
        check_t3trace_direct(case, None)
    else:
        check_faults(case, None)


def replay_boot(case):
    check_bootfile(_fix(case), None)


SUBCHECKS = [
    Sub("sites", sub_sites, quick={"worlds": 3}, thorough={"worlds": 48}, shards_quick=4, shards_thorough=16, replay=replay_faults),
    Sub("combos", sub_combos, quick={"n": 40}, thorough={"n": 400}, shards_quick=2, shards_thorough=8, replay=replay_faults),
    Sub("bootfiles", sub_bootfiles, quick={"worlds": 2, "n": 30}, thorough={"worlds": 12, "n": 500}, shards_quick=2, shards_thorough=8,
        replay=replay_boot),
    Sub("boot_fuzz", sub_boot_fuzz, quick={"runs": 200}, thorough={"runs": 10000}, shards_quick=1, shards_thorough=2, replay=replay_boot),
]

def probe_attrs() -> bool:
    """Minimal input of boot-gel-edge-attrs-unsanitized: one file, one edge with attrs null, graph.enabled, one turn."""
    w = gen_world(random.Random(7), boot=True)
    w["turns"] = w["turns"][:1]
    w["profile"] = {"graph": True}
    body = {"gel": {"edges": {"e1→e2": {"src": "e1", "dst": "e2", "weight": 0.5, "attrs": None}}}}
    f = run_world(w, profile_cfg(w), [], boot_entries=[{"name": "state_A.json", "kind": "file", "text": json.dumps(body)}], booting=True)
    return bool(f["exc"] and f["exc"][0] and "has no attribute 'get'" in f["exc"][0])


def probe_mmr() -> bool:
    """Minimal input of mmr-fault-drops-fusion-telemetry: metrics gate on, quality+MMR on, maybe_apply_mmr raises, one turn."""
    w = gen_world(random.Random(7), boot=False)
    w["turns"] = w["turns"][:1]
    w["profile"] = {"gate": True}
    try:
        check_faults({"world": w, "faults": [["quality.maybe_apply_mmr", "ValueError"]]}, None)
    except Violation as v:
        return v.sig == "diff:" + F_MMR
    return False


KNOWN_PROBES = {F_ATTRS: probe_attrs, F_MMR: probe_mmr}
