"""C12 — propagation follows the documented spreading rule within its budgets.

Oracles: (1) seeds == label/tag occurrence (ref); (2) reachability / once / id order / graph order;
(3) per-graph budgets; (4) decomposition over graphs; (5) exact differential vs. the reference propagator
(perf caps off); (6) store never modified; plus purity (same call twice, text/cfg untouched).

Sub-checks: `rule` (one call on a fresh state, decomposed per graph), `seq` (2-5 calls on ONE engine state with the
stage cache on: repeated identical calls, slice caps / active graphs / clock changing, store edits in between; every
call is compared with the reference), `turn` (real scheduled turns: the T1 the turn used and its t1.jsonl record).
"""
from __future__ import annotations

import bisect
import copy
import json
from types import SimpleNamespace

from hypothesis import strategies as st

from harness.runner import Sub, Violation, run_hypothesis, digest
from harness import world
from harness.models import t1 as ref

LEVEL = "exploration"
RULE = ("Hypothesis-generated worlds: 1-4 (sometimes 11-13) active concept graphs plus inactive ones in the same store, "
        "store order != active order, 0-8 nodes sharing ids across graphs (cycles, self-loops, parallel edges, ghost "
        "sources/targets, negative/zero weights, unknown relations, tags incl. None/duplicates/non-strings, multi-word and "
        "punctuated labels, a keyword planted in several graphs), input text biased to labels of nodes with out-edges "
        "(case variants, newline/tab/comma/no separators), T1 config over its own surface (decay modes incl. partial and "
        "string-valued dicts, multipliers incl. {}, radius/iter/layer/relax caps in {0,1,tight,loose,None}, node and queue "
        "budgets, result cache off/on/absent/0 entries/ttl 0) or a validated config (numbers also as strings), slice caps "
        "(0, None values, foreign keys, attribute None), perf caps/dedupe, perf.t1.cache (bytes cache), legacy queue_cap, "
        "perf.parallel.t1 fan-out, cfg as attribute-dict or Config object, state as dict or read-only view, edges built by "
        "upsert_edges or apply_deltas, ctx as namespace or the engine's TurnCtx. Sub-check seq: 2-5 calls on one state with "
        "the stage cache ON; a case-level mode picks what moves between the calls: repeat (identical calls over >= 2 graphs "
        "seeded by the same text), caps (slice caps), cfg (ONE t1 leaf patched per call, perf gate toggled), edits (ONE family "
        "of store edit: edge refresh / rewire / revert / new edge / relabel / new node via apply_deltas, upsert_*, "
        "read-modify-write, biased to edges near a seed), all (mixed); active graphs permuted/subset per call, logical clock "
        "absent / 0 / callable / jumping past the TTL, the caller extending the list it was handed. Sub-check turn: 2-3 real "
        "orchestrator turns (two agents, scheduler budgets t1_pops/t1_iters incl. 0 and None) — the T1 result the turn used "
        "and its t1.jsonl record against the reference under the derived slice caps. Non-trivial (rule) = some seed has an "
        "out-edge AND some cap binds; (seq) = a cache hit and (differing caps, an edit, or >= 2 graphs served from the "
        "cache); (turn) = scheduler on and a slice cap binds. Distinct = digest of the case.")
ASSUMPTIONS = ["reference propagator written from the documented rule (float64, same operation order as documented: "
               "w*weight*mult*decay; frontier kept as a sorted list via bisect — an adjusted copy of harness/models/t1.py "
               "lives in this module for speed); exact equality of ids and counters",
               "with perf caps on (frontier/visited/dedupe) only the budget/reachability/decomposition predicates "
               "are asserted, not the exact differential (caps legitimately prune); in seq every call under perf caps "
               "must equal the same call on a cold state (each call obeys the rule whatever the stage kept)",
               "case-insensitive = str.lower() containment (no casefold-only characters are generated)",
               "active graph ids always exist in the store (get_graph on an unknown id creates it by design)"]

COUNTERS = ["pops", "iters", "propagations", "radius_cap_hits", "layer_cap_hits", "node_budget_hits"]
EPS = 1e-6


# ---------------------------------------------------------------- reference (adjusted copy: sorted frontier via bisect)

def ref_one_graph(spec, text, cfg, slice_caps=None, info=None):
    """Same rule as harness.models.t1.ref_one_graph; the best-first frontier is kept sorted with bisect.insort instead of
    re-sorting on every pop (identical pop order: smallest (-|c|, node, c) first)."""
    seeds = ref.ref_seeds(spec, text)
    if not seeds:
        return [], dict(ref.ZERO)
    mult = cfg.get("edge_type_mult", ref.DEFAULT_MULT)
    nb = float(cfg.get("node_budget", 1.5))
    rc = int(cfg.get("radius_cap", 4))
    relax = cfg.get("relax_cap")
    qb, layers = ref.effective_caps(cfg, slice_caps)
    emap = {}
    for e in spec["edges"]:
        emap[e["id"]] = e
    out = {}
    for e in emap.values():
        out.setdefault(e["src"], []).append((e["dst"], float(e["w"]), e["rel"]))
    acc, dist, frontier = {}, {}, []
    for s in seeds:
        frontier.append((-1.0, s, 1.0))
        acc[s] = acc.get(s, 0.0) + 1.0
        dist[s] = 0
    frontier.sort()
    peak = len(frontier)
    dec = cfg.get("decay")
    dmemo = {}
    pops = props = lp = rh = lh = nh = 0
    stop = False
    while frontier and pops < qb and not stop:
        _, u, w = frontier.pop(0)
        pops += 1
        layer = dist.get(u, 0)
        if layer > 0 and layer > lp:
            lp = layer
            if lp > layers:
                continue
        if abs(acc.get(u, 0.0)) >= nb:
            nh += 1
            continue
        for v, ew, rel in out.get(u, []):
            if relax is not None and props >= int(relax):
                stop = True
                break
            d = dist[u] + 1
            if d > rc:
                rh += 1
                continue
            if d > layers:
                lh += 1
                continue
            if d not in dmemo:
                dmemo[d] = ref.decay(d, dec)
            c = w * ew * float(mult.get(rel, 0.6)) * dmemo[d]
            if abs(c) < EPS:
                continue
            acc[v] = acc.get(v, 0.0) + c
            props += 1
            if v not in dist or d < dist[v]:
                dist[v] = d
            if abs(acc[v]) < nb:
                bisect.insort(frontier, (-abs(c), v, c))
                peak = max(peak, len(frontier))
            else:
                nh += 1
            if relax is not None and props >= int(relax):
                stop = True
                break
    if info is not None:
        info["peak"] = peak  # largest frontier ever held (a frontier cap at or above it never trims)
    ids = [n for n in sorted(acc) if abs(acc[n]) >= EPS]
    return ids, {"pops": pops, "iters": min(lp, layers), "propagations": props, "radius_cap_hits": rh,
                 "layer_cap_hits": lh, "node_budget_hits": nh}


# ---------------------------------------------------------------- strategies

def _cap(loose):
    return st.one_of(st.sampled_from([0, 1, 2, 3]), st.just(loose))


NODE_IDS2 = world.NODE_IDS + ["n2", "n10"]
EXTRA_LABELS = ["green apple", "c++", "a.b", "KIWI", "éclair", "pea r"]
_LABELS2 = st.one_of(st.sampled_from(world.VOCAB), st.sampled_from(world.VOCAB), st.just(""), st.sampled_from(["zzz", "Plum", None]),
                     st.sampled_from(EXTRA_LABELS))
_TAGS2 = st.one_of(st.lists(st.one_of(st.sampled_from(world.VOCAB), st.sampled_from(["", 3, None, "c++"])), max_size=2),
                   st.lists(st.one_of(st.sampled_from(world.VOCAB), st.sampled_from(["", 3, None, "c++"])), max_size=2),
                   st.sampled_from([None, ["fig", "fig"], ["apple", "APPLE", "app"]]))
_WEIGHTS2 = st.one_of(st.sampled_from([1.0, 0.9, 0.5, 0.25, -0.5, -1.0, 0.0, 1e-7, 2.0, 1]),
                      st.floats(min_value=-1.5, max_value=1.5, allow_nan=False))


@st.composite
def graph_specs2(draw, max_nodes=8, max_edges=14, min_nodes=0):
    """As harness.world.graph_specs plus: edges leaving ids that are no node (ghost sources), a second ghost target, tags
    None / duplicated / equal to the label, labels with spaces and punctuation, ids whose sort order is not numeric."""
    nids = draw(st.lists(st.sampled_from(NODE_IDS2), min_size=min_nodes, max_size=max_nodes, unique=True))
    nodes = []
    for nid in nids:
        label = draw(_LABELS2)
        tags = draw(_TAGS2)
        if tags is not None and label and draw(st.sampled_from([False] * 7 + [True])):
            tags = list(tags) + [label]  # the node matches through its label AND a tag: still one seed of weight 1
        nodes.append({"id": nid, "label": label, "tags": tags})
    edges = []
    if nids:
        srcs = st.sampled_from(nids * 6 + ["ghost"])
        dsts = st.sampled_from(nids * 4 + ["ghost", "ghost", "ghost2"])
        for j in range(draw(st.integers(0, max_edges))):
            edges.append({"id": f"e{j}", "src": draw(srcs), "dst": draw(dsts), "w": draw(_WEIGHTS2), "rel": draw(st.sampled_from(world.RELS))})
    return {"nodes": nodes, "edges": edges}


def _kws(n):
    out = [n["label"]] if n.get("label") else []
    out += [t for t in (n.get("tags") or []) if isinstance(t, str) and t]
    return out


@st.composite
def texts2(draw, graphs):
    """Input text biased towards keywords of nodes with out-edges; several separators and case variants."""
    words = []
    for spec in graphs.values():
        srcs = {e["src"] for e in spec["edges"]}
        for n in spec["nodes"]:
            words.extend(_kws(n) * (3 if n["id"] in srcs else 1))
    pool = words or world.VOCAB
    chosen = [draw(st.sampled_from(pool)) for _ in range(draw(st.integers(0, 4)))]
    noise = draw(st.lists(st.sampled_from(["the", "of", "xyz", "PINEAPPLE", "äpfelkuchen", "", "axb", "green", "c"]), max_size=2))
    parts = draw(st.permutations(chosen + noise))
    sep = draw(st.sampled_from([" "] * 6 + ["\n", "\t", ", ", ""]))
    text = sep.join(parts)
    return draw(st.sampled_from([text, text.upper(), text.lower(), text]))


@st.composite
def t1_cfgs(draw):
    cfg = {}
    cache = draw(st.sampled_from(["off"] * 5 + ["on", "absent", "zero"]))
    if cache == "off":
        cfg["cache"] = {"enabled": False}
    elif cache == "on":
        cfg["cache"] = {"enabled": True, "max_entries": draw(st.sampled_from([1, 2, 512])), "ttl_s": draw(st.sampled_from([0, 300]))}
    elif cache == "zero":
        cfg["cache"] = {"max_entries": 0}
    mode = draw(st.sampled_from(["exp_floor", "exp_floor", "partial", "attn_quad", "attn_quad", "absent", "empty", "partial"]))
    if mode == "exp_floor":
        cfg["decay"] = {"mode": "exp_floor", "rate": draw(st.sampled_from([0.6, 0.9, 0.3, 1.0, 0.0])),
                        "floor": draw(st.sampled_from([0.05, 0.0, 0.5, 1.0]))}
    elif mode == "attn_quad":
        cfg["decay"] = {"mode": "attn_quad", "alpha": draw(st.sampled_from([0.8, 0.0, 2.0, 0.1]))}
    elif mode == "empty":
        cfg["decay"] = {}
    elif mode == "partial":  # leaves left to their documented defaults, numbers as strings (the validator's "number")
        cfg["decay"] = draw(st.sampled_from([{"mode": "exp_floor"}, {"mode": "attn_quad"}, {"mode": "attn_quad"}, {"rate": 0.9}, {"floor": 0.5},
                                             {"mode": "exp_floor", "rate": "0.5", "floor": "0.1"}, {"alpha": 0.1},
                                             {"mode": "attn_quad", "alpha": "0.5", "rate": 0.0, "floor": 1.0},
                                             {"mode": "exp_floor", "alpha": 5.0, "rate": 0.8}]))
    if draw(st.booleans()):
        cfg["edge_type_mult"] = draw(st.sampled_from([
            {"supports": 1.0, "associates": 0.6, "contradicts": 0.8},
            {"supports": 1.0, "associates": 1.0, "contradicts": -1.0},
            {"supports": 0.5}, {"supports": 2.0, "associates": 0.0, "contradicts": 0.8, "weird": 1.0},
            {}, {"supports": "0.5", "associates": 1, "weird": "-1"}]))
    if draw(st.booleans()):
        cfg["queue_budget"] = draw(st.sampled_from([0, 1, 2, 3, 5, 8, 10000]))
    if draw(st.booleans()):
        cfg["node_budget"] = draw(st.sampled_from([0.5, 1.0, 1.5, 1.0001, 3.0, 100.0]))
    if draw(st.booleans()):
        cfg["radius_cap"] = draw(_cap(4))
    if draw(st.booleans()):
        cfg["iter_cap"] = draw(_cap(50))
    if draw(st.booleans()):
        cfg["iter_cap_layers"] = draw(_cap(50))
    if draw(st.sampled_from([True, False, False, False])):
        cfg["relax_cap"] = draw(st.sampled_from([None, 0, 1, 2, 3, 5]))
    return cfg


@st.composite
def motif_graph(draw):
    """Two-path motif: from a seed s a SHORT weak path and a LONG strong path join at j, followed by a tail.  Best-first
    expansion reaches j over the long path first; hop distances must then be relaxed when the short path arrives, and
    the radius/layer caps decide whether the tail is reached.  Returns (spec, seed_label, suggested radius)."""
    l_short = draw(st.integers(1, 2))
    l_long = l_short + draw(st.integers(1, 2))
    tail = draw(st.integers(1, 2))
    nodes = [{"id": "s", "label": "apple", "tags": []}]
    edges = []

    def add_path(prefix, length, w, rel):
        prev = "s"
        for i in range(length - 1):
            nid = f"{prefix}{i}"
            nodes.append({"id": nid, "label": draw(st.sampled_from(["", "zzz", "fig"])), "tags": []})
            edges.append({"id": f"e{len(edges)}", "src": prev, "dst": nid, "w": w, "rel": rel})
            prev = nid
        edges.append({"id": f"e{len(edges)}", "src": prev, "dst": "j", "w": w, "rel": rel})

    strong_first = draw(st.booleans())
    order = [("L", l_long, draw(st.sampled_from([1.0, 0.95])), "supports"), ("S", l_short, draw(st.sampled_from([0.05, 0.1, 0.2])), "associates")]
    if not strong_first:
        order.reverse()
    for pfx, ln, w, rel in order:
        add_path(pfx, ln, w, rel)
    nodes.append({"id": "j", "label": "zzz", "tags": []})
    prev = "j"
    for i in range(tail):
        nid = f"t{i}"
        nodes.append({"id": nid, "label": "", "tags": []})
        edges.append({"id": f"e{len(edges)}", "src": prev, "dst": nid, "w": 1.0, "rel": "supports"})
        prev = nid
    for _ in range(draw(st.integers(0, 2))):  # a little noise
        a, b = draw(st.sampled_from(nodes))["id"], draw(st.sampled_from(nodes))["id"]
        edges.append({"id": f"e{len(edges)}", "src": a, "dst": b, "w": draw(st.sampled_from([0.3, -0.4, 0.0])), "rel": "supports"})
    radius = l_short + draw(st.integers(0, tail))
    return {"nodes": nodes, "edges": edges}, radius


GIDS = ["g1", "g2", "G", "γ", "g10", "main"]
MANY_GIDS = [f"k{i}" for i in range(14)]  # "k10" sorts before "k2"
SLICE_EXTRA = {"t2_k": 64, "t3_ops": 3, "wall_ms": 200, "quantum_ms": 20}


@st.composite
def perf_cfgs(draw, force_parallel=False):
    """perf subtree: caps/dedupe (PR31), bytes cache (PR32), metrics gate, parallel fan-out (PR66) — None when nothing drawn."""
    perf = {}
    if draw(st.sampled_from([True, False, False, False])):
        perf["t1"] = {"caps": {"frontier": draw(st.sampled_from([0, 1, 2, 100])), "visited": draw(st.sampled_from([0, 1, 2, 100]))},
                      "dedupe_window": draw(st.sampled_from([0, 1, 4]))}
        if draw(st.integers(0, 2)) == 1:  # a frontier cap alone: exact rule whenever the frontier never outgrows it
            perf["t1"] = {"caps": {"frontier": draw(st.sampled_from([1, 2, 3, 5, 100]))}}
        if draw(st.sampled_from([False, False, False, True])):  # legacy spelling (normalised by the validator only)
            perf["t1"]["queue_cap"] = draw(st.sampled_from([1, 2, 100]))
            if draw(st.booleans()):
                del perf["t1"]["caps"]["frontier"]
        perf["metrics"] = {"report_memory": draw(st.booleans())}
    if draw(st.sampled_from([True] + [False] * 5)):
        perf.setdefault("t1", {})["cache"] = draw(st.sampled_from([{"max_entries": 8, "max_bytes": 100000}, {"max_entries": 1}, {"max_bytes": 200},
                                                                   {"max_entries": 0, "max_bytes": 0}, {"max_entries": 2, "max_bytes": 1}]))
    if force_parallel or draw(st.sampled_from([True, False, False, False])):
        perf["parallel"] = draw(st.sampled_from([{"enabled": True, "t1": True, "max_workers": 2}, {"enabled": True, "t1": True, "max_workers": 4},
                                                 {"enabled": True, "t1": True, "max_workers": 2}, {"enabled": True, "t1": True, "max_workers": 1},
                                                 {"enabled": True, "t1": False, "max_workers": 4}, {"enabled": False, "t1": True, "max_workers": 4}]))
    if not perf:
        return None
    perf["enabled"] = draw(st.sampled_from([True, True, False]))
    return perf


def _perf_legal(perf):
    """True when the perf subtree would pass the repo's validator unchanged in meaning (caps/dedupe >= 1)."""
    t1 = perf.get("t1") or {}
    vals = list((t1.get("caps") or {}).values()) + ([t1["dedupe_window"]] if "dedupe_window" in t1 else [])
    return all(int(v) >= 1 for v in vals)


@st.composite
def slice_caps(draw):
    if not draw(st.sampled_from([True, False, False])):
        return None
    sc = {}
    if draw(st.booleans()):
        sc["t1_iters"] = draw(st.sampled_from([0, 1, 2, 50, None]))
    if draw(st.booleans()):
        sc["t1_pops"] = draw(st.sampled_from([0, 1, 2, 4, 10000, None]))
    if draw(st.sampled_from([True, False, False])):
        sc.update(SLICE_EXTRA)  # what the orchestrator's _derive_budgets hands over besides the T1 keys
    return sc


@st.composite
def cases(draw, for_seq=False, multi=False):
    """multi=True: >= 2 active graphs, every graph non-empty and carrying the planted keyword, the text contains it."""
    many = draw(st.integers(0, 11)) == 5
    if many:
        ng = draw(st.integers(11, 13))
        gids = draw(st.lists(st.sampled_from(MANY_GIDS), min_size=ng, max_size=ng, unique=True))
        graphs = {gid: draw(graph_specs2(max_nodes=3, max_edges=3, min_nodes=1 if multi else 0)) for gid in gids}
    else:
        ng = draw(st.integers(2 if multi else 1, 4))
        gids = draw(st.lists(st.sampled_from(GIDS), min_size=ng, max_size=ng, unique=True))
        graphs = {gid: draw(graph_specs2(min_nodes=1 if multi else 0)) for gid in gids}
    # graphs present in the store but NOT active (must be ignored), store insertion order != active order
    inactive = []
    if not many and draw(st.sampled_from([True, False, False])):
        inactive = draw(st.lists(st.sampled_from([g for g in GIDS + ["zz"] if g not in gids]), min_size=1, max_size=2, unique=True))
        for g in inactive:
            graphs[g] = draw(graph_specs2(max_nodes=4, max_edges=5))
    store_order = list(draw(st.permutations(gids + inactive))) if draw(st.booleans()) else gids + inactive
    # one keyword planted in several graphs (label or tag, any case): several graphs are seeded by the same text
    plant = None
    if multi or draw(st.integers(0, 2)) != 1:
        plant = draw(st.sampled_from(["kiwi", "fig", "green apple", "Äpfel", "nut"]))
        for gid in gids + inactive:
            ns = graphs[gid]["nodes"]
            if ns and (multi or draw(st.integers(0, 2)) != 1):
                srcs = {e["src"] for e in graphs[gid]["edges"]}
                with_out = [k for k, x in enumerate(ns) if x["id"] in srcs]
                n = ns[draw(st.sampled_from(with_out)) if (with_out and draw(st.integers(0, 3))) else draw(st.integers(0, len(ns) - 1))]
                form = draw(st.sampled_from([plant, plant.upper(), plant.capitalize()]))
                if n.get("tags") is not None and draw(st.sampled_from([False, False, True])):
                    n["tags"] = list(n["tags"]) + [form]
                else:
                    n["label"] = form
    text = draw(texts2(graphs))
    if plant is not None and (multi or draw(st.integers(0, 3)) != 1):
        text = (text + draw(st.sampled_from([" ", "\n", ","])) + draw(st.sampled_from([plant, plant.lower(), plant.upper()]))).strip(" ")
    motif_radius = None
    if draw(st.sampled_from([True, False, False])):
        spec, motif_radius = draw(motif_graph())
        graphs[gids[0]] = spec
        text = (text + " apple").strip()
    use_validated = draw(st.sampled_from([False] * 5 + [True]))
    if use_validated:
        t1 = None
        num = lambda v: draw(st.sampled_from([v, v, str(v)]))  # noqa: E731  numbers as strings pass the validator
        over = {"t1": {"cache": {"enabled": draw(st.sampled_from([False, False, True])), "max_entries": 8, "ttl_s": 60}}}
        if draw(st.booleans()):
            over["t1"]["radius_cap"] = num(draw(st.sampled_from([0, 1, 2, 4])))
        if draw(st.booleans()):
            over["t1"]["queue_budget"] = num(draw(st.sampled_from([1, 2, 3, 10000])))
        if draw(st.booleans()):
            over["t1"]["iter_cap"] = num(draw(st.sampled_from([1, 2, 50])))
        if draw(st.booleans()):
            over["t1"]["node_budget"] = num(draw(st.sampled_from([0.5, 1.0, 1.5, 3.0])))
        if draw(st.sampled_from([True, False, False])):
            over["t1"]["decay"] = draw(st.sampled_from([{"mode": "attn_quad", "alpha": "0.5"}, {"mode": "exp_floor", "rate": 0.9}, {}]))
        if draw(st.sampled_from([True, False, False])):
            over["t1"]["edge_type_mult"] = draw(st.sampled_from([{"supports": "0.5"}, {}, {"associates": 1, "weird": 2.0}]))
    else:
        t1 = draw(t1_cfgs())
        over = None
        if motif_radius is not None and draw(st.booleans()):
            t1["radius_cap"] = motif_radius
            t1["node_budget"] = 100.0
            t1.pop("relax_cap", None)
            t1.pop("queue_budget", None)
            if draw(st.booleans()):
                t1.pop("iter_cap", None)
                t1.pop("iter_cap_layers", None)
            t1["decay"] = draw(st.sampled_from([{"mode": "exp_floor", "rate": 0.9, "floor": 0.05}, {"mode": "attn_quad", "alpha": 0.1}]))
    sc = draw(slice_caps())
    perf = draw(perf_cfgs(force_parallel=many and draw(st.booleans())))
    shape = {"cfg": draw(st.sampled_from(["attr", "attr", "config"])), "state": draw(st.sampled_from(["dict", "dict", "dict", "view"])),
             "slice_attr": draw(st.booleans()), "edges_via": draw(st.sampled_from(["upsert", "upsert", "deltas", "deltas_each"])),
             "perf_validated": draw(st.booleans()), "ctx": draw(st.sampled_from(["ns", "turnctx", "ns"])),
             "clock_callable": draw(st.integers(0, 3)) == 1}
    return {"graphs": graphs, "order": gids, "text": text, "t1": t1, "validated": over, "slice": sc, "perf": perf,
            "store_order": store_order, "shape": shape}


# ---------------------------------------------------------------- running the real stage

def _plain(x):
    if isinstance(x, dict):
        return {k: _plain(v) for k, v in x.items()}
    if isinstance(x, list):
        return [_plain(v) for v in x]
    return x


def _shape(case):
    return case.get("shape") or {}


def _cfg_of(case):
    """(cfg object handed to the stage, plain dict of the t1 section the reference reads)."""
    shape = _shape(case)
    perf = copy.deepcopy(case["perf"]) if case.get("perf") is not None else None
    if case["validated"] is not None:
        over = copy.deepcopy(case["validated"])
        if perf is not None and shape.get("perf_validated") and _perf_legal(perf):
            over["perf"] = perf  # the validator normalises it (queue_cap -> caps.frontier)
            perf = None
        cfg = world.validated_cfg(over)
        if perf is not None:
            cfg["perf"] = world.to_attr(world.deep_merge(dict(cfg.get("perf") or {}), perf))
    else:
        base = {"t1": copy.deepcopy(case["t1"])}
        if perf is not None:
            base["perf"] = perf
        cfg = world.to_attr(base)
    t1cfg = _plain(dict(cfg["t1"]))
    if shape.get("cfg") == "config":
        # object-shaped configuration: the engine's own Config dataclass holding plain dicts
        from clematis.engine.types import Config

        obj = Config()
        obj.t1 = _plain(dict(cfg["t1"]))
        if cfg.get("perf") is not None:
            obj.perf = _plain(dict(cfg["perf"]))
        cfg = obj
    return cfg, t1cfg


def _cfg_snapshot(cfg):
    if isinstance(cfg, dict):
        return copy.deepcopy(dict(cfg))
    return copy.deepcopy({"t1": cfg.t1, "perf": getattr(cfg, "perf", None)})


def perf_view(cfg):
    p = cfg.get("perf") if isinstance(cfg, dict) else getattr(cfg, "perf", None)
    return _plain(dict(p)) if p else {}


def perf_caps_active(cfg):
    p = perf_view(cfg)
    if not p or not p.get("enabled"):
        return False
    t1 = p.get("t1") or {}
    caps = t1.get("caps") or {}
    return bool(caps.get("frontier") or caps.get("visited") or t1.get("dedupe_window"))


def parallel_on(cfg):
    pp = (perf_view(cfg).get("parallel") or {})
    return bool(pp.get("enabled") and pp.get("t1") and int(pp.get("max_workers") or 0) > 1)


class StateView:
    """A state that is not a dict (read-only mapping view): the stage cache then lives in the process-level slot."""

    def __init__(self, d):
        self._d = d

    def get(self, k, default=None):
        return self._d.get(k, default)

    def __getitem__(self, k):
        return self._d[k]

    def __contains__(self, k):
        return k in self._d


def build_store(case, graphs=None):
    """Store holding case['store_order'] graphs; edges through upsert_edges or the Apply stage's apply_deltas."""
    from clematis.graph.store import InMemoryGraphStore
    from clematis.engine.types import Node, Edge

    graphs = case["graphs"] if graphs is None else graphs
    via = _shape(case).get("edges_via", "upsert")
    store = InMemoryGraphStore()
    for gid in case.get("store_order") or case["order"]:
        spec = graphs[gid]
        store.ensure(gid)
        if spec["nodes"]:
            store.upsert_nodes(gid, [Node(id=n["id"], label=n["label"], attrs=({"tags": list(n["tags"])} if n.get("tags") is not None else {}))
                                     for n in spec["nodes"]])
        if spec["edges"]:
            if via == "upsert":
                store.upsert_edges(gid, [Edge(id=e["id"], src=e["src"], dst=e["dst"], weight=e["w"], rel=e["rel"]) for e in spec["edges"]])
            else:
                ds = [{"op": "upsert_edge", "id": e["id"], "src": e["src"], "dst": e["dst"], "weight": e["w"], "rel": e["rel"]} for e in spec["edges"]]
                if via == "deltas":
                    store.apply_deltas(gid, ds)
                else:
                    for d in ds:
                        store.apply_deltas(gid, [d])
    return store


def make_ctx(case, cfg, slice_, turn_id=1, agent="A", now_ms=None):
    if _shape(case).get("ctx") == "turnctx":
        from clematis.engine.types import TurnCtx  # the engine's own context dataclass (no .config, no clock)

        ctx = TurnCtx(turn_id=str(turn_id), agent_id=agent, scene_tags=[], now=world.NOW_ISO, cfg=cfg)
    else:
        ctx = SimpleNamespace(cfg=cfg, config=cfg, agent_id=agent, turn_id=turn_id)
    if slice_ is not None:
        ctx.slice_budgets = dict(slice_)
    elif _shape(case).get("slice_attr"):
        ctx.slice_budgets = None  # what the orchestrator leaves behind when delattr fails
    if now_ms is not None:
        ctx.now_ms = (lambda _v=now_ms: _v) if _shape(case).get("clock_callable") else now_ms
    return ctx


def make_state(case, store, gids):
    d = {"store": store, "active_graphs": list(gids)}
    return StateView(d) if _shape(case).get("state") == "view" else d


def run_t1(case, gids=None):
    from clematis.engine.stages.t1 import t1_propagate

    world.reset_engine_globals()
    cfg, _ = _cfg_of(case)
    gids = list(case["order"] if gids is None else gids)
    store = build_store(case)
    ctx = make_ctx(case, cfg, case["slice"])
    state = make_state(case, store, gids)
    before = world.store_digest(store)
    cfg_before = _cfg_snapshot(cfg)
    res = t1_propagate(ctx, state, case["text"])
    after = world.store_digest(store)
    return res, before, after, (cfg_before == _cfg_snapshot(cfg)), ctx, state


def _need_counters(res, case, where=""):
    """The result must carry the documented counters as integers (a missing one is a property failure, not a harness error)."""
    m = getattr(res, "metrics", None)
    bad = [k for k in COUNTERS if not isinstance(m, dict) or isinstance(m.get(k), bool) or not isinstance(m.get(k), int)]
    if bad:
        raise Violation(f"{where}T1 metrics lack integer counters {bad}: {m!r}"[:600], case, "counter-missing")
    if not isinstance(getattr(res, "graph_deltas", None), list):
        raise Violation(f"{where}graph_deltas is {type(getattr(res, 'graph_deltas', None)).__name__}, not a list", case, "delta-shape")


def _check_shape(deltas, case, where=""):
    for d in deltas:
        if not isinstance(d, dict) or set(d) != {"op", "id"} or d["op"] != "upsert_node":
            raise Violation(f"{where}unexpected delta shape {d!r}", case, "delta-shape")


def check_case(case, rec=None):
    cfg, t1cfg = _cfg_of(case)
    try:
        res, before, after, cfg_same, ctx, state = run_t1(case)
    except Exception as e:
        raise Violation(f"t1_propagate raised {type(e).__name__}: {e}", case, "raises")
    if before != after:
        raise Violation("t1_propagate modified the graph store", case, "store-modified")
    if not cfg_same:
        raise Violation("t1_propagate modified the configuration", case, "cfg-modified")
    _need_counters(res, case)
    m = res.metrics
    deltas = res.graph_deltas
    _check_shape(deltas, case)

    # second call: pure
    try:
        res2 = run_t1(case)[0]
    except Exception as e:
        raise Violation(f"second identical call: t1_propagate raised {type(e).__name__}: {e}", case, "raises")
    _need_counters(res2, case, "second call: ")
    if res2.graph_deltas != deltas or {k: res2.metrics[k] for k in COUNTERS} != {k: m[k] for k in COUNTERS}:
        raise Violation("two identical calls differ", case, "nondeterministic")

    # (4) decomposition: per-graph runs (also yields per-graph figures for the budget predicates)
    per = []
    for gid in case["order"]:
        try:
            r, b, a, _, _, _ = run_t1(case, gids=[gid])
        except Exception as e:
            raise Violation(f"graph {gid} alone: t1_propagate raised {type(e).__name__}: {e}", case, "raises")
        if b != a:
            raise Violation("t1_propagate modified the graph store", case, "store-modified")
        _need_counters(r, case, f"graph {gid} alone: ")
        per.append((gid, r))
    cat = [d for _, r in per for d in r.graph_deltas]
    if cat != deltas:
        raise Violation(f"result over {case['order']} is not the concatenation of the per-graph results in "
                        f"active_graphs order: {[d['id'] for d in deltas]} vs {[d['id'] for d in cat]}", case, "decomposition")
    for k in COUNTERS:
        if sum(r.metrics[k] for _, r in per) != m[k]:
            raise Violation(f"counter {k}={m[k]} is not the sum of per-graph counters "
                            f"{[r.metrics[k] for _, r in per]}", case, "decomposition-counter")
    if m.get("graphs_touched") != len(case["order"]):
        raise Violation(f"graphs_touched={m.get('graphs_touched')} for {len(case['order'])} active graphs", case, "graphs-touched")

    qb, layers = ref.effective_caps(t1cfg, case["slice"])
    rc = int(t1cfg.get("radius_cap", 4))
    relax = t1cfg.get("relax_cap")
    caps_on = perf_caps_active(cfg)
    any_seed_out = False
    binding = False
    seeded_graphs = 0
    multi_kw = False
    slack_frontier = False
    for gid, r in per:
        spec = case["graphs"][gid]
        ids = [d["id"] for d in r.graph_deltas]
        seeds = ref.ref_seeds(spec, case["text"])
        mm = r.metrics
        # (1) seeds
        if not seeds:
            if ids or any(mm[k] for k in COUNTERS):
                raise Violation(f"graph {gid}: no label/tag occurs in the text but T1 reported {ids} / {mm}", case, "seedless-work")
            continue
        seeded_graphs += 1
        tl = case["text"].lower()
        if any(sum(1 for kw in _kws(n) if kw.lower() in tl) > 1 for n in spec["nodes"]):
            multi_kw = True
        # every seed is reported unless a negative contribution cancelled it; a reported node with no path is wrong
        # (2) once, ascending, reachable
        if len(set(ids)) != len(ids):
            raise Violation(f"graph {gid}: node reported twice: {ids}", case, "dup-node")
        if ids != sorted(ids):
            raise Violation(f"graph {gid}: ids not ascending: {ids}", case, "id-order")
        reach = ref.reachable_within(spec, seeds, min(rc, layers))
        bad = [i for i in ids if i not in reach]
        if bad:
            raise Violation(f"graph {gid}: reported {bad} not reachable from seeds {seeds} within "
                            f"min(radius_cap={rc}, layers={layers}) hops", case, "unreachable")
        # (3) budgets
        if mm["pops"] > qb:
            raise Violation(f"graph {gid}: pops={mm['pops']} exceeds budget {qb}", case, "pops-budget")
        if mm["iters"] > layers:
            raise Violation(f"graph {gid}: iters={mm['iters']} exceeds layer cap {layers}", case, "iters-budget")
        if relax is not None and mm["propagations"] > int(relax):
            raise Violation(f"graph {gid}: propagations={mm['propagations']} exceeds relax_cap {relax}", case, "relax-budget")
        srcs = {e["src"] for e in spec["edges"]}
        if any(s in srcs for s in seeds):
            any_seed_out = True
        if mm["radius_cap_hits"] or mm["layer_cap_hits"] or mm["node_budget_hits"] or mm["pops"] == qb or \
                (relax is not None and mm["propagations"] >= int(relax)):
            binding = True
        # (5) exact differential — also when the only perf cap is a frontier cap the frontier never outgrows
        info = {}
        want_ids, want_m = ref_one_graph(spec, case["text"], t1cfg, case["slice"], info)
        exact = not caps_on
        if caps_on:
            pt1 = perf_view(cfg).get("t1") or {}
            fcap = int((pt1.get("caps") or {}).get("frontier") or 0)
            if not int((pt1.get("caps") or {}).get("visited") or 0) and not int(pt1.get("dedupe_window") or 0) and \
                    info["peak"] <= min(fcap, qb):
                exact = True
                slack_frontier = True
            # seeds keep their unit activation whatever is pruned: without negative contributions each one is reported
            mult = t1cfg.get("edge_type_mult", ref.DEFAULT_MULT)
            if all(float(e["w"]) * float(mult.get(e["rel"], 0.6)) >= 0 for e in spec["edges"]):
                lost = [x for x in seeds if x not in ids]
                if lost:
                    raise Violation(f"graph {gid}: seeds {lost} (label/tag occurs in the text, no negative edge) are not reported: {ids}",
                                    case, "seed-not-reported")
        if exact:
            if want_ids != ids:
                raise Violation(f"graph {gid}: touched {ids}, documented rule gives {want_ids} (seeds {seeds})", case, "ref-ids")
            got_m = {k: mm[k] for k in COUNTERS}
            if got_m != want_m:
                raise Violation(f"graph {gid}: counters {got_m}, documented rule gives {want_m}", case, "ref-counters")
            # seeds must all be within ids unless cancelled (covered by the differential)

    if rec is not None:
        nt = any_seed_out and binding
        shape = _shape(case)
        n_active = len(case["order"])
        labels = [f"graphs={n_active if n_active <= 4 else '>10'}"] + (["seed_out"] if any_seed_out else []) + (["binding"] if binding else []) + \
                 (["perf_caps"] if caps_on else []) + (["perf_frontier_cap_slack_exact"] if slack_frontier else []) + \
                 (["slice"] if case["slice"] else []) + \
                 (["validated"] if case["validated"] is not None else []) + (["deltas>0"] if deltas else []) + \
                 (["motif"] if any(n["id"] == "j" for g in case["graphs"].values() for n in g["nodes"]) else []) + \
                 (["seeded_graphs>=2"] if seeded_graphs >= 2 else []) + (["seed_by_2_keywords"] if multi_kw else []) + \
                 (["parallel"] if parallel_on(cfg) else []) + (["cfg_object"] if shape.get("cfg") == "config" else []) + \
                 (["state_view"] if shape.get("state") == "view" else []) + (["ctx_TurnCtx"] if shape.get("ctx") == "turnctx" else []) + \
                 (["inactive_graphs"] if len(case.get("store_order") or case["order"]) > n_active else []) + \
                 (["bytes_cache"] if ((perf_view(cfg).get("t1") or {}).get("cache") and perf_view(cfg).get("enabled")) else []) + \
                 ([f"edges_via={shape.get('edges_via', 'upsert')}"]) + \
                 (["slice_none_value"] if case["slice"] and any(case["slice"].get(k, 0) is None for k in ("t1_pops", "t1_iters")) else [])
        rec.case(nontrivial=nt, dig=digest(case) if nt else None, labels=labels,
                 sample={"text": case["text"], "graphs": {g: {"nodes": [(n["id"], n["label"]) for n in s["nodes"]],
                                                              "edges": [(e["src"], e["dst"], e["w"], e["rel"]) for e in s["edges"]][:8]}
                                                          for g, s in list(case["graphs"].items())[:2]},
                         "t1": case["t1"] or case["validated"], "slice": case["slice"],
                         "result": [d["id"] for d in deltas], "metrics": {k: m[k] for k in COUNTERS}} if nt else None)


# ---------------------------------------------------------------- sequences on one engine state (stage cache ON)

CAPS_POOL = [None, {}, {"t1_pops": 1}, {"t1_pops": 2, "t1_iters": 1}, {"t1_iters": 0}, {"t1_iters": 2}, {"t1_pops": 10000, "t1_iters": 50},
             {"t1_pops": 0}, {"t1_pops": None, "t1_iters": 50, **SLICE_EXTRA}]


@st.composite
def seq_cases(draw):
    """2-5 calls on ONE state with the T1 result cache enabled.  A case-level mode decides which families of change
    happen between the calls: `repeat` = identical calls over >= 2 graphs seeded by the same text (served from the cache;
    only the active-graph order, the clock and the agent may move), `caps` = slice caps change, `edits` = the store is
    edited through every writer it has (and reverted), `cfg` = one config leaf differs per call, `all` = everything.
    Whatever the stage keeps between calls, every single call must still obey the rule."""
    mode = draw(st.sampled_from(["repeat", "caps", "edits", "edits", "cfg", "cfg", "cfg", "all", "all", "repeat"]))
    base = draw(cases(for_seq=True, multi=(mode in ("repeat", "cfg"))))
    base["mode"] = mode
    roomy = mode in ("repeat", "cfg") and draw(st.integers(0, 4)) != 2  # room and time for every graph's entry to survive
    if base["validated"] is not None:
        base["validated"]["t1"]["cache"] = {"enabled": True, "max_entries": 64 if roomy else draw(st.sampled_from([1, 2, 8])),
                                            "ttl_s": 300 if roomy else draw(st.sampled_from([300, 300, 1, 0]))}
    elif roomy:
        base["t1"]["cache"] = draw(st.sampled_from([{"enabled": True}, {}, {"enabled": True, "max_entries": 64, "ttl_s": 300}]))
    else:
        base["t1"]["cache"] = draw(st.sampled_from([{"enabled": True}, {"enabled": True, "max_entries": 2}, {"enabled": True}, {},
                                                    {"enabled": True, "max_entries": 64, "ttl_s": 1}, {"max_entries": 1, "ttl_s": 300}]))
    if mode == "cfg" and draw(st.integers(0, 3)) != 1:
        # the other caps stay at their loose defaults, so the leaf that moves decides what is touched
        tgt = base["validated"]["t1"] if base["validated"] is not None else base["t1"]
        for k in ("queue_budget", "iter_cap", "iter_cap_layers", "relax_cap", "radius_cap", "node_budget"):
            tgt.pop(k, None)
    texts = [base["text"], base["text"], draw(texts2(base["graphs"]))]
    all_gids = list(base.get("store_order") or base["order"])
    vary_caps = mode in ("caps", "all")
    vary_cfg = mode in ("cfg", "all")
    vary_graph = mode in ("edits", "all")
    calls = []
    text, sl = base["text"], draw(st.sampled_from(CAPS_POOL))
    # mode cfg: ONE leaf of the T1 config moves between otherwise identical calls
    leaf_pools = {"radius_cap": [{"radius_cap": v} for v in (0, 0, 1, 2, 4)], "node_budget": [{"node_budget": v} for v in (0.5, 0.5, 1.0, 3.0)],
                  "queue_budget": [{"queue_budget": v} for v in (1, 1, 2, 10000)], "iter_cap": [{"iter_cap": v} for v in (0, 0, 1, 50)],
                  # incl. settings that stop all spreading (decay 0 beyond the seed / every multiplier 0): a result kept
                  # from the other setting is then visibly wrong whatever the graph
                  "decay": [{"decay": {"mode": "attn_quad", "alpha": 0.1}}, {"decay": {"mode": "exp_floor", "rate": 0.9, "floor": 0.0}},
                            {"decay": {"mode": "exp_floor", "rate": 0.0, "floor": 0.0}}, {"decay": {"mode": "exp_floor", "rate": 0.0, "floor": 0.0}},
                            {"decay": {"mode": "attn_quad", "alpha": 1e9}}],
                  "edge_type_mult": [{"edge_type_mult": {"supports": 0.5, "associates": 1.0}}, {"edge_type_mult": {}},
                                     {"edge_type_mult": {"supports": 0, "associates": 0, "contradicts": 0, "weird": 0}},
                                     {"edge_type_mult": {"supports": 0, "associates": 0, "contradicts": 0, "weird": 0}},
                                     {"edge_type_mult": {"supports": 1.0, "associates": -1.0, "weird": 1.0}}]}
    if base["validated"] is None:
        leaf_pools["iter_cap_layers"] = [{"iter_cap_layers": v} for v in (0, 0, 1, 2)]
        leaf_pools["relax_cap"] = [{"relax_cap": v} for v in (0, 0, 1, 2, None)]
    leaf = draw(st.sampled_from(sorted(leaf_pools))) if mode == "cfg" else None
    for i in range(draw(st.integers(3 if mode == "cfg" else 2, 5))):
        if i and mode not in ("repeat", "cfg") and draw(st.integers(0, 2)) == 1:
            text = draw(st.sampled_from(texts))
        if i and vary_caps and draw(st.booleans()):
            sl = draw(st.sampled_from(CAPS_POOL))
        c = {"text": text, "slice": copy.deepcopy(sl)}
        if draw(st.integers(0, 3)) == 1:
            perm = list(draw(st.permutations(all_gids)))
            c["active"] = perm if mode in ("repeat", "cfg") else perm[:draw(st.integers(1, len(all_gids)))]
        if draw(st.integers(0, 2)) == 1:
            c["dt_ms"] = draw(st.sampled_from([1, 1000, 299000, 301000, 10 ** 7]))
        if draw(st.integers(0, 3)) == 1:
            c["agent"] = draw(st.sampled_from(["B", "world"]))
        if draw(st.integers(0, 3)) == 1:
            c["extend_result"] = True
        # mode cfg: patched and unpatched calls mostly alternate (each one may be answered from what the other left behind)
        if (((i % 2 == 1) != (draw(st.integers(0, 7)) == 3)) if leaf else (i and vary_cfg and draw(st.booleans()))):
            # the configuration handed to THIS call differs in one leaf (a result kept from another call must not leak)
            pool = [{"radius_cap": 1}, {"radius_cap": 4}, {"node_budget": 0.5}, {"node_budget": 3.0}, {"queue_budget": 2}, {"iter_cap": 1},
                    {"decay": {"mode": "attn_quad", "alpha": 0.1}}, {"decay": {"mode": "exp_floor", "rate": 0.0, "floor": 0.0}},
                    {"edge_type_mult": {"supports": 0, "associates": 0, "contradicts": 0, "weird": 0}},
                    {"edge_type_mult": {"supports": 0.5, "associates": 1.0}}, {"edge_type_mult": {"supports": 1.0, "associates": -1.0, "weird": 1.0}}]
            if base["validated"] is None:
                pool += [{"iter_cap_layers": 1}, {"relax_cap": 2}, {"iter_cap_layers": 2}]
            c["t1_patch"] = draw(st.sampled_from(leaf_pools[leaf] if leaf else pool))
        if i and vary_cfg and base.get("perf") and draw(st.integers(0, 3)) == 1:
            c["perf_toggle"] = True
        calls.append(c)
    # graph edits between calls through the store's writers; the next propagation must follow the edited graph.
    # mode edits: ONE family of edit per case (so that each family meets otherwise quiet sequences), mode all: mixed
    families = ["edge", "rewire", "revert", "new_edge", "node", "new_node"]
    family = draw(st.sampled_from(families)) if mode == "edits" else None
    words = [w for w in text.replace("\n", " ").replace("\t", " ").replace(",", " ").split(" ") if w]
    for c in (calls[1:] if vary_graph else []):
        if not draw(st.integers(0, 2)):
            continue
        seeded_gids = [x for x in base["order"] if ref.ref_seeds(base["graphs"][x], text)]
        g = draw(st.sampled_from(seeded_gids if (seeded_gids and draw(st.integers(0, 3))) else all_gids))
        spec = base["graphs"][g]
        hot = set(ref.reachable_within(spec, ref.ref_seeds(spec, text), 2))  # edits near a seed change what is touched
        hot_edges = [k for k, e in enumerate(spec["edges"]) if e["src"] in hot]
        kind = family or draw(st.sampled_from(["edge", "edge", "rewire", "revert", "new_edge", "new_edge", "node", "new_node"]))
        nids = [n["id"] for n in spec["nodes"]]
        if kind in ("edge", "revert", "rewire") and spec["edges"]:
            ed = {"kind": "edge" if kind == "rewire" else kind, "gid": g, "edge": (draw(st.sampled_from(hot_edges)) if (hot_edges and draw(st.integers(0, 3))) else draw(st.integers(0, len(spec["edges"]) - 1))),
                  "via": draw(st.sampled_from(["apply_deltas", "apply_deltas", "upsert_edges", "rmw"]))}
            if kind == "rewire":
                # only an endpoint moves under the same edge id; weight and relation stay as they are
                ed["keep_w"] = True
                ed["dst" if draw(st.integers(0, 3)) else "src"] = draw(st.sampled_from((nids or ["ghost"]) * 3 + ["ghost"]))
            else:
                ed["w"] = draw(st.sampled_from([0.0, 0.9, -0.9, 0.5, 1.0, 0.25]))
                ed["rel"] = draw(st.sampled_from([None, None, "supports", "associates", "contradicts"]))
                if nids and draw(st.integers(0, 3)) == 1:
                    ed["dst"] = draw(st.sampled_from(nids + ["ghost"]))  # re-wired endpoint under the same edge id
            c["edit"] = ed
        elif kind == "new_edge" and nids:
            c["edit"] = {"kind": "new_edge", "gid": g, "src": draw(st.sampled_from(nids + ["ghost"])), "dst": draw(st.sampled_from(nids + ["ghost"])),
                         "id": draw(st.sampled_from([None, "x1", "x2", "e0"])), "w": draw(st.sampled_from([0.9, 1.0, -0.9, 0.5, 0.0])),
                         "rel": draw(st.sampled_from([None, "supports", "contradicts", "weird"])),
                         "via": draw(st.sampled_from(["apply_deltas", "apply_deltas", "upsert_edges"]))}
        elif kind == "node" and nids:
            c["edit"] = {"kind": "node", "gid": g, "node": draw(st.integers(0, len(nids) - 1)), "label": draw(_LABELS2), "tags": draw(_TAGS2)}
        elif kind == "new_node":
            # ids that occur in the text: a node created by an id-only delta is labelled by its id (and so seeded)
            c["edit"] = {"kind": "new_node", "gid": g, "id": draw(st.sampled_from(NODE_IDS2 + ["apple", "ghost"] + [w.lower() for w in words[:3]] * 3)),
                         "label": draw(st.sampled_from([None, None, "kiwi", "apple", ""])),
                         "via": draw(st.sampled_from(["apply_deltas", "apply_deltas", "upsert_nodes"]))}
    base["calls"] = calls
    base["clock0"] = draw(st.sampled_from([None, 0, world.NOW_MS, world.NOW_MS]))
    return base


def apply_edit(store, graphs, original, ed):
    """Perform one store edit and mirror it in the reference's view `graphs` (spec dicts).  Returns True when done."""
    from clematis.engine.types import Edge, Node

    kind = ed.get("kind", "edge")
    gid = ed["gid"]
    spec = graphs[gid]
    if kind in ("edge", "revert"):
        if ed["edge"] >= len(spec["edges"]):
            return False
        e = spec["edges"][ed["edge"]]
        if kind == "revert":
            # back to the contents the graph started with (an earlier cache entry becomes valid again)
            orig = next((o for o in original[gid]["edges"] if o["id"] == e["id"]), None)
            if orig is None:
                return False
            e.update({"w": orig["w"], "rel": orig["rel"], "src": orig["src"], "dst": orig["dst"]})
        else:
            if not ed.get("keep_w"):
                e["w"] = float(ed["w"])
            if ed.get("rel") is not None:
                e["rel"] = ed["rel"]
            if ed.get("dst") is not None:
                e["dst"] = ed["dst"]
            if ed.get("src") is not None:
                e["src"] = ed["src"]
        via = ed.get("via", "apply_deltas")
        if via == "apply_deltas":
            store.apply_deltas(gid, [{"op": "upsert_edge", "id": e["id"], "src": e["src"], "dst": e["dst"], "weight": e["w"], "rel": e["rel"]}])
        elif via == "rmw" and e["id"] in store.get_graph(gid).edges:
            # read-modify-write of the stored object, handed back through the writer
            obj = store.get_graph(gid).edges[e["id"]]
            obj.weight, obj.rel, obj.src, obj.dst = e["w"], e["rel"], e["src"], e["dst"]
            store.upsert_edges(gid, [obj])
        else:
            store.upsert_edges(gid, [Edge(id=e["id"], src=e["src"], dst=e["dst"], weight=e["w"], rel=e["rel"])])
        return True
    if kind == "new_edge":
        rel = ed.get("rel")
        if ed.get("via") == "upsert_edges":
            eid = ed.get("id") or "x0"
            rel = rel or "associates"
            store.upsert_edges(gid, [Edge(id=eid, src=ed["src"], dst=ed["dst"], weight=ed["w"], rel=rel)])
            w = ed["w"]
        else:
            d = {"op": "upsert_edge", "src": ed["src"], "dst": ed["dst"], "weight": ed["w"]}
            if ed.get("id"):
                d["id"] = ed["id"]
            if rel is not None:
                d["rel"] = rel
            store.apply_deltas(gid, [d])
            eid = ed.get("id") or f"e:{ed['src']}->{ed['dst']}"  # documented default id of an id-less edge delta
            rel = rel or "associates"  # documented default relation
            w = float(ed["w"])
        new = {"id": eid, "src": ed["src"], "dst": ed["dst"], "w": w, "rel": rel}
        for e in spec["edges"]:
            if e["id"] == eid:
                e.update(new)  # same id: replaced in place
                break
        else:
            spec["edges"].append(new)
        return True
    if kind == "node":
        if ed["node"] >= len(spec["nodes"]):
            return False
        n = spec["nodes"][ed["node"]]
        n["label"], n["tags"] = ed["label"], (None if ed["tags"] is None else list(ed["tags"]))
        store.upsert_nodes(gid, [Node(id=n["id"], label=n["label"], attrs=({"tags": list(n["tags"])} if n["tags"] is not None else {}))])
        return True
    if kind == "new_node":
        nid = ed["id"]
        exists = any(n["id"] == nid for n in spec["nodes"])
        if ed.get("via") == "upsert_nodes":
            label = ed.get("label") or ""
            store.upsert_nodes(gid, [Node(id=nid, label=label)])
            if exists:
                next(n for n in spec["nodes"] if n["id"] == nid).update({"label": label, "tags": None})
            else:
                spec["nodes"].append({"id": nid, "label": label, "tags": None})
        else:
            d = {"op": "upsert_node", "id": nid}
            if ed.get("label") is not None:
                d["label"] = ed["label"]
            store.apply_deltas(gid, [d])
            if not exists:  # an existing node is kept as it is; a new one is labelled by the delta, else by its id
                spec["nodes"].append({"id": nid, "label": ed["label"] if ed.get("label") is not None else nid, "tags": None})
        return True
    raise RuntimeError(f"harness: unknown edit kind {kind!r}")


def check_seq(case, rec=None):
    from clematis.engine.stages.t1 import t1_propagate

    world.reset_engine_globals()
    cfgs = {}

    def cfg_for(call):
        """One configuration object per distinct (patch, toggle): unpatched calls share ONE object, as an engine would."""
        key = json_key([call.get("t1_patch"), bool(call.get("perf_toggle"))])
        if key not in cfgs:
            c2 = case
            if call.get("t1_patch") or call.get("perf_toggle"):
                c2 = copy.deepcopy({k: v for k, v in case.items() if k not in ("graphs", "calls")})
                if call.get("t1_patch"):
                    tgt = c2["validated"]["t1"] if c2["validated"] is not None else c2["t1"]
                    tgt.update(copy.deepcopy(call["t1_patch"]))
                if call.get("perf_toggle") and c2.get("perf"):
                    c2["perf"]["enabled"] = not c2["perf"].get("enabled")
            cfgs[key] = _cfg_of(c2) + (key,)
        return cfgs[key]

    original = case["graphs"]
    graphs = copy.deepcopy(case["graphs"])  # the reference's view of the graph contents, edited in step with the store
    case = dict(case, graphs=graphs)
    store = build_store(case)
    state = make_state(case, store, case["order"])
    inner = state if isinstance(state, dict) else state._d
    hits = edits = multi_hits = repeats = 0
    any_caps_on = any_parallel = False
    differing_caps = len({json_key(c["slice"]) for c in case["calls"]}) > 1
    now = case.get("clock0", world.NOW_MS)
    memo = {}
    ver = {g: 0 for g in graphs}
    seen_calls = set()
    kinds = set()
    for j, call in enumerate(case["calls"], 1):
        if now is not None:
            now += int(call.get("dt_ms") or 0)
        cfg, t1cfg, cfg_key = cfg_for(call)
        caps_on = perf_caps_active(cfg)
        any_caps_on = any_caps_on or caps_on
        any_parallel = any_parallel or parallel_on(cfg)
        ctx = make_ctx(case, cfg, call["slice"], turn_id=j, agent=call.get("agent", "A"), now_ms=now)
        ed = call.get("edit")
        if ed is not None and ed["gid"] in graphs and apply_edit(store, graphs, original, ed):
            edits += 1
            ver[ed["gid"]] += 1
            kinds.add(("rewire" if ed.get("keep_w") else ed.get("kind", "edge")) + ":" + str(ed.get("via", "")))
        active = [g for g in (call.get("active") or case["order"]) if g in graphs]
        inner["active_graphs"] = list(active)
        before = world.store_digest(store)
        try:
            res = t1_propagate(ctx, state, call["text"])
        except Exception as e:
            raise Violation(f"call {j}: t1_propagate raised {type(e).__name__}: {e}", case, "raises")
        if world.store_digest(store) != before:
            raise Violation(f"call {j}: t1_propagate modified the graph store", case, "store-modified")
        _need_counters(res, case, f"call {j}: ")
        mm = res.metrics
        h = int(mm.get("cache_hits", 0) or 0)
        hits += h
        qb, layers = ref.effective_caps(t1cfg, call["slice"])
        want_ids, want_m = [], dict(ref.ZERO)
        n_graphs = len(active)
        seeded = 0
        for gid in active:
            key = (gid, ver[gid], call["text"], json_key(call["slice"]), cfg_key)
            if key not in memo:
                memo[key] = ref_one_graph(graphs[gid], call["text"], t1cfg, call["slice"])
            ids, m = memo[key]
            seeded += 1 if ids else 0
            want_ids += ids
            for k in want_m:
                want_m[k] += m[k]
        ck = (tuple(active), tuple(ver[g] for g in active), call["text"], json_key(call["slice"]), cfg_key)
        if ck in seen_calls:
            repeats += 1
        if h >= 2:
            multi_hits += 1  # >= 2 seeded graphs answered from what an earlier call left behind
        seen_calls.add(ck)
        _check_shape(res.graph_deltas, case, f"call {j}: ")
        got_ids = [d["id"] for d in res.graph_deltas]
        got_m = {k: mm[k] for k in COUNTERS}
        if mm.get("graphs_touched") != n_graphs:
            raise Violation(f"call {j}: graphs_touched={mm.get('graphs_touched')} for {n_graphs} active graphs", case, "graphs-touched")
        # budgets (aggregate over graphs) hold whatever was cached
        if mm["pops"] > qb * n_graphs:
            raise Violation(f"call {j} (slice {call['slice']}): pops={mm['pops']} exceeds {n_graphs} x budget {qb}", case, "seq-pops-budget")
        if mm["iters"] > layers * n_graphs:
            raise Violation(f"call {j} (slice {call['slice']}): iters={mm['iters']} exceeds {n_graphs} x layer cap {layers}", case, "seq-iters-budget")
        if not caps_on:
            if got_ids != want_ids:
                raise Violation(f"call {j} (text {call['text']!r}, slice {call['slice']}, active {active}): touched {got_ids}, documented rule gives "
                                f"{want_ids}", case, "seq-ref-ids")
            if got_m != want_m:
                raise Violation(f"call {j} (slice {call['slice']}): counters {got_m}, documented rule gives {want_m}", case, "seq-ref-counters")
        else:
            # perf caps prune legitimately, but deterministically: the same call on a cold state (fresh store holding the
            # edited contents, nothing cached) is the rule's answer for this call
            cold_store = build_store(case, graphs)
            try:
                cold = t1_propagate(make_ctx(case, cfg, call["slice"], turn_id=j, agent=call.get("agent", "A"), now_ms=now),
                                    {"store": cold_store, "active_graphs": list(active)}, call["text"])
            except Exception as e:
                raise Violation(f"call {j} on a cold state: t1_propagate raised {type(e).__name__}: {e}", case, "raises")
            _need_counters(cold, case, f"call {j} (cold state): ")
            if [d["id"] for d in cold.graph_deltas] != got_ids or {k: cold.metrics[k] for k in COUNTERS} != got_m:
                raise Violation(f"call {j} (text {call['text']!r}, slice {call['slice']}, active {active}) under perf caps: touched {got_ids} / {got_m}; "
                                f"the same call on a cold state gives {[d['id'] for d in cold.graph_deltas]} / "
                                f"{ {k: cold.metrics[k] for k in COUNTERS} }", case, "seq-cold-differs")
        if call.get("extend_result"):
            # the caller owns the result object: it goes on and extends the list it was handed
            res.graph_deltas.append({"op": "upsert_node", "id": "caller-added"})
    if rec is not None:
        nt = hits > 0 and (differing_caps or edits > 0 or multi_hits > 0)
        rec.case(nontrivial=nt, dig=digest(case) if nt else None,
                 labels=[f"calls={len(case['calls'])}", f"mode={case.get('mode', 'all')}"] + (["cache_hit"] if hits else []) + (["caps_differ"] if differing_caps else []) +
                        (["graph_edited_between_calls"] if edits else []) + [f"edit={k}" for k in sorted(kinds)] +
                        (["repeated_call"] if repeats else []) + (["call_with_2+_graphs_served_from_cache"] if multi_hits else []) +
                        (["perf_caps"] if any_caps_on else []) + (["parallel"] if any_parallel else []) +
                        (["cfg_changes_between_calls"] if len(cfgs) > 1 else []) +
                        (["state_view"] if _shape(case).get("state") == "view" else []) +
                        (["ctx_TurnCtx"] if _shape(case).get("ctx") == "turnctx" else []) +
                        (["clock_callable"] if _shape(case).get("clock_callable") and now is not None else []) +
                        (["cfg_object"] if _shape(case).get("cfg") == "config" else []) +
                        (["active_changes"] if any(c.get("active") for c in case["calls"]) else []) +
                        (["clock_jumps_ttl"] if any((c.get("dt_ms") or 0) > 300000 for c in case["calls"]) and now is not None else []) +
                        (["no_logical_clock"] if now is None else []) +
                        (["caller_extends_result"] if any(c.get("extend_result") for c in case["calls"]) else []),
                 sample={"calls": case["calls"], "text": case["text"], "t1": case["t1"] or case["validated"]} if nt else None)


# ---------------------------------------------------------------- real scheduled turns: the T1 a turn used and its log record

def spec_from_store(store, gid):
    g = store.get_graph(gid)
    return {"nodes": [{"id": n.id, "label": n.label, "tags": (n.attrs.get("tags") if isinstance(n.attrs, dict) and "tags" in n.attrs else None)}
                      for n in g.nodes.values()],
            "edges": [{"id": e.id, "src": e.src, "dst": e.dst, "w": e.weight, "rel": e.rel} for e in g.edges.values()]}


@st.composite
def turn_cases(draw):
    """2-3 real turns of the orchestrator on one engine state (two agents with their own active graph lists), scheduler
    on or off: the slice caps T1 sees are the ones the orchestrator derives from scheduler.budgets."""
    ng = draw(st.integers(1, 3))
    gids = draw(st.lists(st.sampled_from(GIDS), min_size=ng, max_size=ng, unique=True))
    graphs = {gid: draw(graph_specs2(max_nodes=6, max_edges=8)) for gid in gids}
    plant = draw(st.sampled_from(["kiwi", "fig", "nut"]))
    for gid in gids:
        ns = graphs[gid]["nodes"]
        if ns and draw(st.sampled_from([True, True, False])):
            ns[draw(st.integers(0, len(ns) - 1))]["label"] = draw(st.sampled_from([plant, plant.upper()]))
    text = (draw(texts2(graphs)) + " " + plant).strip()
    t1 = {"cache": {"enabled": draw(st.sampled_from([True, True, False])), "max_entries": draw(st.sampled_from([1, 8, 512])), "ttl_s": 300},
          "decay": draw(st.sampled_from([{"mode": "exp_floor", "rate": 0.6, "floor": 0.05}, {"mode": "attn_quad", "alpha": 0.8}, {"mode": "exp_floor", "rate": 0.9, "floor": 0.0}]))}
    if draw(st.booleans()):
        t1["radius_cap"] = draw(st.sampled_from([0, 1, 2, 4]))
    if draw(st.booleans()):
        t1["queue_budget"] = draw(st.sampled_from([1, 2, 3, 10000]))
    if draw(st.booleans()):
        t1["iter_cap"] = draw(st.sampled_from([1, 2, 50]))
    if draw(st.booleans()):
        t1["node_budget"] = draw(st.sampled_from([0.5, 1.0, 1.5, 3.0]))
    over = {"t1": t1}
    sched = draw(st.sampled_from([True, True, True, False]))
    if sched:
        b = {}
        if draw(st.sampled_from([True, True, False])):
            b["t1_pops"] = draw(st.sampled_from([0, 1, 2, 4, None, 10000]))
        if draw(st.sampled_from([True, True, False])):
            b["t1_iters"] = draw(st.sampled_from([0, 1, 2, 50]))
        over["scheduler"] = {"enabled": True, "budgets": b, "quantum_ms": 10 ** 6}
        over["scheduler"]["budgets"]["wall_ms"] = 10 ** 6
    if draw(st.sampled_from([True, False, False])):
        over["perf"] = {"enabled": draw(st.booleans()), "parallel": {"enabled": True, "t1": True, "max_workers": 2}}
    agents = {"A": gids, "B": list(draw(st.permutations(gids)))[:draw(st.integers(1, ng))]}
    turns = [{"agent": draw(st.sampled_from(["A", "A", "B"])), "text": draw(st.sampled_from([text, text, text.upper(), draw(texts2(graphs))]))}
             for _ in range(draw(st.integers(2, 3)))]
    return {"graphs": graphs, "agents": agents, "over": over, "turns": turns}


def check_turn(case, rec=None):
    from harness import observe

    with world.sandbox("vx_c12_") as d:
        world.reset_engine_globals()
        eng = observe.Engine({"graphs": case["graphs"], "eps": [], "agents": case["agents"]}, d)
        cfg = eng.cfg(copy.deepcopy(case["over"]))
        t1cfg = _plain(dict(cfg["t1"]))
        sched = _plain(dict(cfg.get("scheduler") or {}))
        slice_ = None
        if sched.get("enabled"):
            # documented derivation: the T1 budgets of scheduler.budgets that are set (None = no cap)
            slice_ = {k: int(v) for k, v in (sched.get("budgets") or {}).items() if k in ("t1_pops", "t1_iters") and v is not None}
        done = 0
        hits = 0
        binding = False
        for j, t in enumerate(case["turns"], 1):
            active = list(case["agents"][t["agent"]])
            specs = {g: spec_from_store(eng.state["store"], g) for g in active}
            before = world.store_digest(eng.state["store"])
            captured = {}
            import clematis.engine.orchestrator as orch
            orig = orch.t1_propagate

            def spy(ctx, state, text, _o=orig, _c=captured):
                r = _o(ctx, state, text)
                _c["after"] = world.store_digest(state["store"])
                _c["res"] = r
                return r

            orch.t1_propagate = spy
            try:
                r = eng.turn(t["agent"], t["text"], cfg, j, world.NOW_MS + 1000 * j)
            finally:
                orch.t1_propagate = orig
            if "res" not in captured:
                raise Violation(f"turn {j}: T1 did not complete ({r.get('exc')})", case, "turn-t1-missing")
            if captured["after"] != before:
                raise Violation(f"turn {j}: t1_propagate modified the graph store", case, "store-modified")
            res = captured["res"]
            _need_counters(res, case, f"turn {j}: ")
            _check_shape(res.graph_deltas, case, f"turn {j}: ")
            want_ids, want_m = [], dict(ref.ZERO)
            for g in active:
                ids, m = ref_one_graph(specs[g], t["text"], t1cfg, slice_)
                want_ids += ids
                for k in want_m:
                    want_m[k] += m[k]
            got_ids = [x["id"] for x in res.graph_deltas]
            got_m = {k: res.metrics[k] for k in COUNTERS}
            if got_ids != want_ids:
                raise Violation(f"turn {j} (agent {t['agent']}, text {t['text']!r}, scheduler budgets {slice_}): touched {got_ids}, documented rule "
                                f"gives {want_ids}", case, "turn-ref-ids")
            if got_m != want_m:
                raise Violation(f"turn {j} (scheduler budgets {slice_}): counters {got_m}, documented rule gives {want_m}", case, "turn-ref-counters")
            hits += int(res.metrics.get("cache_hits", 0) or 0)
            qb, layers = ref.effective_caps(t1cfg, slice_)
            if slice_ and (want_m["pops"] >= min(qb, 10 ** 4) or want_m["layer_cap_hits"]):
                binding = True
            done += 1
            # the log record of the turn carries the counters of the work done
            lines = [json.loads(x) for x in eng.logs().get("t1.jsonl", b"").decode("utf-8").splitlines() if x.strip()]
            if len(lines) != done:
                raise Violation(f"turn {j}: t1.jsonl has {len(lines)} records after {done} turns", case, "turn-log-count")
            logged = {k: lines[-1].get(k) for k in COUNTERS}
            if logged != want_m or lines[-1].get("graphs_touched") != len(active):
                raise Violation(f"turn {j}: t1.jsonl record {logged} / graphs_touched={lines[-1].get('graphs_touched')}, work done {want_m} over "
                                f"{len(active)} graphs", case, "turn-log-counters")
    if rec is not None:
        nt = bool(slice_) and binding
        rec.case(nontrivial=nt, dig=digest(case) if nt else None,
                 labels=["scheduler_on" if sched.get("enabled") else "scheduler_off"] + (["slice_binds"] if binding else []) +
                        (["cache_hit"] if hits else []) + (["parallel"] if parallel_on(cfg) else []),
                 sample={"over": case["over"], "turns": case["turns"]} if nt else None)


def sub_turn(rec, seed, shard, nshards, n=40, shrink=True):
    run_hypothesis(rec, seed, turn_cases(), lambda c: check_turn(c, rec), max_examples=n, shrink=shrink, name="turn")


def replay_turn(case):
    from checks.c03 import _fix_floats
    check_turn(_fix_floats(case), None)


def json_key(x):
    return json.dumps(x, sort_keys=True)


def sub_seq(rec, seed, shard, nshards, n=150, shrink=True):
    run_hypothesis(rec, seed, seq_cases(), lambda c: check_seq(c, rec), max_examples=n, shrink=shrink, name="seq")


def sub_rule(rec, seed, shard, nshards, n=500, shrink=True):
    run_hypothesis(rec, seed, cases(), lambda c: check_case(c, rec), max_examples=n, shrink=shrink, name="rule")


def replay_case(case):
    from checks.c03 import _fix_floats
    check_case(_fix_floats(case), None)


def replay_seq(case):
    from checks.c03 import _fix_floats
    check_seq(_fix_floats(case), None)


SUBCHECKS = [
    Sub("seq", sub_seq, quick={"n": 250}, thorough={"n": 2500}, shards_quick=4, shards_thorough=8, replay=replay_seq),
    Sub("rule", sub_rule, quick={"n": 250}, thorough={"n": 2500}, shards_quick=8, shards_thorough=16, replay=replay_case),
    Sub("turn", sub_turn, quick={"n": 60}, thorough={"n": 600}, shards_quick=2, shards_thorough=4, replay=replay_turn),
]
