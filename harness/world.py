"""World / config / ctx builders shared by the engine-level checks.

Everything is constructive (Hypothesis strategies build worlds in which the code has work to do) and nothing
touches /repo: cases run inside a sandbox directory (see `sandbox`).
"""
from __future__ import annotations

import contextlib
import copy
import os
import shutil
import sys
import tempfile
from types import SimpleNamespace
from typing import Any, Dict, List, Optional

from hypothesis import strategies as st

# ------------------------------------------------------------------------------------------------
# attribute dict (same shape run_smoke_turn / scripts use)
# ------------------------------------------------------------------------------------------------


class AttrDict(dict):
    def __getattr__(self, name):
        try:
            return self[name]
        except KeyError as e:
            raise AttributeError(name) from e

    def __setattr__(self, name, value):
        self[name] = value

    def __deepcopy__(self, memo):
        return AttrDict({k: copy.deepcopy(v, memo) for k, v in self.items()})


def to_attr(obj):
    if isinstance(obj, dict):
        return AttrDict({k: to_attr(v) for k, v in obj.items()})
    if isinstance(obj, list):
        return [to_attr(v) for v in obj]
    return obj


def deep_merge(a: dict, b: dict) -> dict:
    out = copy.deepcopy(a)
    for k, v in b.items():
        if isinstance(v, dict) and isinstance(out.get(k), dict):
            out[k] = deep_merge(out[k], v)
        else:
            out[k] = copy.deepcopy(v)
    return out


def validated_cfg(overrides: Optional[dict] = None) -> AttrDict:
    """The repo's own validate_config on `overrides` -> attribute dict ("validated configuration")."""
    from configs.validate import validate_config

    return to_attr(validate_config(copy.deepcopy(overrides or {})))


def make_ctx(cfg, agent: str = "A", turn_id: Any = 1, now_ms: int = 1_750_000_000_000, now: Optional[str] = None,
             **extra):
    """ctx exposing both .cfg and .config (apply/t4 read only ctx.config)."""
    if now is None:
        import datetime as _dt

        now = _dt.datetime.fromtimestamp(now_ms / 1000.0, tz=_dt.timezone.utc).isoformat().replace("+00:00", "Z")
    ctx = SimpleNamespace(turn_id=turn_id, agent_id=agent, now=now, now_ms=now_ms, cfg=cfg, config=cfg, scene_tags=[])
    for k, v in extra.items():
        setattr(ctx, k, v)
    return ctx


# ------------------------------------------------------------------------------------------------
# process-global engine state
# ------------------------------------------------------------------------------------------------

_GLOBALS = [
    # (module, attributes reset to None, dict attributes cleared) -- at least one per module must exist
    ("clematis.engine.stages.t1", ["_T1_CACHE", "_T1_CACHE_CFG", "_T1_CACHE_KIND"], ["_PROCESS_SLOT"]),
    ("clematis.engine.stages.t2.cache", ["_T2_CACHE", "_T2_CACHE_CFG", "_T2_CACHE_KIND"], ["_PROCESS_SLOT"]),
]


def reset_engine_globals() -> None:
    """Reset the engine's process-level stage caches. A renamed global fails loudly (harness error)."""
    import importlib

    for modname, names, dicts in _GLOBALS:
        mod = importlib.import_module(modname)
        found = 0
        for n in names:
            if hasattr(mod, n):
                setattr(mod, n, None)
                found += 1
        for n in dicts:
            d = getattr(mod, n, None)
            if isinstance(d, dict):
                d.clear()
                found += 1
        if found == 0:
            raise RuntimeError(f"harness: none of {names + dicts} exist on {modname}; update harness/world.py")


@contextlib.contextmanager
def sandbox(prefix: str = "vx_case_"):
    """Fresh directory holding logs/, snap/ and the cwd of one case; env vars point into it."""
    base = os.environ.get("VERIF_TMP") or None
    d = tempfile.mkdtemp(prefix=prefix, dir=base)
    old_cwd = os.getcwd()
    saved = {k: os.environ.get(k) for k in ("CLEMATIS_LOG_DIR", "CLEMATIS_LOGS_DIR", "CLEMATIS_SNAPSHOT_DIR")}
    try:
        os.makedirs(os.path.join(d, "logs"))
        os.makedirs(os.path.join(d, "snap"))
        os.makedirs(os.path.join(d, "cwd"))
        os.environ["CLEMATIS_LOG_DIR"] = os.path.join(d, "logs")
        os.environ.pop("CLEMATIS_LOGS_DIR", None)
        os.environ["CLEMATIS_SNAPSHOT_DIR"] = os.path.join(d, "snap")
        os.chdir(os.path.join(d, "cwd"))
        yield d
    finally:
        os.chdir(old_cwd)
        for k, v in saved.items():
            if v is None:
                os.environ.pop(k, None)
            else:
                os.environ[k] = v
        shutil.rmtree(d, ignore_errors=True)


# ------------------------------------------------------------------------------------------------
# graphs
# ------------------------------------------------------------------------------------------------

VOCAB = ["apple", "app", "pear", "Äpfel", "kiwi", "fig", "plum", "lime", "Date", "nut", "yam", "pea"]
NODE_IDS = ["a", "b", "c", "d", "e", "f", "g", "h", "ä", "n:1", "A"]
RELS = ["supports", "associates", "contradicts", "weird"]


_LABELS = st.one_of(st.sampled_from(VOCAB), st.sampled_from(VOCAB), st.just(""), st.sampled_from(["zzz", "Plum"]))
_TAGS = st.lists(st.one_of(st.sampled_from(VOCAB), st.sampled_from(["", 3, None])), max_size=2)
_WEIGHTS = st.one_of(st.sampled_from([1.0, 0.9, 0.5, 0.25, -0.5, -1.0, 0.0, 1e-7, 2.0, 1]),
                     st.floats(min_value=-1.5, max_value=1.5, allow_nan=False))
_RELS = st.sampled_from(RELS)


@st.composite
def graph_specs(draw, max_nodes: int = 8, max_edges: int = 14, ids: Optional[List[str]] = None):
    """A concept graph spec: {"nodes":[{"id","label","tags"}], "edges":[{"id","src","dst","w","rel"}]}.
    Cycles, self-loops, parallel edges (distinct ids, same endpoints), negative/zero weights, unknown rels."""
    ids = ids or NODE_IDS
    nids = draw(st.lists(st.sampled_from(ids), min_size=0, max_size=max_nodes, unique=True))
    nodes = [{"id": nid, "label": draw(_LABELS), "tags": draw(_TAGS)} for nid in nids]
    edges = []
    if nids:
        ends = st.sampled_from(nids)
        dsts = st.sampled_from(nids + nids + ["ghost"])
        m = draw(st.integers(0, max_edges))
        for j in range(m):
            edges.append({"id": f"e{j}", "src": draw(ends), "dst": draw(dsts), "w": draw(_WEIGHTS), "rel": draw(_RELS)})
    return {"nodes": nodes, "edges": edges}


def build_store(graphs: Dict[str, dict]):
    """graphs: gid -> spec (insertion order of nodes/edges preserved)."""
    from clematis.graph.store import InMemoryGraphStore
    from clematis.engine.types import Node, Edge

    store = InMemoryGraphStore()
    for gid, spec in graphs.items():
        store.ensure(gid)
        if spec["nodes"]:
            store.upsert_nodes(gid, [Node(id=n["id"], label=n["label"], attrs=({"tags": list(n["tags"])} if n.get("tags") is not None else {}))
                                     for n in spec["nodes"]])
        if spec["edges"]:
            store.upsert_edges(gid, [Edge(id=e["id"], src=e["src"], dst=e["dst"], weight=e["w"], rel=e["rel"])
                                     for e in spec["edges"]])
    return store


def store_digest(store) -> Any:
    """Deep, order-sensitive view of an InMemoryGraphStore (for 'never modifies the store' / state equality)."""
    out = {}
    for gid, g in store._graphs.items():
        out[gid] = {
            "etag": g.version_etag,
            "nodes": [(k, n.id, n.label, repr(n.attrs)) for k, n in g.nodes.items()],
            "edges": [(k, e.id, e.src, e.dst, repr(e.weight), e.rel, repr(e.attrs)) for k, e in g.edges.items()],
            "meta": repr(g.meta), "flags": repr(g.flags),
        }
    return out


@st.composite
def texts_for(draw, graphs: Dict[str, dict], bias_out: bool = True):
    """Input text biased towards labels/tags of nodes (with out-edges), plus noise."""
    words = []
    for spec in graphs.values():
        srcs = {e["src"] for e in spec["edges"]}
        for n in spec["nodes"]:
            kws = [n["label"]] + [t for t in n["tags"] if isinstance(t, str)]
            kws = [k for k in kws if k]
            if not kws:
                continue
            words.extend(kws * (3 if (bias_out and n["id"] in srcs) else 1))
    pool = words or VOCAB
    k = draw(st.integers(0, 4))
    chosen = [draw(st.sampled_from(pool)) for _ in range(k)]
    noise = draw(st.lists(st.sampled_from(["the", "of", "xyz", "PINEAPPLE", "äpfelkuchen", ""]), max_size=2))
    parts = draw(st.permutations(chosen + noise))
    text = " ".join(parts)
    return draw(st.sampled_from([text, text.upper(), text.lower(), text]))


# ------------------------------------------------------------------------------------------------
# memory episodes, encoders
# ------------------------------------------------------------------------------------------------

class BowEncoder:
    """Bag-of-words embedding over VOCAB (lower-cased whitespace tokens), injected through ctx.enc.
    Small-integer vectors: exact ties, zero vectors and score gaps >> 1e-6, so a float64 reference is exact."""

    def __init__(self, vocab=None):
        self.vocab = [w.lower() for w in (vocab or VOCAB)]

    def vec(self, text: str):
        toks = (text or "").lower().split()
        return [float(toks.count(w)) for w in self.vocab]

    def encode(self, texts):
        import numpy as np

        return [np.asarray(self.vec(t), dtype=np.float32) for t in texts]


EP_IDS = ["e1", "e10", "e2", "E3", "é4", "e5", "ep-6", "e07", "e8", "e9", "a", "z"]
OWNERS = ["A", "B", "world", ""]
NOW_ISO = "2025-06-15T12:00:00Z"
NOW_MS = 1_749_988_800_000  # 2025-06-15T12:00:00Z
_AGES_S = [0, 3600, 43200, 82800, 90000, 86400, 6 * 86400 + 43200, 7 * 86400, 7 * 86400 + 1, 29 * 86400, 30 * 86400, 30 * 86400 + 1,
           31 * 86400, 100 * 86400, 364 * 86400, 400 * 86400, -3600]
_AGES_SUBDAY = [60, 3600, 6 * 3600, 43200, 82800, 86399, 86400 + 60, 2 * 86400 - 1]  # ages differing within one calendar day
_EP_WORDS = st.one_of(st.lists(st.sampled_from(VOCAB), min_size=0, max_size=4), st.lists(st.sampled_from(VOCAB[:5]), min_size=1, max_size=4))


def iso_minus(now_iso: str, age_s: int, z: bool = True) -> str:
    import datetime as _dt

    t = _dt.datetime.fromisoformat(now_iso.replace("Z", "+00:00")) - _dt.timedelta(seconds=age_s)
    s = t.isoformat()
    return s.replace("+00:00", "Z") if z else s


@st.composite
def episode_lists(draw, max_eps: int = 12, owners=None, allow_missing_ts: bool = True, now_iso: str = NOW_ISO,
                  ids=None):
    owners = owners or OWNERS
    ids = ids or EP_IDS
    chosen = draw(st.one_of(st.lists(st.sampled_from(ids), min_size=0, max_size=max_eps, unique=True),
                            st.lists(st.sampled_from(ids), min_size=min(5, max_eps), max_size=max_eps, unique=True)))
    enc = BowEncoder()
    eps = []
    for eid in chosen:
        words = draw(_EP_WORDS)
        text = " ".join(words)
        if draw(st.sampled_from([False, False, False, True])):
            text = text.upper()
        kind = draw(st.sampled_from(["bow", "bow", "bow", "explicit", "zero", "none"]))
        if kind == "bow":
            vec = enc.vec(text)
        elif kind == "explicit":
            vec = [float(draw(st.integers(0, 3))) for _ in VOCAB]
        elif kind == "zero":
            vec = [0.0] * len(VOCAB)
        else:
            vec = None
        if eps and draw(st.sampled_from([False, False, False, True])):
            # exact duplicate of an earlier episode's content: cosine ties, so recency / importance / id decide the order
            twin = draw(st.sampled_from(eps))
            text, vec = twin["text"], (None if twin["vec_full"] is None else list(twin["vec_full"]))
        ep = {"id": eid, "owner": draw(st.sampled_from(owners)), "text": text, "vec_full": vec}
        if allow_missing_ts and draw(st.sampled_from([False] * 11 + [True])):
            pass
        else:
            ep["ts"] = iso_minus(now_iso, draw(st.sampled_from(_AGES_S + _AGES_SUBDAY)), z=draw(st.booleans()))
        aux = {}
        if draw(st.booleans()):
            aux["cluster_id"] = draw(st.sampled_from(["c1", "c2", "c3"]))
        if draw(st.booleans()):
            aux["importance"] = draw(st.sampled_from([0.0, 0.25, 0.5, 1.0, 2.0, -1.0, 0.9]))
        if aux or draw(st.booleans()):
            ep["aux"] = aux
        eps.append(ep)
    return eps


def build_index(eps):
    import numpy as np
    from clematis.memory.index import InMemoryIndex

    idx = InMemoryIndex()
    for e in eps:
        d = copy.deepcopy(e)
        if d.get("vec_full") is not None:
            d["vec_full"] = np.asarray(d["vec_full"], dtype=np.float32)
        idx.add(d)
    return idx


def index_digest(idx) -> Any:
    out = []
    for e in getattr(idx, "_eps", []):
        v = e.get("vec_full")
        out.append((str(e.get("id")), e.get("owner"), e.get("text"), e.get("ts"), repr(e.get("aux")),
                    None if v is None else [float(x) for x in v], sorted(k for k in e.keys())))
    return {"ver": getattr(idx, "_ver", None), "eps": out}


@st.composite
def gel_graphs(draw, ids):
    """state['graph'] for hybrid rerank / GEL: undirected edges between episode ids under canonical 'a→b' keys."""
    ids = list(ids)
    edges = {}
    if len(ids) >= 2:
        n = draw(st.integers(0, min(8, len(ids) * 2)))
        for _ in range(n):
            a = draw(st.sampled_from(ids))
            b = draw(st.sampled_from(ids))
            if a == b:
                continue
            s, d = (a, b) if a <= b else (b, a)
            w = draw(st.sampled_from([0.05, 0.1, 0.2, 0.5, 0.9, 1.0, -0.5]))
            edges[f"{s}→{d}"] = {"id": f"{s}→{d}", "src": s, "dst": d, "weight": w, "rel": "coact", "attrs": {}}
    return {"nodes": {i: {"id": i} for i in ids}, "edges": edges, "meta": {}}
