"""C11 — retrieval honours scope, thresholds, caps and documented ranking.

Oracles: envelope predicates on every case (k, distinct, owner scope, threshold, tier pools, score agreement,
documented final order recomputed from the reported cosine), exact differential against the float64 reference on
well-separated cases, completeness when fewer than k are returned, rerank layers = pure permutation (metamorphic:
same case with hybrid/quality off), residual nudges (existing node, label occurs in a used hit, caps), result
metrics (k_returned, k_used, k_residual, sim_stats, score_stats, owner_scope, caps) consistent with the result.

Paths: sequential tier walk, sharded (parallel) walk, embed-store reader (perf.t2.reader.partitions).
"""
from __future__ import annotations

import copy
import datetime as _dt
import json
import os
import shutil
import tempfile
from types import SimpleNamespace

from hypothesis import strategies as st

from harness.runner import Sub, Violation, run_hypothesis, digest
from harness import world
from harness.models import t2 as ref

LEVEL = "exploration"
RULE = ("Hypothesis-generated memories (0-12 episodes, 1 in 20 cases 70-140 episodes with k up to 200; owners A/B/a/world/''/absent; timestamps on both sides of the "
        "recency window incl. the boundary second, far past/future, spelled Z / +00:00 / non-UTC offset / zone-less / "
        "fractional / date-only; clusters (str/int/empty ids); importance in and out of [0,1], numeric strings; "
        "bag-of-words / explicit / signed / real / zero / missing vectors stored as float32 / float64 / lists, duplicated "
        "content, the same episode stored twice), "
        "ctx.now at several instants and spellings, queries from the same vocabulary, validated t2 configs (k, "
        "threshold, tiers in any subset/order incl. duplicates/empty/unknown, recent days 0..overflowing, top-m, "
        "ranking weights, multi-word / seam-straddling node labels, owner scope spellings x agent incl. ''/case variants, backend label, reader mode, "
        "hybrid/quality/normalizer/aliasing/lexical/MMR leaves), perf metrics gate, GEL edge sets, graphs for residual "
        "labels, slice cap t2_k, residual cap; sequential, sharded and embed-store reader paths. Non-trivial = (>=2 "
        "owners present and, under agent/world scope, a foreign episode would have ranked in the top-k) OR k "
        "truncates the eligible set OR a rerank layer actually reordered. Distinct = digest of the whole case.")
ASSUMPTIONS = ["T2 stage cache off, except in the warm-cache cases (1 in 5): there the checked call is the second one on the same "
               "state after the same request under another slice budget (lru and perf bytes cache)",
               "implementation scores in float32, reference in float64: 1e-6 band at thresholds / ties; exact "
               "differential only on well-separated cases (no score inside a band); reported scores compared at 1e-5",
               "episodes without ts: membership in the exact tier is not asserted (code falls back to the wall clock)",
               "in-memory backend",
               "zone-less timestamps are read in the host zone, which is UTC under ./vcheck (TZ=UTC)",
               "embed-store reader path: tier rules do not apply (tier_sequence=['embed_store']); owner scope, threshold, "
               "k, top-k by (cosine, id), final order, metrics and residual clauses do"]

SCORE_TOL = 1e-5
STAT_TOL = 1e-7
BAND = ref.BAND
TIERS = ["exact_semantic", "cluster_semantic", "archive"]


# ---------------------------------------------------------------- strategies

_TIER_SETS = st.one_of(
    st.just(None),
    st.lists(st.sampled_from(TIERS), min_size=1, max_size=3, unique=True),
    st.lists(st.sampled_from(TIERS + ["bogus_tier"]), min_size=1, max_size=4, unique=True),
    st.lists(st.sampled_from(TIERS), min_size=0, max_size=4),  # duplicates / empty list
    # a tier on its own (or ahead of a narrower one): its rule is not masked by a later catch-all tier
    st.sampled_from([["cluster_semantic"], ["cluster_semantic"], ["exact_semantic"], ["cluster_semantic", "exact_semantic"]]),
)
_W = st.sampled_from([0.0, 0.05, 0.2, 0.25, 0.5, 0.75, 1.0])

EP_IDS = world.EP_IDS + ["10", "9"]
OWNERS = ["A", "A", "B", "B", "world", "world", "", "a", None]  # None = key absent
AGENTS = ["A", "A", "A", "B", "B", "world", "C", "", "a"]
NOWS = [world.NOW_ISO, world.NOW_ISO, world.NOW_ISO, "2025-06-15T00:00:00Z", "2025-01-01T00:00:30Z", "2024-03-01T06:00:00Z"]
_AGES = world._AGES_S + world._AGES_SUBDAY + [4000 * 86400, -400 * 86400, 365 * 86400, 366 * 86400]
_SPELL = ["z", "z", "z", "utc", "utc", "offset", "offset", "offset", "naive", "naive", "frac", "space", "date"]
_OFFSETS = [600, -600, 330, -45, 840]
_SIGNED = [-1.0, -0.5, 0.0, 0.0, 0.5, 1.0, 2.0]


def _with_offset(ts: str, minutes: int) -> str:
    """The same instant as `ts`, spelled in the zone UTC+minutes (e.g. 2025-01-02T05:00:00+10:00)."""
    t = _dt.datetime.fromisoformat(ts.replace("Z", "+00:00"))
    if t.tzinfo is None:
        t = t.replace(tzinfo=_dt.timezone.utc)
    return t.astimezone(_dt.timezone(_dt.timedelta(minutes=minutes))).isoformat()


def _spell(draw, ts_z: str, kinds=_SPELL) -> str:
    """One of the ISO-8601 spellings datetime.fromisoformat accepts. 'frac' and 'date' name a (slightly) different
    instant; the reference parses the very same string, so that is just another timestamp."""
    kind = draw(st.sampled_from(kinds))
    if kind == "utc":
        return ts_z.replace("Z", "+00:00")
    if kind == "offset":
        return _with_offset(ts_z, draw(st.sampled_from(_OFFSETS)))
    if kind == "naive":
        return ts_z.replace("Z", "")
    if kind == "frac":
        return ts_z.replace("Z", ".250000Z")
    if kind == "space":
        return ts_z.replace("T", " ")
    if kind == "date":
        return ts_z[:10]
    return ts_z


@st.composite
def _episodes(draw, now_z: str, max_eps: int = 12, owners=None):
    owners = owners or OWNERS
    chosen = draw(st.one_of(st.lists(st.sampled_from(EP_IDS), min_size=0, max_size=max_eps, unique=True),
                            st.lists(st.sampled_from(EP_IDS), min_size=4, max_size=max_eps, unique=True),
                            st.lists(st.sampled_from(EP_IDS), min_size=7, max_size=max_eps, unique=True)))
    enc = world.BowEncoder()
    eps = []
    for eid in chosen:
        text = " ".join(draw(world._EP_WORDS))
        if draw(st.sampled_from([False, False, False, True])):
            text = text.upper()
        kind = draw(st.sampled_from(["bow", "bow", "bow", "bow", "explicit", "signed", "signed", "real", "zero", "none"]))
        if kind == "bow":
            vec = enc.vec(text)
        elif kind == "explicit":
            vec = [float(draw(st.integers(0, 3))) for _ in world.VOCAB]
        elif kind == "signed":
            # dyadic components of both signs: exactly representable in float32, negative cosines reachable
            vec = [draw(st.sampled_from(_SIGNED)) for _ in world.VOCAB]
        elif kind == "real":
            # generic direction (multiples of 1/64, exact in float32): cosines without structural ties
            vec = [draw(st.integers(-64, 64)) / 64.0 for _ in world.VOCAB]
        elif kind == "zero":
            vec = [0.0] * len(world.VOCAB)
        else:
            vec = None
        if eps and draw(st.sampled_from([False, False, False, True])):
            # exact duplicate of an earlier episode's content: cosine ties, so recency / importance / id decide the order
            twin = draw(st.sampled_from(eps))
            text, vec = twin["text"], (None if twin["vec_full"] is None else list(twin["vec_full"]))
        ep = {"id": eid, "text": text, "vec_full": vec}
        owner = draw(st.sampled_from(owners))
        if owner is not None:
            ep["owner"] = owner
        if not draw(st.sampled_from([False] * 29 + [True])):  # rare: a missing ts makes the exact tier's pool ambiguous
            ep["ts"] = _spell(draw, world.iso_minus(now_z, draw(st.sampled_from(_AGES)), z=True))
        aux = {}
        if draw(st.booleans()):
            aux["cluster_id"] = draw(st.sampled_from(["c1", "c1", "c2", "c2", 7, "", "", 0]))
        if draw(st.booleans()):
            aux["importance"] = draw(st.sampled_from([0.0, 0.25, 0.5, 1.0, 2.0, -1.0, 0.9, "0.75", 1]))
        if aux or draw(st.booleans()):
            ep["aux"] = aux
        elif draw(st.sampled_from([False, False, True])):
            ep["aux"] = None
        eps.append(ep)
    return eps


def _big_memory(seed: int, now_z: str, owners):
    """70-140 episodes built from one integer (sizes beyond every default: k_retrieval 10/64, t2_k 64, hybrid k_max 128).
    Few distinct texts, so hundreds of hits and long exact ties; ids sort differently as strings and as numbers."""
    import random

    rnd = random.Random(seed)
    enc = world.BowEncoder()
    texts = [" ".join(rnd.choice(world.VOCAB[:5]) for _ in range(rnd.randint(1, 3))) for _ in range(6)]
    eps = []
    for j in rnd.sample(range(400), rnd.randint(70, 140)):
        text = rnd.choice(texts)
        ep = {"id": f"m{j}", "text": text, "vec_full": enc.vec(text),
              "ts": world.iso_minus(now_z, rnd.choice(_AGES), z=True)}
        owner = rnd.choice(owners)
        if owner is not None:
            ep["owner"] = owner
        if rnd.random() < 0.5:
            ep["aux"] = {"cluster_id": rnd.choice(["c1", "c2", "c3", "c4", "c5"]), "importance": rnd.choice([0.0, 0.5, 1.0])}
        eps.append(ep)
    return eps


@st.composite
def cases(draw):
    now_z = draw(st.sampled_from(NOWS))
    scope = draw(st.sampled_from(["any", "any", "agent", "agent", "agent", "world", "AGENT", "World", "Any"]))
    agent = draw(st.sampled_from(AGENTS))
    own = ref.owner_of(scope, agent)
    owners = OWNERS
    if own is not None and draw(st.sampled_from([True, True, False])):
        # the querying owner dominates (more episodes visible under the scoped query), foreign ones remain
        others = [o for o in ["A", "B", "world", "", "a", None] if o != own]
        owners = [own] * 4 + [draw(st.sampled_from(others)), draw(st.sampled_from(others))]
    big = draw(st.sampled_from([False] * 19 + [True]))
    if big and own is not None:
        owners = [own] * 6 + [draw(st.sampled_from([o for o in ["A", "B", "world", ""] if o != own]))]
    eps = _big_memory(draw(st.integers(0, 10 ** 6)), now_z, owners) if big else draw(_episodes(now_z, owners=owners))
    cluster_focus = not big and len(eps) >= 3 and draw(st.sampled_from([False] * 7 + [True]))
    if cluster_focus:
        # the cluster tier on its own / first with a small top-m over a memory where many episodes carry a falsy cluster
        # id ('' / 0 / none: each such episode is a cluster of its own, derived from its id)
        for e in eps:
            if draw(st.booleans()):
                e["aux"] = dict(e.get("aux") or {}, cluster_id=draw(st.sampled_from(["", "", 0])))
    ep_words = [w for e in eps for w in (e.get("text") or "").lower().split()] or world.VOCAB
    graphs = {}
    seam_words = []
    texted = [e for e in eps if (e.get("text") or "").split()]
    for gid in draw(st.sampled_from([[], ["g1"], ["g1"], ["g2"], ["g1", "g2"], ["g1", "g2"], ["g2", "g1"]])):
        spec = draw(world.graph_specs(max_nodes=5, max_edges=3))
        for n in spec["nodes"]:
            if len(texted) >= 2 and draw(st.sampled_from([False, False, False, True])):
                # a label that straddles the seam between two episode texts (tail of one + head of another, with a
                # space, without separator, or cut inside the words): it occurs in the concatenation of two hits but
                # usually in no single hit, so it must not be nudged unless one hit contains it
                ea, eb = draw(st.sampled_from(texted)), draw(st.sampled_from(texted))
                wa, wb = ea["text"].lower().split()[-1], eb["text"].lower().split()[0]
                lab = draw(st.sampled_from([wa + " " + wb, wa + " " + wb, wa + wb, wa[-2:] + " " + wb[:2], wa + " " + wb[:1]]))
                n["label"] = draw(st.sampled_from([lab, lab.title(), lab.upper()]))
                seam_words += [wa, wb]
                continue
            # labels that do occur in episode texts (any case): residual nudges have something to match
            if draw(st.sampled_from([False, False, True])):
                w = draw(st.sampled_from(ep_words))
                n["label"] = draw(st.sampled_from([w, w.upper(), w.capitalize()]))
        graphs[gid] = spec
    t2 = {"cache": {"enabled": False}}
    t2["k_retrieval"] = draw(st.sampled_from([10, 64, 64, 200, 200] if big else [1, 2, 3, 5, 5, 10, 10, 64]))
    t2["sim_threshold"] = draw(st.sampled_from([0.0, 0.0, 0.1, 0.3, -1.0] if big else
                                               [0.0, 0.0, 0.1, 0.3, 0.3, 0.45, 0.5, 0.6, -1.0, 1.0, 0.7071067811865476, -0.2]))
    tiers = draw(_TIER_SETS)
    if tiers is not None:
        t2["tiers"] = tiers
    if draw(st.booleans()):
        t2["exact_recent_days"] = draw(st.sampled_from([0, 1, 1, 7, 7, 30, 30, 365, 800000, 10 ** 10]))
    if draw(st.booleans()):
        t2["clusters_top_m"] = draw(st.sampled_from([0, 1, 1, 2, 2, 3, 10]))
    if draw(st.booleans()):
        t2["ranking"] = {"alpha_sim": draw(_W), "beta_recency": draw(_W), "gamma_importance": draw(_W)}
    t2["owner_scope"] = scope
    if cluster_focus:
        t2["tiers"] = draw(st.sampled_from([["cluster_semantic"], ["cluster_semantic"], ["cluster_semantic", "exact_semantic"]]))
        t2["clusters_top_m"] = draw(st.sampled_from([1, 1, 2]))
        t2["sim_threshold"] = draw(st.sampled_from([0.0, 0.1, -1.0]))
        t2["k_retrieval"] = draw(st.sampled_from([5, 10, 64]))
    if draw(st.booleans()):
        t2["residual_cap_per_turn"] = draw(st.sampled_from([0, 1, 2, 32]))
    if draw(st.sampled_from([False] * 9 + [True])):
        t2["backend"] = "lancedb"  # only a label here: the index object comes with the state
    if draw(st.sampled_from([False, False, False, True])):
        t2["reader"] = {"mode": draw(st.sampled_from(["flat", "partition", "auto"]))}
    layers = draw(st.sampled_from(["none", "none", "none", "hybrid", "hybrid", "quality", "quality", "quality+mmr", "quality+mmr",
                                   "all", "all", "mmr-only"]))
    alias = None
    if layers in ("hybrid", "all"):
        t2["hybrid"] = {"enabled": True, "anchor_top_m": draw(st.sampled_from([1, 2, 8])),
                        "walk_hops": draw(st.sampled_from([1, 2])), "edge_threshold": draw(st.sampled_from([0.0, 0.1, 0.5])),
                        "lambda_graph": draw(st.sampled_from([0.0, 0.25, 1.0, 1.0])), "degree_norm": draw(st.sampled_from(["none", "invdeg"])),
                        "max_bonus": draw(st.sampled_from([0.5, 0.0, 5.0])), "k_max": draw(st.sampled_from([1, 2, 3, 128])),
                        "damping": draw(st.sampled_from([0.0, 0.5, 1.0])), "use_graph": draw(st.sampled_from([True, True, True, False]))}
    if layers in ("quality", "quality+mmr", "all", "mmr-only"):
        q = {"enabled": layers != "mmr-only", "fusion": {"alpha_semantic": draw(st.sampled_from([0.0, 0.3, 0.6, 1.0]))}}
        if layers != "quality":
            mmr = {"enabled": True, draw(st.sampled_from(["lambda", "lambda_relevance"])): draw(st.sampled_from([0.0, 0.5, 1.0]))}
            kk = draw(st.sampled_from([None, 1, 2, 10]))
            if kk is not None:
                mmr[draw(st.sampled_from(["k", "k_final"]))] = kk
            q["mmr"] = mmr
        nz = draw(st.sampled_from([None, None, {"enabled": False}, {"enabled": True, "stemmer": "porter-lite", "min_token_len": 2}]))
        if nz is not None:
            q["normalizer"] = nz
        lx = draw(st.sampled_from([None, None, {"enabled": False}, {"bm25": {"k1": 0.0, "b": 1.0}}, {"bm25": {"k1": 2.0, "b": 0.0, "doclen_floor": 3}}]))
        if lx is not None:
            q["lexical"] = lx
        if draw(st.sampled_from([False, False, True])):
            # token aliases (rewrite, expansion, degenerate): lexical signal only
            alias = draw(st.sampled_from([{"apple": "pear"}, {"kiwi": "fig plum", "app": ""}, {"pear": "apple", "apple": "pear"}]))
        t2["quality"] = q
    vec_words = [w for e in eps if e.get("vec_full") is not None and any(e["vec_full"]) for w in (e.get("text") or "").lower().split()]
    qpool = vec_words * 2 + ep_words + world.VOCAB[:3] + seam_words * 4
    words = draw(st.one_of(st.lists(st.sampled_from(qpool), min_size=1, max_size=4), st.lists(st.sampled_from(qpool), min_size=0, max_size=4)))
    text = " ".join(words)
    if draw(st.sampled_from([False] * 5 + [True])):
        text = "  " + text.upper() + " "
    if eps and not big and draw(st.sampled_from([False] * 5 + [True])):
        # an episode stored more than once (same id and content, e.g. a reflection entry written again for a re-run
        # turn): retrieval still returns distinct episodes and the copies do not use up k slots. Mostly copies of
        # episodes the query can hit, so they sit above the k cut.
        qv0 = world.BowEncoder().vec(text)
        hot = [e for e in eps if e.get("vec_full") is not None and sum(x * y for x, y in zip(qv0, e["vec_full"])) > 0]
        for _ in range(draw(st.integers(1, 3))):
            src = draw(st.sampled_from(hot * 3 + eps))
            eps.insert(draw(st.integers(0, len(eps))), copy.deepcopy(src))
        if draw(st.booleans()):
            t2["k_retrieval"] = draw(st.sampled_from([2, 2, 3]))  # the copies compete for the k slots
    node_ids = sorted({n["id"] for s in graphs.values() for n in s["nodes"]})
    t1_ids = draw(st.lists(st.sampled_from(node_ids), max_size=3, unique=True)) if node_ids else []
    slice_k = draw(st.sampled_from([None, None, 0, 1, 2, 100]))
    gel = None
    if layers in ("hybrid", "all"):
        # edges mostly between episodes the query can hit (positive dot product), else the rerank never fires
        qv = world.BowEncoder().vec(text)
        likely = [e["id"] for e in eps if e.get("vec_full") is not None and sum(x * y for x, y in zip(qv, e["vec_full"])) > 0]
        likely = sorted(set(likely), key=likely.index)[:8]
        gel = draw(world.gel_graphs([e["id"] for e in eps] + (["ghost"] if len(eps) >= 2 else [])))
        # half of the hybrid cases by construction: the rerank fires inside a top slice (k_max 2-3) that is shorter than
        # the hit list, i.e. qualifying edges between all likely hits, >= 2 anchors or 2 hops, k and threshold admitting
        # more hits than k_max -- the untouched tail beyond k_max must survive
        tail = len(likely) >= 3 and draw(st.booleans())
        if tail:
            t2["hybrid"].update({"k_max": draw(st.sampled_from([2, 2, 3])), "use_graph": True, "edge_threshold": draw(st.sampled_from([0.0, 0.1])),
                                 "anchor_top_m": draw(st.sampled_from([2, 8]))})
            t2["k_retrieval"] = max(int(t2["k_retrieval"]), draw(st.sampled_from([5, 10])))
            t2["sim_threshold"] = min(float(t2["sim_threshold"]), draw(st.sampled_from([0.0, 0.1])))
        for i, a in enumerate(likely):
            for b in likely[i + 1:]:
                if tail or draw(st.booleans()):
                    s_, d_ = (a, b) if a <= b else (b, a)
                    w = draw(st.sampled_from([0.5, 0.9, 1.0] if tail else [0.05, 0.2, 0.5, 0.9, 1.0, -0.5]))
                    gel["edges"][f"{s_}\u2192{d_}"] = {"id": f"{s_}\u2192{d_}", "src": s_, "dst": d_, "weight": w, "rel": "coact", "attrs": {}}
    case = {"eps": eps, "graphs": graphs, "t2": t2, "agent": agent, "text": text, "t1_ids": t1_ids, "slice_k": slice_k,
            "gel": gel, "layers": layers, "workers": draw(st.sampled_from([None, None, 2, 3, 4, 8])),
            "now": _spell(draw, now_z, ["z", "z", "z", "utc", "offset", "naive"]),
            "vec_store": draw(st.sampled_from(["f32", "f32", "list", "f64"])),
            "gate": draw(st.sampled_from([False] * 5 + [True]))}
    if alias is not None:
        case["alias"] = alias
    if draw(st.sampled_from([False, False, False, False, True])):
        # warm stage cache: the same request ran before on this state under another (or the same) slice budget
        case["warm"] = {"cache": draw(st.sampled_from(["lru", "lru", "bytes"])), "slice_k": draw(st.sampled_from([None, None, 100, 8, 2, 1, 0]))}
        case["slice_k"] = draw(st.sampled_from([None, 0, 0, 1, 1, 2, 100]))
    if draw(st.sampled_from([False] * 9 + [True])):
        # retrieval straight from an on-disk embed store holding the vectors of the whole index
        case["reader"] = {"shards": draw(st.sampled_from([0, 1, 2, 3])), "norms": draw(st.booleans()),
                          "layout": draw(st.sampled_from([None, "owner_quarter"])), "batch": draw(st.sampled_from([None, 1, 2, 8192]))}
        case["workers"] = None
    return case


# ---------------------------------------------------------------- running the real stage

def _build_index(case):
    """InMemoryIndex over the case's episodes; vectors stored as float32 arrays (default), float64 arrays or lists."""
    import numpy as np
    from clematis.memory.index import InMemoryIndex

    kind = case.get("vec_store") or "f32"
    idx = InMemoryIndex()
    for e in case["eps"]:
        d = copy.deepcopy(e)
        if d.get("vec_full") is not None:
            if kind == "f32":
                d["vec_full"] = np.asarray(d["vec_full"], dtype=np.float32)
            elif kind == "f64":
                d["vec_full"] = np.asarray(d["vec_full"], dtype=np.float64)
        idx.add(d)
    return idx


def _reader_items(case):
    """[(id, vec)] written to the embed store: every episode that has a vector, in index order."""
    out, seen = [], set()
    for e in case["eps"]:
        if e.get("vec_full") is not None and str(e["id"]) not in seen:
            seen.add(str(e["id"]))
            out.append((str(e["id"]), list(e["vec_full"])))
    return out


def _reader_on(case):
    """The embed-store path engages only when a store exists; an empty memory has none (the tiered path runs)."""
    return case.get("reader") is not None and bool(_reader_items(case))


def _write_store(case, root):
    import numpy as np
    from clematis.engine.util.embed_store import write_shard

    rd = case["reader"]
    items = _reader_items(case)
    n = int(rd.get("shards") or 0)
    layout = rd.get("layout")
    if n <= 0 or not items:
        groups = [("", items)]
    else:
        groups = [(f"s{j}", items[j::n]) for j in range(n) if items[j::n]]
    for name, grp in groups:
        if layout == "owner_quarter":
            d = os.path.join(root, "ownerX", "2025Q2", name or "s0")
        else:
            d = os.path.join(root, name) if name else root
        embeds = np.asarray([v for _, v in grp], dtype=np.float32).reshape(len(grp), len(world.VOCAB))
        write_shard(d, [i for i, _ in grp], embeds, dtype="fp32", precompute_norms=bool(rd.get("norms")))


def run_t2(case, t2_override=None, tmp=None):
    from clematis.engine.stages.t2.core import t2_semantic

    world.reset_engine_globals()
    t2 = copy.deepcopy(case["t2"] if t2_override is None else t2_override)
    over = {"t2": t2}
    perf = {}
    if case.get("workers"):
        # the sharded (parallel) retrieval path must honour exactly the same contract as the sequential walk
        perf["parallel"] = {"enabled": True, "t2": True, "max_workers": int(case["workers"])}
    if case.get("gate"):
        perf["enabled"] = True
        perf["metrics"] = {"report_memory": True}
    if case.get("alias") is not None and "quality" in t2:
        ap = os.path.join(tmp, "aliases.json")
        if not os.path.exists(ap):
            with open(ap, "w", encoding="utf-8") as f:
                json.dump(case["alias"], f)
        t2["quality"]["aliasing"] = {"map_path": ap}
    if _reader_on(case):
        root = os.path.join(tmp, "store")
        if not os.path.isdir(root):
            os.makedirs(root)
            _write_store(case, root)
        perf["enabled"] = True
        part = {"enabled": True, "path": root}
        if case["reader"].get("layout"):
            part["layout"] = case["reader"]["layout"]
        perf["t2"] = {"reader": {"partitions": part}, "precompute_norms": bool(case["reader"].get("norms"))}
        t2["embed_root"] = root
        if case["reader"].get("batch"):
            t2["reader_batch"] = int(case["reader"]["batch"])
    warm = case.get("warm")
    if warm:
        # stage cache on (it is off otherwise): the checked call comes second on the same state, after a call of the
        # same request under another slice budget filled the cache
        t2["cache"] = {"enabled": True}
        if warm.get("cache") == "bytes":
            perf["enabled"] = True
            perf.setdefault("t2", {})["cache"] = {"max_entries": 64, "max_bytes": 1_000_000}
    if perf:
        over["perf"] = perf
    cfg = world.validated_cfg(over)
    now = case.get("now") or world.NOW_ISO
    ctx = world.make_ctx(cfg, agent=case["agent"], now=now, now_ms=world.NOW_MS, enc=world.BowEncoder())
    if case["slice_k"] is not None:
        ctx.slice_budgets = {"t2_k": case["slice_k"]}
    store = world.build_store(case["graphs"])
    idx = _build_index(case)
    state = {"store": store, "active_graphs": list(case["graphs"].keys()), "mem_index": idx}
    if case.get("gel") is not None:
        state["graph"] = copy.deepcopy(case["gel"])
    t1 = SimpleNamespace(graph_deltas=[{"op": "upsert_node", "id": i} for i in case["t1_ids"]], metrics={})
    sd0, id0 = world.store_digest(store), world.index_digest(idx)
    if warm:
        if warm.get("slice_k") is None:
            if hasattr(ctx, "slice_budgets"):
                del ctx.slice_budgets
        else:
            ctx.slice_budgets = {"t2_k": warm["slice_k"]}
        t2_semantic(ctx, state, case["text"], t1)
        if case["slice_k"] is None:
            if hasattr(ctx, "slice_budgets"):
                del ctx.slice_budgets
        else:
            ctx.slice_budgets = {"t2_k": case["slice_k"]}
    res = t2_semantic(ctx, state, case["text"], t1)
    if world.store_digest(store) != sd0 or world.index_digest(idx) != id0:
        raise Violation("t2_semantic modified the graph store or the memory index", case, "mutates")
    return res, cfg, state


def ref_query_text(case):
    """Query = input text + sorted labels of the nodes T1 touched (documented query expansion)."""
    labels = []
    for gid, spec in case["graphs"].items():
        nodes = {}
        for n in spec["nodes"]:
            nodes[n["id"]] = n
        for nid in sorted(set(case["t1_ids"])):
            n = nodes.get(nid)
            if n and n["label"]:
                labels.append(n["label"])
    seen, out = set(), []
    for lb in labels:
        if lb not in seen:
            seen.add(lb)
            out.append(lb)
    q = (case["text"] or "").strip()
    if out:
        q = (q + " " + " ".join(sorted(out))).strip()
    return q


class RefX(ref.Ref):
    """Reference + the documented behaviour for a recency window reaching past the earliest representable date
    (repo fix c848002: nothing is too old, instead of OverflowError)."""

    def rank(self, pool, room=None):
        # an id stored more than once (exact copies here) ranks once: one entry per id before the k cut
        seen, uniq = set(), []
        for e in pool:
            if str(e["id"]) not in seen:
                seen.add(str(e["id"]))
                uniq.append(e)
        return super().rank(uniq, room)

    def pool(self, tier):
        if tier == "exact_semantic" and self.days > 0 and self.vis:
            try:
                self.now - _dt.timedelta(days=self.days)
            except OverflowError:
                return list(self.vis)
        return super().pool(tier)


def check_case(case, rec=None):
    tmp = tempfile.mkdtemp(prefix="c11_") if (case.get("reader") is not None or case.get("alias") is not None) else None
    try:
        _check_case(case, rec, tmp)
    finally:
        if tmp is not None:
            shutil.rmtree(tmp, ignore_errors=True)


def _check_case(case, rec, tmp):
    try:
        res, cfg, state = run_t2(case, tmp=tmp)
    except Violation:
        raise
    except Exception as e:
        raise Violation(f"t2_semantic raised {type(e).__name__}: {e}", case, "raises")
    now_iso = case.get("now") or world.NOW_ISO
    reader = _reader_on(case)
    t2cfg = dict(cfg["t2"])
    k = int(t2cfg["k_retrieval"])
    thr = float(t2cfg["sim_threshold"])
    owner = ref.owner_of(t2cfg.get("owner_scope", "any"), case["agent"])
    by_id = {str(e["id"]): e for e in case["eps"]}
    hits = list(res.retrieved)
    ids = [str(h.id) for h in hits]
    m = res.metrics
    # (the embed-store reader path honours owner scope and threshold since repo fix b28b23d: same clauses on every path)
    if reader and m.get("tier_sequence") != ["embed_store"]:
        raise Violation(f"embed-store reader configured and present but tier_sequence={m.get('tier_sequence')}", case, "reader-not-engaged")

    # ---- envelope
    if len(hits) > k:
        raise Violation(f"{len(hits)} episodes returned, k={k}", case, "k-exceeded")
    if len(set(ids)) != len(ids):
        raise Violation(f"duplicate episodes returned: {ids}", case, "dup-episode")
    if m.get("k_returned") != len(hits):
        raise Violation(f"k_returned={m.get('k_returned')} but {len(hits)} hits", case, "k-returned")
    for h in hits:
        e = by_id.get(str(h.id))
        if e is None:
            raise Violation(f"returned episode {h.id!r} does not exist", case, "ghost-episode")
        if owner is not None and e.get("owner") != owner:
            raise Violation(f"episode {h.id} owned by {e.get('owner')!r} returned under scope "
                            f"{t2cfg.get('owner_scope')!r} for agent {case['agent']!r}" + (" (embed-store reader path)" if reader else ""),
                            case, "owner-scope-reader" if reader else "owner-scope")
        if e.get("vec_full") is None:
            raise Violation(f"episode {h.id} without a vector returned", case, "no-vector")
        if (h.text or "") != str(e.get("text", "")):
            raise Violation(f"hit {h.id} carries text {h.text!r}, the episode's text is {e.get('text')!r}", case, "hit-text")

    q_text = ref_query_text(case)
    qvec = world.BowEncoder().vec(q_text)
    # scores: over every episode for the reader path (its candidates are not owner-filtered before scoring)
    Rall = RefX(case["eps"], qvec, t2cfg, now_iso, None) if reader else None
    R = RefX(case["eps"], qvec, t2cfg, now_iso, owner)
    for h in hits:
        s = (Rall or R).score(by_id[str(h.id)])
        if s < thr - BAND:
            raise Violation(f"episode {h.id} has cosine {s!r} below threshold {thr!r}" + (" (embed-store reader path)" if reader else ""),
                            case, "below-threshold-reader" if reader else "below-threshold")
        if abs(float(h.score) - s) > SCORE_TOL:
            raise Violation(f"episode {h.id}: reported score {h.score!r}, cosine is {s!r}", case, "score-mismatch")

    layers_on = case["layers"] != "none"
    # ---- base (no rerank layers) result
    if layers_on:
        base_t2 = copy.deepcopy(case["t2"])
        base_t2.pop("hybrid", None)
        base_t2.pop("quality", None)
        base_res = run_t2(case, t2_override=base_t2, tmp=tmp)[0]
        base_hits = list(base_res.retrieved)
    else:
        base_res, base_hits = res, hits
    base_ids = [str(h.id) for h in base_hits]

    cluster_amb = False
    well_separated = False
    pools = {}
    if reader:
        # candidates = the store entries visible to the owner and above the threshold, top-k by (-cos, id)
        cand = [e for e in case["eps"] if e.get("vec_full") is not None and (owner is None or e.get("owner") == owner)]
        sc = {str(e["id"]): Rall.score(e) for e in cand}
        sure = [i for i in sc if sc[i] >= thr + BAND]
        if len(base_ids) < k:
            missing = sorted(i for i in sure if i not in base_ids)
            if missing:
                raise Violation(f"embed-store candidates {missing} missing although only {len(base_ids)} < k={k} returned", case, "incomplete-reader")
        got = [i for i in base_ids if i in sc]
        for o in sure:
            if o in base_ids:
                continue
            for i in got:
                same_vec = tuple(by_id[o]["vec_full"]) == tuple(by_id[i]["vec_full"])
                if sc[o] > sc[i] + BAND or (same_vec and o < i):
                    raise Violation(f"embed-store candidate {o} (cos {sc[o]!r}) omitted but {i} (cos {sc[i]!r}) returned", case, "topk-reader")
    else:
        # tier pools (union over configured tiers)
        known_tiers = [t for t in R.tiers if t in TIERS]
        for t in known_tiers:
            p = R.pool(t)
            pools[t] = {str(e["id"]) for e in (p or [])}
        allowed = set().union(*pools.values()) if pools else set()
        cluster_amb = any("cluster" in a for a in R.ambiguous)
        for h in hits:
            if str(h.id) not in allowed and not cluster_amb:
                raise Violation(f"episode {h.id} is in no configured tier's candidate set (tiers {R.tiers}, recency window "
                                f"{R.days}d, top-m {R.topm})", case, "tier-rule")

        R2 = RefX(case["eps"], qvec, t2cfg, now_iso, owner)
        want = R2.result()
        well_separated = not R2.ambiguous
        if well_separated:
            want_ids = [i for i, _, _ in want]
            if base_ids != want_ids:
                raise Violation(f"retrieved {base_ids}, documented retrieval gives {want_ids} (query {q_text!r}, owner {owner!r})",
                                case, "ref-ids")
        else:
            # completeness when fewer than k returned: every strictly eligible episode must be present
            if len(base_ids) < k and not cluster_amb:
                for t, pool in pools.items():
                    for eid in pool:
                        e = by_id[eid]
                        if e.get("vec_full") is None:
                            continue
                        if R.score(e) >= thr + BAND and eid not in base_ids and e.get("ts"):
                            raise Violation(f"eligible episode {eid} (cos {R.score(e)!r} >= {thr!r}, tier {t}) missing although only "
                                            f"{len(base_ids)} < k={k} returned", case, "incomplete")
        # the k cut of the first tier, also when bands make the exact differential unavailable: the walk fills from the
        # first tier's ranking first, so a strictly eligible member of that tier is only left out when k hits of that
        # tier rank at least as high (cosine desc, id asc; identical vectors tie exactly)
        if not well_separated and len(base_ids) >= k:
            first = next((t for t in R.tiers if t in TIERS), None)
            unsure = (first == "cluster_semantic" and cluster_amb) or \
                     (first == "exact_semantic" and any("no ts" in a for a in R.ambiguous))
            if first is not None and not unsure:
                for o in sorted(pools[first]):
                    eo = by_id[o]
                    if o in base_ids or eo.get("vec_full") is None or R.score(eo) < thr + BAND:
                        continue
                    for i in base_ids:
                        ei = by_id.get(i)
                        if ei is None or ei.get("vec_full") is None or R.score(ei) is None:
                            continue  # reported by the envelope clauses
                        same_vec = tuple(eo["vec_full"]) == tuple(ei["vec_full"])
                        if R.score(eo) > R.score(ei) + BAND or (same_vec and o < i) or i not in pools[first]:
                            raise Violation(f"episode {o} (cos {R.score(eo)!r}, first tier {first}) left out at the k={k} cut although "
                                            f"{i} (cos {R.score(ei)!r}) was returned", case, "topk-first-tier")
    # documented final order, recomputed from the reported cosine (same documented formula)
    comb = [R.combined(by_id.get(str(h.id), {}), float(h.score)) for h in base_hits]
    for i in range(len(base_hits) - 1):
        a, b = comb[i], comb[i + 1]
        if a < b - 1e-12:
            raise Violation(f"order violates the combined score: {base_ids[i]} ({a!r}) before {base_ids[i + 1]} ({b!r})", case, "order")
        if a == b and not (base_ids[i] < base_ids[i + 1]):
            raise Violation(f"tie not broken by id: {base_ids[i]} before {base_ids[i + 1]}", case, "tie-break")

    # ---- rerank layers only permute
    reordered = False
    if layers_on:
        if sorted(ids) != sorted(base_ids):
            raise Violation(f"rerank layers ({case['layers']}) changed the retrieved set: {ids} vs {base_ids}", case, "rerank-set")
        if m.get("k_returned") != base_res.metrics.get("k_returned"):
            raise Violation("rerank layers changed k_returned", case, "rerank-k")
        reordered = ids != base_ids

    # ---- result metrics describe the result (same figures the t2 log record carries)
    for res_x, hits_x, tag in ((res, hits, ""), (base_res, base_hits, " (layers off)")) if layers_on else ((res, hits, ""),):
        mx = res_x.metrics
        cos_x = [float(h.score) for h in hits_x]
        comb_x = [R.combined(by_id.get(str(h.id), {}), float(h.score)) for h in hits_x]
        for name, vals in (("sim_stats", cos_x), ("score_stats", comb_x)):
            want_st = {"mean": (sum(vals) / len(vals)) if vals else 0.0, "max": max(vals) if vals else 0.0}
            got_st = mx.get(name) or {}
            for fld in ("mean", "max"):
                g = got_st.get(fld)
                if not isinstance(g, float) or abs(g - want_st[fld]) > STAT_TOL:
                    raise Violation(f"metrics.{name}.{fld}={g!r}{tag} but the {len(vals)} returned hits give {want_st[fld]!r}", case, "metrics-" + name)
        if mx.get("owner_scope") != str(t2cfg.get("owner_scope", "any")).lower():
            raise Violation(f"metrics.owner_scope={mx.get('owner_scope')!r} for configured scope {t2cfg.get('owner_scope')!r}", case, "metrics-scope")

    # ---- slice cap and residual nudges
    cap = case["slice_k"]
    want_used = len(hits) if cap is None else min(len(hits), max(0, int(cap)))
    if m.get("k_used") != want_used:
        raise Violation(f"k_used={m.get('k_used')} with {len(hits)} hits and slice cap {cap}", case, "k-used")
    rcap = int(t2cfg.get("residual_cap_per_turn", 32))
    if (m.get("caps") or {}).get("residual_cap") != rcap:
        raise Violation(f"metrics.caps={m.get('caps')!r} but the residual cap is {rcap}", case, "metrics-caps")
    resid = res.graph_deltas_residual
    rids = [d.get("id") for d in resid]
    if any(set(d) != {"op", "id"} or d["op"] != "upsert_node" for d in resid):
        raise Violation(f"unexpected residual delta shape {resid}", case, "residual-shape")
    if len(set(rids)) != len(rids) or rids != sorted(rids):
        raise Violation(f"residual ids not unique/sorted: {rids}", case, "residual-order")
    if len(rids) > rcap:
        raise Violation(f"{len(rids)} residual nudges exceed residual cap {rcap}", case, "residual-cap")
    if m.get("k_residual") != len(rids):
        raise Violation("k_residual does not match the residual list", case, "k-residual")
    used_texts = [str(by_id[str(h.id)].get("text", "")).lower() for h in hits[:want_used]]
    node_labels = {}
    for spec in case["graphs"].values():
        for n in spec["nodes"]:
            node_labels.setdefault(n["id"], set())
            if n["label"]:
                node_labels[n["id"]].add(n["label"].lower())
    for nid in rids:
        if nid not in node_labels:
            raise Violation(f"residual nudge for node {nid!r} which exists in no active graph", case, "residual-ghost")
        if not any(lb and lb in t for lb in node_labels[nid] for t in used_texts):
            raise Violation(f"residual nudge for {nid!r}: none of its labels {sorted(node_labels[nid])} occurs in the "
                            f"{want_used} hits actually used", case, "residual-label")

    if rec is not None:
        owners = {e.get("owner") for e in case["eps"]}
        foreign_would_rank = False
        if owner is not None and len(owners) >= 2 and not reader:
            Rany = RefX(case["eps"], qvec, t2cfg, now_iso, None)
            anyres = [i for i, _, _ in Rany.result()]
            foreign_would_rank = any(by_id[i].get("owner") != owner for i in anyres)
        elif owner is not None and reader:
            foreign_would_rank = any(e.get("owner") != owner and e.get("vec_full") is not None for e in case["eps"])
        eligible = len({e["id"] for e in R.vis if e.get("vec_full") is not None and R.score(e) >= thr})
        truncates = eligible > k and len(hits) == k
        nt = foreign_would_rank or truncates or reordered
        path = "reader" if reader else ("sharded" if case.get("workers") else "sequential")
        scope = str(t2cfg.get("owner_scope")).lower()
        spell = [_ts_kind(e.get("ts")) for e in case["eps"]]
        labels = [f"scope={scope}", f"layers={case['layers']}", "path=" + path] + \
                 ([] if reader else (["well_separated"] if well_separated else ["ambiguous"])) + (["foreign_would_rank"] if foreign_would_rank else []) + \
                 (["truncates"] if truncates else []) + (["reordered"] if reordered else []) + (["hits>0"] if hits else []) + \
                 (["hits>=2"] if len(hits) >= 2 else []) + (["hits>=4"] if len(hits) >= 4 else []) + \
                 (["residual>0"] if rids else []) + (["residual=cap"] if rids and len(rids) == rcap else []) + \
                 (["used<returned"] if want_used < len(hits) else []) + \
                 (["big_memory"] if len(case["eps"]) >= 70 else []) + (["hits>64"] if len(hits) > 64 else []) + (["hits>128"] if len(hits) > 128 else []) + \
                 (["dup_ids_in_index"] if len(by_id) < len(case["eps"]) else []) + \
                 (["warm_cache=" + case["warm"]["cache"]] if case.get("warm") else []) + \
                 (["warm_cache&smaller_cap"] if case.get("warm") and cap is not None and (case["warm"]["slice_k"] is None or case["warm"]["slice_k"] > cap) else []) + \
                 (["cluster_focus"] if R.tiers[:1] == ["cluster_semantic"] and sum(1 for e in R.vis if not (e.get("aux") or {}).get("cluster_id")) >= 2 else []) + \
                 (["gate=on"] if case.get("gate") else []) + (["alias"] if case.get("alias") is not None else []) + \
                 ([f"agent={case['agent']!r}"] if case["agent"] in ("", "a") and scope == "agent" else []) + \
                 (["days=overflow"] if int(t2cfg.get("exact_recent_days", 30)) >= 800000 and "exact_semantic" in R.tiers else []) + \
                 (["tiers=dup_or_empty"] if len(set(R.tiers)) != len(R.tiers) or not R.tiers else []) + \
                 (["now!=default"] if now_iso != world.NOW_ISO else []) + \
                 (["neg_cos_hit"] if any(float(h.score) < 0 for h in hits) else []) + \
                 [f"ts={kd}" for kd in sorted(set(spell)) if kd not in ("z", "utc")] + \
                 (["vec_store=" + str(case.get("vec_store"))] if case.get("vec_store") not in (None, "f32") else []) + \
                 (["hits>k_max"] if case["layers"] in ("hybrid", "all") and len(hits) > int(t2cfg["hybrid"]["k_max"]) else []) + \
                 (["hybrid_fired"] if m.get("hybrid_used") else []) + \
                 (["hybrid_fired&tail"] if m.get("hybrid_used") and len(hits) > int(t2cfg["hybrid"]["k_max"]) else [])
        rec.case(nontrivial=nt, dig=digest(case) if nt else None, labels=labels,
                 sample={"query": q_text, "agent": case["agent"], "t2": case["t2"],
                         "episodes": [(e["id"], e.get("owner"), e.get("text"), e.get("ts")) for e in case["eps"]][:8],
                         "retrieved": [(h.id, round(float(h.score), 6)) for h in hits], "residual": rids} if nt else None)


def _ts_kind(ts):
    if not ts:
        return "missing"
    if ts.endswith("Z"):
        return "frac" if "." in ts else "z"
    if len(ts) == 10:
        return "date"
    if ts.endswith("+00:00"):
        return "space" if " " in ts else "utc"
    if " " in ts:
        return "space"
    if "+" in ts[10:] or "-" in ts[10:]:
        return "offset"
    return "naive"


def sub_retrieval(rec, seed, shard, nshards, n=400, shrink=True):
    run_hypothesis(rec, seed, cases(), lambda c: check_case(c, rec), max_examples=n, shrink=shrink, name="retrieval")


def _fix_floats(x):
    if isinstance(x, dict):
        if set(x) == {"__float__"}:
            return float(x["__float__"])
        return {k: _fix_floats(v) for k, v in x.items()}
    if isinstance(x, list):
        return [_fix_floats(v) for v in x]
    return x


def replay_case(case):
    check_case(_fix_floats(case), None)


SUBCHECKS = [
    Sub("retrieval", sub_retrieval, quick={"n": 250}, thorough={"n": 5000}, shards_quick=8, shards_thorough=16,
        replay=replay_case),
]
