"""C13 — planning and speaking stay within caps; untrusted plans are sanitised.

Sub-checks
  planner      deliberate(bundle) + rag_once(bundle, plan, retrieve_fn) on generated bundles: purity, op cap
               min(per-turn, per-slice), Speak first with the threshold intent, RequestRetrieve only below tau_low,
               EditGraph only at/above tau_low, intent rank monotone in s_max, one retrieve call at most.
  chain        validated config (in the runtime shapes callers hand to ctx.cfg: attribute dict, plain dict, namespace of
               dicts, Config dataclass; optional template_file / per-turn cap outside [1,16] edited in after validation)
               + ctx + synthetic T1/T2 results (dict / _score / EpisodeRef hits) -> make_plan_bundle -> deliberate ->
               make_dialog_bundle -> speak -> utterance filter: the *configured* caps/thresholds/budget are the ones that bind.
  speaker      speak / llm_speak on generated dialogue bundles (templates with every/unknown placeholders, stray braces,
               style prefixes, snippets): whitespace-token count <= budget, also after the orchestrator's filter.
  refine       full orchestrator turns, counting wrappers on the retrieval stage and on rag_once: <= 1 refinement per turn for
               EVERY runtime value of t3.max_rag_loops (0/1 through the validator, 2..16 edited into the validated config),
               none at 0; the turn's first plan follows the policy on the bundle the turn built; utterance (rule-based and
               LLM backend, template files) within budget; plan within caps (runtime per-turn cap 0/17 as well).
  llm_planner  plan_with_llm with adapters returning the sanitiser corpus: a plan is produced only from text the sanitiser
               accepts, and then it is the sanitised object; everything else ends in the empty fallback plan.
  sanitiser    grammar-generated planner texts (valid PLANNER_V1 objects -> mutated) against an independent
               "one JSON object, at most one fence, within documented limits" reference + the repo's own schema.
  sanitiser_atheris   byte target fuzz/c13_sanitize_fuzz.py with the same oracle.
"""
from __future__ import annotations

import copy
import json
import math
import os
import shutil
import subprocess
import sys
import tempfile
from dataclasses import asdict, is_dataclass
from types import SimpleNamespace

from hypothesis import strategies as st

from harness.runner import Sub, Violation, run_hypothesis, digest
from harness import world

LEVEL = "exploration"
RULE = ("planner: Hypothesis bundles in the real bundle shape; s_max drawn on a grid around tau_low/tau_high (equality, "
        "+-1ulp, +-1e-9, +-4e-7, +-4e-4, +-4e-3) and beyond [0,1], node deltas around epsilon_edit, op cap 0-16, slice cap "
        "0-16/absent; non-trivial = s_max within 1e-6 of a threshold or the cap binds (wanted ops > cap). chain: validated "
        "configs (thresholds, caps, tokens, template, scheduler slice cap) in four runtime shapes, optionally with a template "
        "file or a per-turn cap of 0/17/40 edited in after validation, + synthetic T1/T2 results through the real bundle "
        "builders; non-trivial = configured value differs from its default and decides the outcome, or the cap/budget binds. "
        "speaker: generated templates/styles/snippets/budgets, every kind of Unicode whitespace between words; non-trivial = "
        "untruncated text exceeds the budget or the utterance filter fires. refine: full turns on low-similarity worlds, "
        "runtime max_rag_loops 0-16, rule-based and LLM dialogue backend; non-trivial = the planner requested retrieval. "
        "sanitiser: valid PLANNER_V1 object -> 0-2 object mutations -> serialisation -> 0-2 text mutations; non-trivial = "
        "text whose core parses as JSON and that carries >= 1 mutation (incl. every size-limited field pushed over / exactly to "
        "its limit by whitespace of each str.strip() kind on either side). llm_planner: the same texts through plan_with_llm. "
        "Distinct = digest of the generated case.")
ASSUMPTIONS = ["thresholds are in the validator's accepted domain (0 <= tau_low <= tau_high <= 1, epsilon_edit in [0,1]); "
               "s_max finite; token budgets >= 1 (validator: t3.tokens >= 1); op caps >= 0",
               "intent reference = documented rule (tests/test_t3_policy.py, t3.policy block): s>=tau_high summary; "
               "s>=tau_low assertion (labels) / ack (no labels); else question",
               "token count = len(utterance.split()) (the repo's documented whitespace tokenisation)",
               "one code fence around the JSON object is tolerated (sanitiser docstring and tests/llm/test_prompt_safety.py); "
               "leading/trailing Unicode whitespace is not prose",
               "adapters honour the LLMResult contract (text is a str); they may return more tokens than asked and may "
               "raise any Exception subclass",
               "refine: every call of the retrieval stage entry point is observed (the wrapper sits in front of the stage cache); "
               "with the turn-level cache on, the turn's own retrieval may be served without a stage call, which only lowers the count",
               "refine: the utterance is what the turn hands to the meta-filter (TurnResult.line echoes the user's input when the "
               "utterance is empty; that echo is not an utterance)",
               "runtime configurations are validated configurations with single leaves edited afterwards (max_rag_loops 2-16, "
               "max_ops_per_turn 0/17/40, dialogue.template_file as scripts/chat.py adds it), in the shapes the repo's own callers use"]

FID_THRESHOLDS = "t3-policy-thresholds-not-wired"

DEF_HI, DEF_LO, DEF_EPS = 0.8, 0.4, 0.10
RANK = {"question": 0, "ack": 1, "assertion": 1, "summary": 2}
MAX_RAW = 20000          # documented raw size guard of the sanitiser
PLAN_MAX_ITEMS, ITEM_MAX, RAT_MAX = 16, 200, 2000   # docs/m3/llm_adapter.md "Caps"


def _fix_floats(x):
    if isinstance(x, dict):
        if set(x) == {"__float__"}:
            return float(x["__float__"])
        return {k: _fix_floats(v) for k, v in x.items()}
    if isinstance(x, list):
        return [_fix_floats(v) for v in x]
    return x


def ntok(s) -> int:
    return len((s or "").split())


def nxt(x, up=True):
    return math.nextafter(x, math.inf if up else -math.inf)


# =====================================================================================================
# reference model of the documented policy
# =====================================================================================================

def ref_intent(s, lo, hi, has_labels):
    if s >= hi:
        return "summary"
    if s >= lo:
        return "assertion" if has_labels else "ack"
    return "question"


def ref_labels(bundle):
    labels = list((bundle.get("text") or {}).get("labels_from_t1") or [])
    if not labels:
        labels = [str(n.get("label", n.get("id"))) for n in (bundle.get("t1") or {}).get("touched_nodes", [])]
    return sorted({str(x) for x in labels})


def op_view(op):
    if is_dataclass(op):
        return asdict(op)
    if isinstance(op, dict):
        return dict(op)
    return {k: v for k, v in vars(op).items()}


def plan_view(plan):
    return {"version": getattr(plan, "version", None), "reflection": getattr(plan, "reflection", None),
            "ops": [op_view(o) for o in (getattr(plan, "ops", None) or [])],
            "request_retrieve": getattr(plan, "request_retrieve", None)}


def plan_problem(ops, s, lo, hi, eps, bundle, cap, tokens=None, full=True):
    """First disagreement between a planner output and the documented policy, as (sig, message) or None."""
    kinds = [getattr(o, "kind", None) for o in ops]
    if len(ops) > cap:
        return "op-cap", f"{len(ops)} ops {kinds} exceed min(per-turn cap, slice cap) = {cap}"
    if cap >= 1 and not ops:
        return "no-speak", f"cap {cap} >= 1 but the plan is empty (must be led by a Speak op)"
    if not ops:
        return None
    if kinds[0] != "Speak":
        return "speak-first", f"ops[0] is {kinds[0]}, not Speak: {kinds}"
    if any(k not in ("Speak", "EditGraph", "RequestRetrieve") for k in kinds):
        return "op-kind", f"unexpected op kinds {kinds}"
    labels = ref_labels(bundle)
    want = ref_intent(s, lo, hi, bool(labels))
    got = getattr(ops[0], "intent", None)
    if got != want:
        return "intent", (f"Speak intent {got!r}, documented thresholds give {want!r} "
                          f"(s_max={s!r}, tau_low={lo!r}, tau_high={hi!r}, labels={labels[:5]})")
    tl = list(getattr(ops[0], "topic_labels", []) or [])
    if tl != sorted(set(tl)) or not set(tl) <= set(labels):
        return "labels", f"topic_labels {tl} are not a sorted, de-duplicated subset of the bundle labels {labels}"
    if tokens is not None and getattr(ops[0], "max_tokens", None) != tokens:
        return "speak-budget", f"Speak.max_tokens={getattr(ops[0], 'max_tokens', None)!r}, configured token budget is {tokens}"
    n_rr = kinds.count("RequestRetrieve")
    if n_rr > 1:
        return "rr-twice", f"RequestRetrieve emitted {n_rr} times: {kinds}"
    if n_rr and not (s < lo):
        return "rr-above-low", f"RequestRetrieve although s_max={s!r} is not below tau_low={lo!r}"
    if full and s < lo and cap >= 2 and not n_rr:
        return "rr-missing", f"s_max={s!r} < tau_low={lo!r} with cap {cap} but no RequestRetrieve: {kinds}"
    for o in ops:
        if getattr(o, "kind", None) == "EditGraph":
            if not (s >= lo):
                return "edit-below-low", f"EditGraph although s_max={s!r} < tau_low={lo!r}"
            elig = {str(n.get("id")) for n in (bundle.get("t1") or {}).get("touched_nodes", [])
                    if abs(float(n.get("delta", 0.0))) >= eps}
            ids = [e.get("id") for e in o.edits]
            if not ids or ids != sorted(ids) or not set(ids) <= elig:
                return "edit-ids", f"EditGraph ids {ids} are not an id-sorted non-empty subset of nodes with |delta| >= {eps!r}: {sorted(elig)}"
        if getattr(o, "kind", None) == "RequestRetrieve":
            if int(getattr(o, "k", 0)) < 1 or getattr(o, "owner", None) not in ("agent", "world", "any"):
                return "rr-shape", f"RequestRetrieve k={getattr(o, 'k', None)!r} owner={getattr(o, 'owner', None)!r}"
            if getattr(o, "query", None) != (bundle.get("text") or {}).get("input", ""):
                return "rr-query", f"RequestRetrieve query {getattr(o, 'query', None)!r} is not the input text"
    return None


# =====================================================================================================
# (1) planner
# =====================================================================================================

GRID = [0.0, 0.1, 0.25, 0.4, 0.5, 0.8, 1.0]
LABELS = ["apple", "pear", "Zeta", "alpha", "alpha", "big apple", "é", "", "kiwi", "fig", "plum"]
NIDS = ["a", "b", "c", "d", "e", "f", "g", "h", "n:1", "ä", "B", "10", "9"]


def _unit():
    return st.one_of(st.sampled_from(GRID), st.sampled_from(GRID), st.floats(min_value=0.0, max_value=1.0, allow_nan=False))


@st.composite
def policies(draw):
    """-> (policy dict or None, effective lo, hi, eps) with 0 <= lo <= hi <= 1."""
    if draw(st.sampled_from([True, False, False, False])):
        return None, DEF_LO, DEF_HI, DEF_EPS
    a, b = draw(_unit()), draw(_unit())
    lo, hi = min(a, b), max(a, b)
    if draw(st.sampled_from([True, False, False, False, False])):
        hi = lo
    eps = draw(_unit())
    pol = {"tau_high": hi, "tau_low": lo, "epsilon_edit": eps}
    # partial blocks (defaults fill in) as long as the effective pair stays ordered
    drop = draw(st.sampled_from([(), (), (), ("tau_high",), ("tau_low",), ("epsilon_edit",), ("tau_high", "epsilon_edit")]))
    for k in drop:
        trial = {kk: v for kk, v in pol.items() if kk != k}
        if trial.get("tau_high", DEF_HI) >= trial.get("tau_low", DEF_LO):
            pol = trial
    return pol, pol.get("tau_low", DEF_LO), pol.get("tau_high", DEF_HI), pol.get("epsilon_edit", DEF_EPS)


def around(t):
    # equality, +-1 ulp, and offsets just inside every plausible quantisation step (1e-9 .. 1e-2)
    return [t, t, nxt(t), nxt(t, False), t + 1e-9, t - 1e-9, t + 4e-7, t - 4e-7, t + 4e-4, t - 4e-4, t + 4e-3, t - 4e-3,
            t + 0.05, t - 0.05]


@st.composite
def s_values(draw, lo, hi):
    pool = around(lo) + around(hi) + [0.0, 1.0, -0.25, 0.2, 0.6, 0.9, 1.0000001, 1.5]
    return draw(st.one_of(st.sampled_from(pool), st.sampled_from(pool), st.floats(min_value=-0.5, max_value=1.5, allow_nan=False)))


@st.composite
def touched_nodes(draw, eps):
    ids = draw(st.one_of(st.just([]), st.lists(st.sampled_from(NIDS), min_size=0, max_size=10, unique=True),
                         st.lists(st.sampled_from(NIDS), min_size=2, max_size=10, unique=True)))
    dpool = around(eps) + [-x for x in around(eps)] + [0.0, -0.0, 1.0, -1.0, 0.2, 0.05]
    out = []
    for nid in ids:
        lab = draw(st.sampled_from([nid, nid.upper(), "apple", "big apple"]))
        out.append({"id": nid, "label": lab, "delta": float(draw(st.sampled_from(dpool)))})
    return out


@st.composite
def planner_cases(draw):
    pol, lo, hi, eps = draw(policies())
    s = draw(s_values(lo, hi))
    s2 = draw(s_values(lo, hi))
    sim = draw(st.sampled_from(["present"] * 7 + ["absent"]))
    nodes = draw(touched_nodes(eps))
    labels = draw(st.one_of(st.just([]), st.lists(st.sampled_from(LABELS), max_size=8)))
    ops = draw(st.one_of(st.integers(0, 16), st.sampled_from([0, 1, 2, 3, 3])))
    slice_cap = draw(st.one_of(st.none(), st.none(), st.integers(0, 16), st.sampled_from([0, 1, 2, 3])))
    tokens = draw(st.sampled_from([1, 2, 8, 128, 256, 512]))
    t2 = {"owner_scope": draw(st.sampled_from(["any", "agent", "world", "weird"])),
          "k_retrieval": draw(st.sampled_from([0, 1, 2, 6, 64])), "sim_threshold": draw(st.sampled_from([0.0, 0.3, 0.9]))}
    text = draw(st.sampled_from(["hello world", "", "apple pear", "ünï cödé \n x"]))
    # refinement part
    n_hits = draw(st.integers(0, 4))
    hpool = around(lo) + around(hi) + [0.0, 1.0, -0.3, 0.33]
    hits = [{"id": f"x{i}", "score": float(draw(st.sampled_from(hpool))), "owner": draw(st.sampled_from(["any", "A"])),
             "quarter": "2025Q3"} for i in range(n_hits)]
    rag = {"hits": hits, "already_used": draw(st.sampled_from([False, False, False, True])),
           "plan": draw(st.sampled_from(["own", "own", "crafted", "crafted2"])),
           "result_shape": draw(st.sampled_from(["dict", "dict", "score_key", "nondict"]))}
    return {"policy": pol, "s_max": s, "s2": s2, "sim": sim, "nodes": nodes, "labels": labels, "ops": ops,
            "slice": slice_cap, "tokens": tokens, "t2": t2, "text": text, "rag": rag, "entry": draw(st.sampled_from(ENTRIES))}


def build_bundle(case, s=None):
    """The real bundle shape (bundle.assemble_bundle) with optional t3.policy, as tests/test_t3_rag.py passes it."""
    s = case["s_max"] if s is None else s
    t3 = {"max_rag_loops": 1, "tokens": case["tokens"], "temp": 0.7}
    if case["policy"] is not None:
        t3["policy"] = dict(case["policy"])
    metrics = {"tier_sequence": [], "k_returned": 0, "cache_used": False}
    if case["sim"] == "present":
        metrics["sim_stats"] = {"mean": s / 2.0, "max": s}
    return {"version": "t3-bundle-v1", "now": "2025-09-19T00:00:00+00:00",
            "agent": {"id": "A", "style_prefix": "", "caps": {"tokens": case["tokens"], "ops": case["ops"]}},
            "world": {"hot_labels": [], "k": 0},
            "t1": {"touched_nodes": copy.deepcopy(case["nodes"]),
                   "metrics": {"pops": 0, "iters": 0, "propagations": 0, "radius_cap_hits": 0, "layer_cap_hits": 0,
                               "node_budget_hits": 0}},
            "t2": {"retrieved": [], "metrics": metrics},
            "text": {"input": case["text"], "labels_from_t1": list(case["labels"])},
            "cfg": {"t3": t3, "t2": dict(case["t2"])},
            "slice_caps": ({} if case["slice"] is None else {"t3_ops": case["slice"]})}


def eff_policy(pol):
    pol = pol or {}
    return pol.get("tau_low", DEF_LO), pol.get("tau_high", DEF_HI), pol.get("epsilon_edit", DEF_EPS)


ENTRIES = ["policy", "legacy", "package", "run_policy"]


def deliberate_via(entry):
    """The rule-based planner through one of its public entry points: t3/policy.py, the legacy facade (t3/legacy.py; this is
    the function the package exports and the orchestrator imports), the package attribute, run_policy's rule-based branch."""
    from clematis.engine.types import Plan

    if entry == "legacy":
        from clematis.engine.stages.t3.legacy import deliberate
        return deliberate
    if entry == "package":
        import clematis.engine.stages.t3 as t3pkg
        return t3pkg.deliberate
    if entry == "run_policy":
        from clematis.engine.stages.t3.policy import run_policy

        def via(bundle):
            out = run_policy({"name": "rulebased", "meta": {}}, bundle, bundle.get("cfg", {}), None)
            return Plan(version="t3-plan-v1", reflection=False, ops=list(out.get("plan") or []), request_retrieve=None)
        return via
    from clematis.engine.stages.t3.policy import deliberate
    return deliberate


def check_planner(case, rec=None):
    from clematis.engine.stages.t3.legacy import rag_once
    from clematis.engine.types import Plan, SpeakOp, RequestRetrieveOp

    entry = case.get("entry", "policy")
    deliberate = deliberate_via(entry)
    deliberate_other = deliberate_via(ENTRIES[(ENTRIES.index(entry) + 1) % len(ENTRIES)])

    lo, hi, eps = eff_policy(case["policy"])
    s = case["s_max"] if case["sim"] == "present" else 0.0
    cap = case["ops"] if case["slice"] is None else min(case["ops"], case["slice"])
    b = build_bundle(case)
    snap = copy.deepcopy(b)
    try:
        p1 = deliberate(b)
    except Exception as e:
        raise Violation(f"deliberate raised {type(e).__name__}: {e}", case, "planner-raises")
    if b != snap:
        raise Violation("deliberate modified its bundle", case, "bundle-mutated")
    p2 = deliberate(b)
    if plan_view(p1) != plan_view(p2):
        raise Violation("two calls of deliberate on the same bundle differ", case, "planner-nondeterministic")
    prob = plan_problem(list(p1.ops), s, lo, hi, eps, b, cap, tokens=case["tokens"])
    if prob:
        raise Violation(f"[{entry}] {prob[1]}", case, prob[0])
    # the same bundle through the next entry point: judged by the same documented policy (not by agreement with the first)
    other = ENTRIES[(ENTRIES.index(entry) + 1) % len(ENTRIES)]
    b3 = copy.deepcopy(snap)
    try:
        p3 = deliberate_other(b3)
    except Exception as e:
        raise Violation(f"[{other}] deliberate raised {type(e).__name__}: {e}", case, "planner-raises")
    if b3 != snap:
        raise Violation(f"[{other}] the planner modified its bundle", case, "bundle-mutated")
    prob = plan_problem(list(p3.ops), s, lo, hi, eps, b3, cap, tokens=case["tokens"])
    if prob:
        raise Violation(f"[{other}] {prob[1]}", case, prob[0])

    # monotone intent rank in s_max
    if case["sim"] == "present":
        b2 = build_bundle(case, s=case["s2"])
        q = deliberate(b2)
        prob = plan_problem(list(q.ops), case["s2"], lo, hi, eps, b2, cap, tokens=case["tokens"])
        if prob:
            raise Violation(f"second bundle (s_max={case['s2']!r}): {prob[1]}", case, prob[0])
        if p1.ops and q.ops:
            (sa, ia), (sb, ib) = sorted([(s, p1.ops[0].intent), (case["s2"], q.ops[0].intent)], key=lambda t: t[0])
            if RANK[ia] > RANK[ib]:
                raise Violation(f"intent rank not monotone in s_max: {sa!r}->{ia}, {sb!r}->{ib}", case, "intent-monotone")

    # ---- one-shot refinement on the same bundle
    rag = case["rag"]
    if rag["plan"] == "own":
        plan = p1
    else:
        sp = SpeakOp(kind="Speak", intent="question", topic_labels=[], max_tokens=case["tokens"])
        rr = RequestRetrieveOp(kind="RequestRetrieve", query=case["text"], owner="any", k=3, tier_pref="cluster_semantic", hints={})
        plan = Plan(version="t3-plan-v1", reflection=False, ops=[sp, rr] + ([rr] if rag["plan"] == "crafted2" else []),
                    request_retrieve=None)
    has_rr = any(getattr(o, "kind", None) == "RequestRetrieve" for o in plan.ops)
    calls = []

    def retrieve_fn(payload):
        calls.append(copy.deepcopy(payload))
        if rag["result_shape"] == "nondict":
            return None
        key = "_score" if rag["result_shape"] == "score_key" else "score"
        return {"retrieved": [{**{k: v for k, v in h.items() if k != "score"}, key: h["score"]} for h in rag["hits"]],
                "metrics": {"k_returned": len(rag["hits"])}}

    pv0 = plan_view(plan)
    try:
        r1, m1 = rag_once(b, plan, retrieve_fn, already_used=rag["already_used"])
    except Exception as e:
        raise Violation(f"rag_once raised {type(e).__name__}: {e}", case, "rag-raises")
    n_calls = len(calls)
    if b != snap or plan_view(plan) != pv0:
        raise Violation("rag_once modified its bundle or the input plan", case, "rag-mutates")
    want_calls = 1 if (has_rr and not rag["already_used"]) else 0
    if n_calls != want_calls:
        raise Violation(f"rag_once called the retrieval function {n_calls} times (plan has RequestRetrieve={has_rr}, "
                        f"already_used={rag['already_used']})", case, "rag-calls")
    r2, m2 = rag_once(b, plan, retrieve_fn, already_used=rag["already_used"])
    if plan_view(r1) != plan_view(r2) or m1 != m2:
        raise Violation("two calls of rag_once differ", case, "rag-nondeterministic")
    for c in calls:
        if int(c.get("k", 0)) < 1 or c.get("owner") not in ("agent", "world", "any"):
            raise Violation(f"retrieval payload k={c.get('k')!r} owner={c.get('owner')!r}", case, "rag-payload")
    if want_calls == 0:
        if plan_view(r1) != pv0:
            raise Violation("rag_once changed the plan without a refinement", case, "rag-changed-unrefined")
        if bool(m1.get("rag_used")) or bool(m1.get("rag_blocked")) != bool(rag["already_used"]):
            raise Violation(f"rag metrics {m1} for already_used={rag['already_used']}, has_rr={has_rr}", case, "rag-metrics")
    else:
        scores = [h["score"] for h in rag["hits"]] if rag["result_shape"] != "nondict" else []
        post = max(s, max(scores) if scores else 0.0)
        if len(r1.ops) > cap:
            raise Violation(f"refined plan has {len(r1.ops)} ops, cap min(per-turn, slice) = {cap}", case, "rag-op-cap")
        if r1.ops:
            if getattr(r1.ops[0], "kind", None) != "Speak":
                raise Violation("refined plan is not led by Speak", case, "rag-speak-first")
            want = ref_intent(post, lo, hi, bool(ref_labels(b)))
            if r1.ops[0].intent != want:
                raise Violation(f"refined intent {r1.ops[0].intent!r}, thresholds give {want!r} for evidence "
                                f"max(pre={s!r}, retrieved={scores}) (tau_low={lo!r}, tau_high={hi!r})", case, "rag-intent")
            if r1.ops[0].max_tokens != case["tokens"]:
                raise Violation(f"refined Speak.max_tokens={r1.ops[0].max_tokens}", case, "rag-speak-budget")
        had_edit = any(getattr(o, "kind", None) == "EditGraph" for o in plan.ops)
        n_edit = sum(1 for o in r1.ops if getattr(o, "kind", None) == "EditGraph")
        if n_edit > 1 or (n_edit and not had_edit and not (post >= lo)):
            raise Violation(f"refined plan has {n_edit} EditGraph ops with evidence {post!r} vs tau_low {lo!r}", case, "rag-edit")
        if not m1.get("rag_used") or m1.get("rag_blocked"):
            raise Violation(f"rag metrics {m1} after a refinement", case, "rag-metrics")

    if rec is not None:
        near = any(abs(s - t) <= 1e-6 for t in (lo, hi))
        elig = any(abs(n["delta"]) >= eps for n in case["nodes"])
        wanted = 1 + (1 if (s >= lo and elig) else 0) + (1 if s < lo else 0)
        binding = wanted > cap
        kinds = [o.kind for o in p1.ops]
        labels = [f"intent={p1.ops[0].intent}" if p1.ops else "empty-plan", f"ops={len(kinds)}"]
        labels += ["near-threshold"] if near else []
        labels += ["near-1ulp"] if any(s != t and abs(s - t) <= 2.5e-16 for t in (lo, hi)) else []
        labels += ["near-1e-9..1e-6"] if any(1e-10 <= abs(s - t) <= 1e-6 for t in (lo, hi)) else []
        labels += ["s>1"] if s > 1.0 else []
        labels += ["cap-binds"] if binding else []
        labels += ["cap=0"] if cap == 0 else []
        labels += ["slice-binds"] if case["slice"] is not None and case["slice"] < case["ops"] else []
        labels += ["has-edit"] if "EditGraph" in kinds else []
        labels += ["has-rr"] if "RequestRetrieve" in kinds else []
        labels += ["policy-absent"] if case["policy"] is None else []
        labels += [f"entry={entry}"]
        labels += ["refined"] if want_calls else (["rag-blocked"] if rag["already_used"] else ["rag-noop"])
        nt = near or binding
        rec.case(nontrivial=nt, dig=digest(case) if nt else None, labels=labels,
                 sample={"s_max": s, "policy": case["policy"], "cap": [case["ops"], case["slice"]], "ops": kinds,
                         "intent": p1.ops[0].intent if p1.ops else None} if nt else None)


def sub_planner(rec, seed, shard, nshards, n=1200, shrink=True):
    run_hypothesis(rec, seed, planner_cases(), lambda c: check_planner(c, rec), max_examples=n, shrink=shrink, name="planner")


def replay_planner(case):
    check_planner(_fix_floats(case), None)


# =====================================================================================================
# (2) chain: config -> ctx -> real bundle builders -> planner -> dialogue -> filter
# =====================================================================================================

WS_TEXTS = ["x\ny\tz w", "nb\u00a0sp em\u2003sp", "a\r\nb\x0bc\x1fd\u2028e\x85f", "one\n\ntwo\n three\tfour  five"]
FILE_TEMPLATES = ["{style_prefix}|\nsummary: {labels}.\nnext: {intent}\n", "line one\nline two\n{snippets_text}\n{labels}\tend",
                  "a\tb\tc\td\te\tf {intent}", "{identity}\n\n{snippets_text}\n", "w1\u00a0w2\u2003w3\x1cw4 w5\x0bw6 {labels}",
                  "one two three"]
TEMPLATES = ["{style_prefix}| summary: {labels}. next: {intent}", "summary: {labels}. next: {intent}",
             "{labels} {intent} {snippets} {snippets_text} {style_prefix} {identity}", "{unknown} x", "a { b", "one two three four five",
             "{identity}\n{snippets_text}", "I am Qwen {intent}"]
STYLES = ["", "", "calm", "calm voice", " lead ", "a|b", "two\nlines"]


@st.composite
def chain_cases(draw):
    pol, lo, hi, eps = draw(policies())
    s = draw(s_values(lo, hi))
    t3 = {"max_ops_per_turn": draw(st.one_of(st.integers(1, 16), st.sampled_from([1, 2, 3]))),
          "tokens": draw(st.sampled_from([1, 2, 3, 5, 8, 13, 256])), "max_rag_loops": draw(st.sampled_from([0, 1]))}
    if pol is not None:
        t3["policy"] = pol
    dlg = {}
    if draw(st.booleans()):
        dlg["template"] = draw(st.sampled_from(TEMPLATES))
    if draw(st.booleans()):
        dlg["include_top_k_snippets"] = draw(st.integers(0, 3))
    if dlg:
        t3["dialogue"] = dlg
    slice_cap = draw(st.one_of(st.none(), st.none(), st.integers(0, 16), st.sampled_from([0, 1, 2])))
    deltas = []
    for n in draw(touched_nodes(eps)):
        d = {"op": "upsert_node", "id": n["id"]}
        shape = draw(st.sampled_from(["bare", "delta", "delta+label"]))
        if shape != "bare":
            d["delta"] = n["delta"]
        if shape == "delta+label":
            d["label"] = n["label"]
        deltas.append(d)
    n_hits = draw(st.integers(0, 3))
    hits = [{"id": f"ep{i}", "score": float(draw(st.sampled_from([s, 0.0, 0.3, 0.9]))), "owner": "A",
             "text": draw(st.sampled_from(["apple pear", "", "I am Qwen", "a b c d e f g h"] + WS_TEXTS))} for i in range(n_hits)]
    case = {"t3": t3, "s_max": s, "slice": slice_cap, "deltas": deltas, "hits": hits,
            "style": draw(st.sampled_from(STYLES)), "text": draw(st.sampled_from(["hello world", "apple", ""])),
            "sim": draw(st.sampled_from(["present"] * 7 + ["absent"]))}
    # runtime shapes of ctx.cfg seen in the repo: attribute dict (run_smoke_turn, scripts/chat.py), plain dict (tests),
    # top-level namespace with dict leaves (scripts/console.py), the Config dataclass (engine/types.py)
    case["cfg_shape"] = draw(st.sampled_from(["attr", "attr", "plain", "ns", "dataclass"]))
    case["hit_shape"] = draw(st.sampled_from(["dict", "dict", "_score", "obj"]))
    if draw(st.sampled_from([False, False, True])):
        # scripts/chat.py adds t3.dialogue.template_file to the runtime config (not a validator key): edited in after validation
        case["template_file"] = {"ext": draw(st.sampled_from(["txt", "txt", "json", "jsonl", "missing"])),
                                 "text": draw(st.sampled_from(FILE_TEMPLATES))}
    if draw(st.sampled_from([False, False, False, True])):
        # per-turn op cap outside the validator's [1, 16] ("caps incl. 0"): runtime configs built by scripts / the Config
        # dataclass never pass the validator, so the value is edited into the validated configuration
        case["ops_rt"] = draw(st.sampled_from([0, 0, 17, 40]))
    if slice_cap is not None and draw(st.booleans()):
        case["slice_extra"] = draw(st.sampled_from([{"t1_pops": 0}, {"t2_k": None, "wall_ms": 5}, {"t1_iters": 3, "t3_ops_x": 0}]))
    return case


def _plain(x):
    if isinstance(x, dict):
        return {k: _plain(v) for k, v in x.items()}
    if isinstance(x, list):
        return [_plain(v) for v in x]
    return x


def _write_template_file(spec, root):
    """Materialise a t3.dialogue.template_file spec under `root`; returns the path to configure."""
    ext = spec["ext"]
    path = os.path.join(root, "dialogue_template." + ("txt" if ext == "missing" else ext))
    if ext == "missing":
        return path
    with open(path, "w", encoding="utf-8", newline="") as f:
        if ext == "txt":
            f.write(spec["text"])
        elif ext == "json":
            json.dump({"template": spec["text"]}, f)
        else:
            f.write("\n" + json.dumps({"template": spec["text"]}) + "\n" + json.dumps({"template": "second line is ignored"}) + "\n")
    return path


def _shape_cfg(cfg, shape):
    """The validated configuration in one of the runtime shapes the repo's own callers hand to ctx.cfg."""
    if shape == "plain":
        return _plain(cfg)
    if shape == "ns":
        return SimpleNamespace(**{k: v for k, v in cfg.items()})
    if shape == "ns_plain":
        return SimpleNamespace(**_plain(cfg))
    if shape == "dataclass":
        from clematis.engine.types import Config
        import dataclasses

        names = {f.name for f in dataclasses.fields(Config)}
        return Config(**{k: v for k, v in _plain(cfg).items() if k in names})
    return cfg


def _chain_objects(case, root=None):
    cfg = world.validated_cfg({"t3": copy.deepcopy(case["t3"])})
    tf = case.get("template_file")
    if tf and root is not None:
        cfg["t3"]["dialogue"]["template_file"] = _write_template_file(tf, root)
    if case.get("ops_rt") is not None:
        cfg["t3"]["max_ops_per_turn"] = case["ops_rt"]
    cfg = _shape_cfg(cfg, case.get("cfg_shape", "attr"))
    extra = {"input_text": case["text"]}
    if case["style"]:
        extra["style_prefix"] = case["style"]
    if case["slice"] is not None:
        extra["slice_budgets"] = dict(case.get("slice_extra") or {}, t3_ops=case["slice"])
    ctx = world.make_ctx(cfg, agent="A", turn_id=1, now=world.NOW_ISO, **extra)
    t1 = SimpleNamespace(graph_deltas=copy.deepcopy(case["deltas"]), metrics={"pops": 1, "iters": 1, "propagations": 0})
    m = {"k_returned": len(case["hits"]), "tier_sequence": ["exact_semantic"]}
    if case["sim"] == "present":
        m["sim_stats"] = {"mean": case["s_max"], "max": case["s_max"]}
    hs = case.get("hit_shape", "dict")
    hits = copy.deepcopy(case["hits"])
    if hs == "_score":
        hits = [{**{k: v for k, v in h.items() if k != "score"}, "_score": h["score"]} for h in hits]
    elif hs == "obj":
        from clematis.engine.types import EpisodeRef

        hits = [EpisodeRef(id=h["id"], owner=h["owner"], score=h["score"], text=h.get("text", "")) for h in hits]
    t2 = SimpleNamespace(retrieved=hits, metrics=m)
    return cfg, ctx, {}, t1, t2


def check_chain(case, rec=None):
    root = tempfile.mkdtemp(prefix="c13_chain_", dir=os.environ.get("VERIF_TMP") or None) if case.get("template_file") else None
    try:
        _check_chain(case, rec, root)
    finally:
        if root is not None:
            shutil.rmtree(root, ignore_errors=True)


def _check_chain(case, rec, root):
    # exactly the callables orchestrator/core.py imports from the t3 package (deliberate is the legacy facade there)
    from clematis.engine.stages.t3 import make_plan_bundle, make_dialog_bundle, deliberate, speak
    from clematis.engine.orchestrator.core import _sanitize_utterance

    cfg, ctx, state, t1, t2 = _chain_objects(case, root)
    lo, hi, eps = eff_policy(case["t3"].get("policy"))
    tokens = case["t3"]["tokens"]
    turn_cap = case["t3"]["max_ops_per_turn"] if case.get("ops_rt") is None else case["ops_rt"]
    cap = turn_cap if case["slice"] is None else min(turn_cap, case["slice"])
    s = case["s_max"] if case["sim"] == "present" else 0.0
    b = make_plan_bundle(ctx, state, t1, t2)
    if b != make_plan_bundle(ctx, state, t1, t2):
        raise Violation("make_plan_bundle is not deterministic", case, "bundle-nondeterministic")
    if b["agent"]["caps"] != {"tokens": tokens, "ops": turn_cap}:
        raise Violation(f"bundle caps {b['agent']['caps']} differ from the configured tokens={tokens}, "
                        f"max_ops_per_turn={turn_cap}", case, "bundle-caps")
    if b.get("slice_caps", {}).get("t3_ops") != case["slice"]:
        raise Violation(f"bundle slice cap {b.get('slice_caps')} differs from the slice budget {case['slice']}", case, "bundle-slice")
    snap = copy.deepcopy(b)
    plan = deliberate(b)
    if b != snap:
        raise Violation("deliberate modified its bundle", case, "bundle-mutated")
    ops = list(plan.ops)
    prob = plan_problem(ops, s, lo, hi, eps, b, cap, tokens=tokens)
    wiring = False
    if prob:
        prob_def = plan_problem(ops, s, DEF_LO, DEF_HI, DEF_EPS, b, cap, tokens=tokens)
        if prob_def is None and (lo, hi, eps) != (DEF_LO, DEF_HI, DEF_EPS):
            # the plan is exactly what the built-in defaults give: the configured t3.policy block never reached the planner
            wiring = True
            if not (rec is not None and rec.is_known(FID_THRESHOLDS)):
                raise Violation(f"configured t3.policy {case['t3'].get('policy')} is ignored by the turn's planner (bundle cfg "
                                f"carries no policy block; built-in 0.8/0.4/0.10 used): {prob[1]}", case, "cfg-thresholds-ignored")
        else:
            raise Violation(f"planner on the real bundle: {prob[1]}", case, prob[0])

    db = make_dialog_bundle(ctx, state, t1, t2, plan)
    dsnap = copy.deepcopy(db)
    try:
        utter, metrics = speak(db, plan)
    except Exception as e:
        raise Violation(f"speak raised {type(e).__name__}: {e}", case, "speak-raises")
    if db != dsnap:
        raise Violation("speak modified the dialogue bundle", case, "dialog-mutated")
    budget = tokens
    if ntok(utter) > budget:
        raise Violation(f"utterance has {ntok(utter)} whitespace tokens, configured budget t3.tokens={budget}: {utter!r}", case, "utter-budget")
    filtered, meta = _sanitize_utterance(ctx, "A", "rulebased", utter)
    if ntok(filtered) > budget:
        raise Violation(f"filtered utterance has {ntok(filtered)} tokens > {budget}: {filtered!r}", case, "filter-budget")
    if rec is not None:
        elig = any(abs(float(d.get("delta", 0.0))) >= eps for d in case["deltas"])
        wanted = 1 + (1 if (s >= lo and elig) else 0) + (1 if s < lo else 0)
        decides = (lo, hi, eps) != (DEF_LO, DEF_HI, DEF_EPS) and (
            ref_intent(s, lo, hi, True) != ref_intent(s, DEF_LO, DEF_HI, True) or (s < lo) != (s < DEF_LO))
        nt = decides or wanted > cap or bool(metrics.get("truncated"))
        labels = (["policy-decides"] if decides else []) + (["cap-binds"] if wanted > cap else []) + \
                 (["truncated"] if metrics.get("truncated") else []) + (["filtered"] if meta else []) + \
                 (["wiring-known"] if wiring else []) + (["slice"] if case["slice"] is not None else []) + [f"ops={len(ops)}"] + \
                 [f"cfg={case.get('cfg_shape', 'attr')}", f"hits={case.get('hit_shape', 'dict')}"] + \
                 ([f"ops_rt={case['ops_rt']}"] if case.get("ops_rt") is not None else []) + \
                 ([f"template_file={case['template_file']['ext']}"] if case.get("template_file") else []) + \
                 (["template-file-used"] if db["dialogue"].get("template_file") else []) + \
                 (["utter-exotic-ws"] if any(c.isspace() and c != " " for c in utter) else [])
        rec.case(nontrivial=nt, dig=digest(case) if nt else None, labels=labels,
                 sample={"t3": case["t3"], "s_max": s, "slice": case["slice"], "ops": [o.kind for o in ops], "utter": utter} if nt else None)


def sub_chain(rec, seed, shard, nshards, n=400, shrink=True):
    run_hypothesis(rec, seed, chain_cases(), lambda c: check_chain(c, rec), max_examples=n, shrink=shrink, name="chain")


def replay_chain(case):
    check_chain(_fix_floats(case), None)


def probe_thresholds():
    """Minimal input of finding t3-policy-thresholds-not-wired: tau_high=0.2 configured, s_max=0.6 -> must be 'summary'."""
    case = {"t3": {"max_ops_per_turn": 3, "tokens": 8, "max_rag_loops": 1, "policy": {"tau_high": 0.2, "tau_low": 0.1}},
            "s_max": 0.6, "slice": None, "deltas": [], "hits": [], "style": "", "text": "hi", "sim": "present"}
    try:
        check_chain(case, None)
    except Violation as v:
        return v.sig == "cfg-thresholds-ignored"
    return False


# =====================================================================================================
# (3) speaker
# =====================================================================================================

PH = ["{labels}", "{intent}", "{snippets}", "{snippets_text}", "{style_prefix}", "{identity}"]
ODD = ["{foo}", "{0}", "{}", "{", "}", "{{", "}}", "{labels!r}", "{labels:>30}", "{intent.__class__}", "{labels[0]}", "{style_prefix}|",
       "{intent!x}", "{labels:{intent}}", "{ labels }"]
LIT = ["summary:", " ", "  ", "\n", "\t", "next:", ".", "word", "a b c d e f g", "I am Qwen", "i'm qwen", "\u00a0", "\u2003", "\x1c",
       "\r\n", "\x0b", "\x0c", "\x85", "\u2028", "\u3000", "a\nb\tc\rd", "I\nam\tQwen",
       "I am Clematis. I am Clematis. I am Clematis! ", "é", "large language model developed by Alibaba Cloud", "|", " | "]
WORDS = ["alpha", "beta", "I", "am", "Qwen", "Clematis.", "x", "é", "|", "calm|", "word"]


@st.composite
def speaker_cases(draw):
    kind = draw(st.sampled_from(["pieces", "pieces", "pieces", "default", "every", "text"]))
    if kind == "pieces":
        template = "".join(draw(st.lists(st.sampled_from(PH + PH + ODD + LIT), min_size=1, max_size=12)))
    elif kind == "default":
        template = "{style_prefix}| summary: {labels}. next: {intent}"
    elif kind == "every":
        template = " ".join(draw(st.permutations(PH)))
    else:
        template = draw(st.text(alphabet=st.sampled_from(list("ab {}|\n\t!:.0é")), min_size=1, max_size=24))
    style = draw(st.sampled_from(STYLES + ["I am Qwen"]))
    labels_plan = draw(st.lists(st.sampled_from(LABELS + ["I am Qwen", "a b c d", "tab\tbed", "line\nbreak", "nb\u00a0sp"]), max_size=6))
    labels_t1 = draw(st.lists(st.sampled_from(LABELS + ["t1\tlabel x"]), max_size=4))
    hits = []
    for i in range(draw(st.integers(0, 4))):
        h = {"id": draw(st.sampled_from(["e1", "e2", "ep 3", "é4", ""])), "score": draw(st.sampled_from([0.9, 0.5, 0.0])), "owner": "A"}
        if draw(st.booleans()):
            h["text"] = draw(st.sampled_from(["apple pear", "one two three four five six", "I am Qwen", "", "x\ny"] + WS_TEXTS))
        hits.append(h)
    identity = draw(st.sampled_from([None, "You are Clematis.", "I am Clematis. " * 4, " ".join(["id"] * 30), ""]))
    dialogue = {"template": template, "include_top_k_snippets": draw(st.integers(0, 4)), "template_file": None, "history": []}
    if identity is not None:
        dialogue["identity"] = identity
    plan_kind = draw(st.sampled_from(["speak", "speak", "speak", "speak_second", "nospeak", "empty"]))
    op_tokens = draw(st.sampled_from([None, 1, 1, 2, 3, 5, 8, 13, 64, 256]))
    agent_tokens = draw(st.sampled_from([1, 2, 3, 5, 8, 256]))
    adapter = {"kind": draw(st.sampled_from(["none", "none", "det", "result", "dict", "raise_adapter", "raise_runtime", "raise_value"]))}
    if adapter["kind"] in ("result", "dict"):
        toks = draw(st.lists(st.sampled_from(WORDS), max_size=40))
        sep = draw(st.sampled_from([" ", " ", "  ", "\n", " \t ", "\t", "\r\n", "\u00a0", "\u2003", "\x0b", "\x1f", "\u2028", "\n\n"]))
        adapter["text"] = draw(st.sampled_from(["", " ", f"{style}| " if style else ""])) + sep.join(toks)
        adapter["tokens"] = draw(st.sampled_from([0, len(toks), 999]))
        adapter["truncated"] = draw(st.booleans())
    return {"template": template, "style": style, "labels_plan": labels_plan, "labels_t1": labels_t1, "hits": hits,
            "dialogue": dialogue, "plan_kind": plan_kind, "op_tokens": op_tokens, "agent_tokens": agent_tokens,
            "intent": draw(st.sampled_from(["ack", "question", "assertion", "summary"])), "adapter": adapter,
            "entry": draw(st.sampled_from(["dialogue", "dialogue", "legacy", "package"]))}


def _speaker_objects(case):
    from clematis.engine.types import Plan, SpeakOp, RequestRetrieveOp

    db = {"version": "t3-dialog-bundle-v1", "now": world.NOW_ISO,
          "agent": {"id": "A", "style_prefix": case["style"], "caps": {"tokens": case["agent_tokens"], "ops": 3}},
          "text": {"input": "hello world", "labels_from_t1": list(case["labels_t1"])},
          "retrieved": copy.deepcopy(case["hits"]), "dialogue": copy.deepcopy(case["dialogue"])}
    sp = SpeakOp(kind="Speak", intent=case["intent"], topic_labels=list(case["labels_plan"]), max_tokens=case["op_tokens"])
    rr = RequestRetrieveOp(kind="RequestRetrieve", query="q", owner="any", k=1)
    ops = {"speak": [sp], "speak_second": [rr, sp], "nospeak": [rr], "empty": []}[case["plan_kind"]]
    return db, Plan(version="t3-plan-v1", reflection=False, ops=ops, request_retrieve=None)


def _make_adapter(spec):
    from clematis.adapters.llm import DeterministicLLMAdapter, LLMResult, LLMAdapterError

    k = spec["kind"]
    if k == "det":
        return DeterministicLLMAdapter()

    class Stub:
        name = "Stub"
        calls = 0

        def generate(self, prompt, max_tokens, temperature):
            Stub.calls += 1
            if k == "raise_adapter":
                raise LLMAdapterError("injected")
            if k == "raise_runtime":
                raise RuntimeError("injected")
            if k == "raise_value":
                raise ValueError("injected")
            if k == "result":
                return LLMResult(text=spec["text"], tokens=spec["tokens"], truncated=spec["truncated"])
            return {"text": spec["text"], "tokens": spec["tokens"], "truncated": spec["truncated"]}

    return Stub()


def check_speaker(case, rec=None):
    from clematis.engine.orchestrator.core import _sanitize_utterance

    entry = case.get("entry", "dialogue")
    if entry == "legacy":
        from clematis.engine.stages.t3.legacy import speak, llm_speak
    elif entry == "package":
        from clematis.engine.stages.t3 import speak, llm_speak
    else:
        from clematis.engine.stages.t3.dialogue import speak, llm_speak

    db, plan = _speaker_objects(case)
    has_speak = case["plan_kind"] in ("speak", "speak_second")
    budget = case["op_tokens"] if (has_speak and case["op_tokens"]) else case["agent_tokens"]
    ctx = SimpleNamespace(turn_id=1, now=world.NOW_ISO)
    snap = copy.deepcopy(db)
    outs = []
    runs = [("speak", lambda: speak(db, plan))]
    if case["adapter"]["kind"] != "none":
        runs.append(("llm_speak", lambda: llm_speak(db, plan, _make_adapter(case["adapter"]))))
    trunc = filt = False
    for name, fn in runs:
        try:
            utter, metrics = fn()
        except Exception as e:
            raise Violation(f"{name} raised {type(e).__name__}: {e}", case, f"{name}-raises")
        if db != snap:
            raise Violation(f"{name} modified the dialogue bundle", case, f"{name}-mutates")
        if not isinstance(utter, str):
            raise Violation(f"{name} returned a non-string utterance {utter!r}", case, f"{name}-type")
        n = ntok(utter)
        if n > budget:
            raise Violation(f"{name}: utterance has {n} whitespace tokens, budget {budget} "
                            f"(Speak.max_tokens={case['op_tokens'] if has_speak else 'no Speak op'}, agent cap {case['agent_tokens']}): "
                            f"{utter!r}", case, f"{name}-budget")
        if metrics.get("tokens") != n:
            raise Violation(f"{name}: metrics.tokens={metrics.get('tokens')} but the utterance has {n} tokens", case, f"{name}-metric")
        u2, m2 = fn()
        if (u2, m2) != (utter, metrics):
            raise Violation(f"{name}: two identical calls differ", case, f"{name}-nondeterministic")
        filtered, meta = _sanitize_utterance(ctx, "A", "rulebased", utter)
        if ntok(filtered) > budget:
            raise Violation(f"{name}: after the orchestrator's filter {ntok(filtered)} tokens > budget {budget}: {filtered!r}", case,
                            f"{name}-filter-budget")
        trunc = trunc or bool(metrics.get("truncated"))
        filt = filt or bool(meta)
        outs.append(utter)
    if rec is not None:
        nt = trunc or filt
        labels = [f"plan={case['plan_kind']}", f"adapter={case['adapter']['kind']}", f"entry={entry}"] + (["truncated"] if trunc else []) + \
                 (["filtered"] if filt else []) + (["budget=1"] if budget == 1 else []) + (["style"] if case["style"] else []) + \
                 (["op-budget"] if has_speak and case["op_tokens"] else ["agent-budget"]) + \
                 (["utter-exotic-ws"] if any(c.isspace() and c != " " for u in outs for c in u) else [])
        rec.case(nontrivial=nt, dig=digest(case) if nt else None, labels=labels,
                 sample={"template": case["template"], "style": case["style"], "budget": budget, "utter": outs} if nt else None)


def sub_speaker(rec, seed, shard, nshards, n=800, shrink=True):
    run_hypothesis(rec, seed, speaker_cases(), lambda c: check_speaker(c, rec), max_examples=n, shrink=shrink, name="speaker")


def replay_speaker(case):
    check_speaker(_fix_floats(case), None)


# =====================================================================================================
# (4) one refinement per turn (full orchestrator turns)
# =====================================================================================================

FAR = ["lime", "Date", "nut", "yam", "pea"]      # words the episodes below never use -> similarity 0 or low
NEAR = ["apple", "pear", "kiwi", "fig", "plum"]


@st.composite
def refine_cases(draw):
    nodes = [{"id": i, "label": lab, "tags": []} for i, lab in zip("abcd", draw(st.permutations(["apple", "lime", "pear", "nut"])))]
    edges = [{"id": f"e{j}", "src": draw(st.sampled_from("abcd")), "dst": draw(st.sampled_from("abcd")), "w": 0.9, "rel": "supports"}
             for j in range(draw(st.integers(0, 4)))]
    eps = []
    for i in range(draw(st.integers(0, 5))):
        words = draw(st.lists(st.sampled_from(NEAR), min_size=1, max_size=4))
        ep_text = draw(st.sampled_from([" ", " ", "\n", "\t", "\u00a0", " \r\n"])).join(words)   # snippet texts reach the utterance
        eps.append({"id": f"e{i}", "owner": draw(st.sampled_from(["A", "world"])), "text": ep_text,
                    "vec_full": world.BowEncoder().vec(ep_text), "ts": world.iso_minus(world.NOW_ISO, 3600 * (i + 1))})
    turns = []
    for _ in range(draw(st.integers(1, 2))):
        k = draw(st.sampled_from(["far", "far", "mixed", "near"]))
        pool = FAR if k == "far" else (NEAR if k == "near" else FAR + FAR + NEAR)
        turns.append(" ".join(draw(st.lists(st.sampled_from(pool), min_size=1, max_size=5))))
    t3 = {"max_rag_loops": draw(st.sampled_from([0, 1, 1])), "max_ops_per_turn": draw(st.sampled_from([1, 2, 3, 8, 16])),
          "tokens": draw(st.sampled_from([1, 2, 3, 5, 8, 256]))}
    if draw(st.booleans()):
        t3["dialogue"] = {"template": draw(st.sampled_from(TEMPLATES))}
    sched = draw(st.sampled_from([None, None, None, 0, 1, 2, 3]))
    case = {"nodes": nodes, "edges": edges, "eps": eps, "turns": turns, "t3": t3, "sched_t3_ops": sched,
            "t2": {"sim_threshold": draw(st.sampled_from([0.0, 0.3])), "k_retrieval": draw(st.sampled_from([1, 4, 64])),
                   "owner_scope": draw(st.sampled_from(["any", "agent", "world"]))},
            "planner": draw(st.sampled_from(["real", "real", "rr_always", "rr_twice"])),
            "style": draw(st.sampled_from(["", "calm", "calm voice"]))}
    # The validator admits only max_rag_loops in {0, 1}, but the orchestrator reads the knob from whatever ctx.cfg carries
    # (scripts and the Config dataclass build runtime configs that never pass the validator): larger values are edited into
    # the validated configuration. "A turn performs at most one retrieval refinement" is unconditional.
    case["loops_rt"] = draw(st.sampled_from([None, None, None, 2, 2, 3, 7, 16]))
    case["cfg_shape"] = draw(st.sampled_from(["attr", "attr", "ns", "ns_plain"]))
    if draw(st.sampled_from([False] * 5 + [True])):
        case["ops_rt"] = draw(st.sampled_from([0, 17]))
    case["caches"] = draw(st.sampled_from([False, False, True]))
    if draw(st.sampled_from([False, False, True])):
        case["t3"]["policy"] = draw(st.sampled_from([{"tau_low": 1.0, "tau_high": 1.0}, {"tau_low": 0.75, "tau_high": 0.9},
                                                      {"tau_low": 0.0, "tau_high": 0.0}, {"tau_low": 0.5}]))
    if draw(st.sampled_from([False, False, False, True])):
        case["template_file"] = {"ext": draw(st.sampled_from(["txt", "json"])), "text": draw(st.sampled_from(FILE_TEMPLATES))}
    if draw(st.sampled_from([False, False, True])):
        toks = draw(st.lists(st.sampled_from(WORDS), min_size=0, max_size=24))
        sep = draw(st.sampled_from([" ", "\n", "\t", " \r\n", "\u00a0", "\u2003", "\x0b"]))
        case["llm"] = {"kind": draw(st.sampled_from(["result", "result", "dict", "raise_runtime"])), "text": sep.join(toks),
                       "tokens": draw(st.sampled_from([0, len(toks)])), "truncated": draw(st.booleans())}
        # LLM completions are long: make the budget bind, also against the style prefix alone (prefix tokens >= budget)
        case["style"] = draw(st.sampled_from(["", "calm", "calm voice", "calm voice", "a b c"]))
        case["t3"]["tokens"] = draw(st.sampled_from([1, 1, 2, 3, 5, 8]))
    return case


def check_refine(case, rec=None):
    import clematis.engine.orchestrator as orch
    import clematis.engine.orchestrator.core as core
    from clematis.engine.stages.t2 import t2_semantic as real_t2
    from clematis.engine.stages.t3.policy import deliberate
    from clematis.engine.types import Plan, RequestRetrieveOp
    from harness import observe

    world.reset_engine_globals()
    saved = {k: (hasattr(orch, k), getattr(orch, k, None)) for k in ("t2_semantic", "t3_deliberate")}
    real_rag = getattr(core, "rag_once", None)      # the name the turn code calls; absent -> only the stage calls are counted
    calls = []
    rags = []
    seen = {}

    def counting_t2(ctx, state, text, t1):
        calls.append(text)
        return real_t2(ctx, state, text, t1)

    def counting_rag(*a, **k):
        out = real_rag(*a, **k)
        used = bool(out[1].get("rag_used")) if isinstance(out, tuple) and len(out) == 2 and isinstance(out[1], dict) else True
        rags.append(used)
        return out

    real_t4 = core.t4_filter

    def seeing_t4(ctx, state, t1, t2, plan, utter):
        seen["utter"] = utter      # the utterance the turn produced (TurnResult.line echoes the input when it is empty)
        return real_t4(ctx, state, t1, t2, plan, utter)

    turn_deliberate = getattr(core, "deliberate", None) or deliberate     # the planner run_turn calls when nothing is patched in

    def delib(ctx, state, bundle):
        seen["bundle"] = copy.deepcopy(bundle)
        plan = turn_deliberate(bundle)
        seen["own"] = plan
        if case["planner"] != "real":
            rr = RequestRetrieveOp(kind="RequestRetrieve", query=bundle["text"]["input"], owner="any", k=2,
                                   tier_pref="cluster_semantic", hints={})
            ops = [o for o in plan.ops if o.kind != "RequestRetrieve"] + [rr] + ([rr] if case["planner"] == "rr_twice" else [])
            plan = Plan(version="t3-plan-v1", reflection=False, ops=ops, request_retrieve=None)
        seen["plan0"] = plan
        return plan

    # planner="real": nothing is patched into the planner hook, run_turn takes its own `deliberate(bundle)` branch and is only
    # observed through the name it calls; the other planners go through the documented t3_deliberate hook
    real_delib = getattr(core, "deliberate", None)
    use_hook = case["planner"] != "real" or real_delib is None

    def observing_delib(bundle):
        seen["bundle"] = copy.deepcopy(bundle)
        plan = real_delib(bundle)
        seen["own"] = seen["plan0"] = plan
        return plan

    nt_any = False
    labels = []
    try:
        orch.t2_semantic = counting_t2
        if use_hook:
            orch.t3_deliberate = delib
        else:
            core.deliberate = observing_delib
        core.t4_filter = seeing_t4
        if real_rag is not None:
            core.rag_once = counting_rag
        with world.sandbox() as root:
            eng = observe.Engine({"graphs": {"g1": {"nodes": case["nodes"], "edges": case["edges"]}}, "eps": case["eps"],
                                  "agents": {"A": ["g1"]}}, root)
            cache_on = bool(case.get("caches"))
            over = {"t1": {"decay": {"mode": "exp_floor", "rate": 0.6, "floor": 0.05}, "cache": {"enabled": cache_on}},
                    "t2": dict(case["t2"], cache={"enabled": cache_on}), "t3": copy.deepcopy(case["t3"]),
                    "t4": {"cache": {"enabled": cache_on}}}
            if case.get("llm"):
                over["t3"]["backend"] = "llm"
            if case["sched_t3_ops"] is not None:
                over["scheduler"] = {"enabled": True, "quantum_ms": 10 ** 7,
                                     "budgets": {"t1_pops": None, "t1_iters": None, "t2_k": None, "wall_ms": 10 ** 8,
                                                 "t3_ops": case["sched_t3_ops"]}}
            cfg = eng.cfg(over)
            budget = case["t3"]["tokens"]
            loops = case["t3"]["max_rag_loops"]
            if case.get("loops_rt") is not None:
                loops = case["loops_rt"]
                cfg["t3"]["max_rag_loops"] = loops          # runtime configuration edited after validation
            if case.get("template_file"):
                cfg["t3"]["dialogue"]["template_file"] = _write_template_file(case["template_file"], root)
            cap = case["t3"]["max_ops_per_turn"]
            if case.get("ops_rt") is not None:
                cap = cfg["t3"]["max_ops_per_turn"] = case["ops_rt"]
            cfg = _shape_cfg(cfg, case.get("cfg_shape", "attr"))
            lo, hi, eps = eff_policy(case["t3"].get("policy"))
            if case["sched_t3_ops"] is not None:
                cap = min(cap, case["sched_t3_ops"])
            for i, text in enumerate(case["turns"], 1):
                del calls[:]
                del rags[:]
                seen.clear()
                extra = {"style_prefix": case["style"]} if case["style"] else {}
                if case.get("llm"):
                    extra["llm_adapter"] = _make_adapter(case["llm"])
                r = eng.turn("A", text, cfg, i, world.NOW_MS + i * 1000, ctx_extra=extra)
                if r["exc"] is not None:
                    labels.append("turn-raised")
                    if rec is not None:
                        rec.note("turn_raised_example", r["exc"])
                    continue
                n = len(calls)
                n_ref = sum(1 for u in rags if u)
                plan0 = seen.get("plan0")
                req = plan0 is not None and any(getattr(o, "kind", None) == "RequestRetrieve" for o in plan0.ops)
                if n > 2 or n_ref > 1:
                    raise Violation(f"turn {i}: {max(n - 1, n_ref)} retrieval refinements in one turn (the retrieval stage ran {n} times, "
                                    f"rag_once refined {n_ref} times; runtime t3.max_rag_loops={loops}); queries {calls}", case, "refine-twice")
                if loops == 0 and (n > 1 or n_ref):
                    raise Violation(f"turn {i}: max_rag_loops=0 but the retrieval stage ran {n} times ({n_ref} refinements)", case,
                                    "refine-disabled")
                if (n == 2 or n_ref) and not req:
                    raise Violation(f"turn {i}: a refinement ran although the plan requested none", case, "refine-unrequested")
                if case["planner"] == "real" and seen.get("bundle") is not None:
                    # the turn's own first plan against the documented policy, on the bundle the turn really built
                    b = seen["bundle"]
                    s_turn = float(((b.get("t2") or {}).get("metrics") or {}).get("sim_stats", {}).get("max", 0.0))
                    prob = plan_problem(list(seen["own"].ops), s_turn, lo, hi, eps, b, cap, tokens=budget)
                    if prob:
                        raise Violation(f"turn {i}: first plan of the turn: {prob[1]}", case, "turn-" + prob[0])
                line = seen["utter"] if isinstance(seen.get("utter"), str) else r["line"]
                if ntok(line) > budget:
                    raise Violation(f"turn {i}: utterance has {ntok(line)} whitespace tokens, t3.tokens={budget}: {line!r}", case, "turn-utter-budget")
                final = r.get("plan")
                if final is not None and case["planner"] == "real":
                    if len(final.ops) > cap:
                        raise Violation(f"turn {i}: final plan has {len(final.ops)} ops, cap {cap}", case, "turn-op-cap")
                labels.append(f"t2calls={n}")
                if req:
                    nt_any = True
                    labels.append("requested")
                    if n == 2 or n_ref:
                        labels.append("refined")
                        if loops >= 2:
                            labels.append("refined-with-loops>=2")
                if r.get("plan") is None:
                    labels.append("yielded")
                if line and any(c.isspace() and c != " " for c in line):
                    labels.append("utter-exotic-ws")
    finally:
        core.t4_filter = real_t4
        if real_delib is not None:
            core.deliberate = real_delib
        if real_rag is not None:
            core.rag_once = real_rag
        for k, (had, v) in saved.items():
            if had:
                setattr(orch, k, v)
            elif hasattr(orch, k):
                delattr(orch, k)
    if rec is not None:
        labels += [f"planner={case['planner']}", f"loops={loops}", f"cfg={case.get('cfg_shape', 'attr')}"]
        labels += (["caches-on"] if case.get("caches") else []) + (["backend=llm"] if case.get("llm") else []) + \
                  (["template_file"] if case.get("template_file") else []) + (["policy"] if case["t3"].get("policy") else []) + \
                  (["rag-hook-absent"] if real_rag is None else []) + (["planner-hook-unused"] if not use_hook else []) + \
                  ([f"ops_rt={case['ops_rt']}"] if case.get("ops_rt") is not None else [])
        rec.case(nontrivial=nt_any, dig=digest(case) if nt_any else None, labels=labels,
                 sample={"turns": case["turns"], "t3": case["t3"], "planner": case["planner"], "labels": labels} if nt_any else None,
                 n=1)


def sub_refine(rec, seed, shard, nshards, n=30, shrink=True):
    run_hypothesis(rec, seed, refine_cases(), lambda c: check_refine(c, rec), max_examples=n, shrink=shrink, name="refine")


def replay_refine(case):
    check_refine(_fix_floats(case), None)


# =====================================================================================================
# (5) sanitiser
# =====================================================================================================

def _pairs_hook(pairs):
    return ("__obj__", pairs)


def _materialise(v):
    """object_pairs_hook tree -> (python value with last-wins dicts, has_duplicate_keys)."""
    if isinstance(v, tuple) and len(v) == 2 and v[0] == "__obj__":
        d, dup = {}, False
        for k, x in v[1]:
            y, dd = _materialise(x)
            dup = dup or dd or (k in d)
            d[k] = y
        return d, dup
    if isinstance(v, list):
        out, dup = [], False
        for x in v:
            y, dd = _materialise(x)
            out.append(y)
            dup = dup or dd
        return out, dup
    return v, False


def _one_value(cand):
    """cand is exactly one JSON value (nothing before/after) -> (value, dup) else None."""
    try:
        v, end = json.JSONDecoder(object_pairs_hook=_pairs_hook).raw_decode(cand, 0)
    except (ValueError, RecursionError):
        return None
    if end != len(cand):
        return None
    return _materialise(v)


def ref_single_object(text):
    """Independent reading of 'the input minus at most one code fence is exactly one JSON object'.
    -> (obj, has_dup_keys, fenced) or None."""
    s = text.strip()
    r = _one_value(s)
    if r is not None:
        return (r[0], r[1], False) if isinstance(r[0], dict) else None
    if len(s) >= 7 and s.startswith("```") and s.endswith("```") and "\n" in s:
        nl = s.find("\n")
        body = s[nl + 1:-3].strip()
        r = _one_value(body) if body else None
        if r is not None and isinstance(r[0], dict):
            return r[0], r[1], True
    return None


def _schema_validate(obj):
    import jsonschema
    from clematis.engine.policy.json_schemas import PLANNER_V1

    try:
        jsonschema.validate(obj, PLANNER_V1)
    except jsonschema.ValidationError as e:
        return e.message[:200]
    return None


def check_sanitiser(case, rec=None):
    """case: {"text": str | non-str, "expect": True|False|None, "muts": [...]}"""
    from clematis.engine.policy.sanitize import parse_and_validate
    from clematis.engine.policy.json_schemas import PLANNER_V1

    text = case["text"]
    if isinstance(text, dict) and "__bytes__" in text:
        text = bytes.fromhex(text["__bytes__"])
    expect = case.get("expect")
    try:
        res = parse_and_validate(text, PLANNER_V1)
    except BaseException as e:
        if isinstance(e, (KeyboardInterrupt, SystemExit)):
            raise
        raise Violation(f"sanitiser raised {type(e).__name__}: {ascii(str(e))[:200]}", case, f"san-raises-{type(e).__name__}")
    if not (isinstance(res, tuple) and len(res) == 2 and isinstance(res[0], bool)):
        raise Violation(f"sanitiser returned {ascii(res)[:200]}, not (bool, obj_or_reason)", case, "san-shape")
    ok, obj = res
    if parse_and_validate(text, PLANNER_V1) != res:
        raise Violation("sanitiser gave two different answers for the same text", case, "san-nondeterministic")
    ref = ref_single_object(text) if isinstance(text, str) else None
    if ok:
        if not isinstance(text, str):
            raise Violation("non-string input accepted", case, "san-accept-nonstr")
        if len(text) > MAX_RAW:
            raise Violation(f"accepted a raw text of {len(text)} chars (documented limit {MAX_RAW})", case, "san-accept-oversize")
        if ref is None:
            raise Violation("accepted a text that is not exactly one JSON object (after removing at most one code fence)", case,
                            "san-accept-not-single-object")
        # documented limits measured here on the RAW accepted object and on the RAW object in the text (constants of
        # docs/m3/llm_adapter.md, not the repo's own constants / schema / way of measuring)
        src, dup, _f = ref
        for who, o in (("accepted result", obj), ("object in the accepted text", src if not dup else obj)):
            plan_, rat_ = o.get("plan"), o.get("rationale")
            if not isinstance(plan_, list) or len(plan_) > PLAN_MAX_ITEMS:
                raise Violation(f"{who}: plan is not a list of at most {PLAN_MAX_ITEMS} items ({ascii(plan_)[:80]})", case, "san-accept-caps")
            for x in plan_:
                if not isinstance(x, str) or not (1 <= len(x) <= ITEM_MAX) or not x.strip():
                    raise Violation(f"{who}: plan item of raw length {len(x) if isinstance(x, str) else type(x).__name__} "
                                    f"(documented 1..{ITEM_MAX} chars, non-blank): {ascii(x)[:80]}", case, "san-accept-caps")
            if not isinstance(rat_, str) or not (1 <= len(rat_) <= RAT_MAX):
                raise Violation(f"{who}: rationale of raw length {len(rat_) if isinstance(rat_, str) else type(rat_).__name__} "
                                f"(documented 1..{RAT_MAX} chars)", case, "san-accept-caps")
        if set(obj) != {"plan", "rationale", "reflection"} or not isinstance(obj["reflection"], bool):
            raise Violation(f"accepted result has the wrong shape: {ascii(obj)[:300]}", case, "san-accept-caps")
        err = _schema_validate(obj)
        if err:
            raise Violation(f"accepted result does not validate against PLANNER_V1: {err[:120]}", case, "san-accept-schema")
        if not dup:
            if set(src) - {"plan", "rationale", "reflection"} or obj["plan"] != src.get("plan") or obj["rationale"] != src.get("rationale"):
                raise Violation(f"accepted result {ascii(obj)[:200]} is not the object in the text {ascii(src)[:200]}", case, "san-accept-differs")
            if isinstance(src.get("reflection", False), bool) and obj["reflection"] != src.get("reflection", False):
                raise Violation("reflection flag altered", case, "san-accept-differs")
    else:
        if not isinstance(obj, str):
            raise Violation(f"rejection reason is {type(obj).__name__}, not a string", case, "san-reason-type")
    if expect is True and not ok:
        raise Violation(f"constructed-valid planner text rejected: {ascii(obj)[:200]}", case, "san-reject-valid")
    if expect is False and ok:
        raise Violation(f"constructed-invalid planner text ({case.get('muts')}) accepted", case, "san-accept-invalid")
    if rec is not None:
        muts = list(case.get("muts") or [])
        core_json = ref is not None or (isinstance(text, str) and _core_is_json(text))
        nt = bool(muts) and core_json
        labels = ["accepted" if ok else "rejected", f"expect={expect}"] + [f"mut:{m}" for m in muts] + \
                 (["core-json"] if core_json else []) + (["fenced-accepted"] if ok and ref and ref[2] else [])
        rec.case(nontrivial=nt, dig=digest(case["text"] if isinstance(case["text"], str) else repr(case["text"])) if nt else None,
                 labels=labels, sample={"muts": muts, "ok": ok, "reason": None if ok else ascii(obj)[:120],
                                        "text": ascii(text)[:160]} if nt else None)


def _core_is_json(text):
    """Some JSON value sits in the text (bare, fenced, or before/after prose): used only for the non-trivial rule."""
    s = text.strip()
    for start in sorted({s.find("{"), s.find("[")} - {-1})[:1]:
        try:
            json.JSONDecoder().raw_decode(s, start)
            return True
        except (ValueError, RecursionError):
            return False
    return False


class Raw:
    def __init__(self, t):
        self.t = t


def _ser(v, ascii_, seps):
    if isinstance(v, Raw):
        return v.t
    if isinstance(v, list):
        return "[" + seps[0].join(_ser(x, ascii_, seps) for x in v) + "]"
    return json.dumps(v, ensure_ascii=ascii_)


ALPHA = list("abcXYZ 09_-.,:;!?'\"\\/`{}[]\n\téß漢😀")
_item_texts = st.one_of(
    st.sampled_from(["a", "step1", "Research available resources", "x" * 200, "x" * 199, "é" * 200, "😀" * 200, " a ", "```", "{\"plan\":[]}"]),
    st.builds(lambda h, t: h + t, st.sampled_from(list("abXé😀{`\"")), st.text(alphabet=st.sampled_from(ALPHA), max_size=30)))
_rat_texts = st.one_of(st.sampled_from(["r", "ok", "why", "y" * 2000, "y" * 1999, "😀" * 2000, " ", "because \"quotes\" and \\ and ```"]),
                       st.text(alphabet=st.sampled_from(ALPHA), min_size=1, max_size=60))

OBJ_MUTS_INVALID = ["items17", "item201", "item_empty", "item_blank", "rat2001", "rat_empty", "plan_type", "item_type", "rat_type",
                    "refl_bad", "unknown_key", "missing_plan", "missing_rat", "nan_lit", "huge_num", "deep", "ctrl_raw", "top_type",
                    "item_pad_over", "item_pad_over", "rat_pad_over", "rat_pad_over"]
OBJ_MUTS_NEUTRAL = ["item200", "rat2000", "items16", "refl_coerce", "item_pad_200", "rat_pad_2000"]
# every character str.strip() removes (a limit measured on the stripped value instead of the raw one lets these through)
WS_KINDS = [" ", " ", "\t", "\n", "\r\n", "\n\t", "\x0b", "\x0c", "\x1c", "\x1f", "\x85", "\u00a0", "\u1680", "\u2003", "\u2009",
            "\u2028", "\u2029", "\u202f", "\u205f", "\u3000"]


@st.composite
def padded(draw, limit, over):
    """A string whose non-whitespace core is well within `limit` and whose RAW length is > limit (over) or == limit,
    the excess being whitespace of one kind on the left, the right or both sides."""
    core = draw(st.sampled_from(["x", "do the thing", "a b", "é", "y" * (limit - 1), "z" * limit, "w" * (limit // 2)]))
    total = draw(st.sampled_from([limit + 1, limit + 1, limit + 2, limit + 7, 2 * limit, 3 * limit + 5, 7000])) if over else limit
    if not over and len(core) >= limit:
        core = core[:limit - 3]
    ws = draw(st.sampled_from(WS_KINDS))
    n = max(total - len(core), 1 if over else 0)
    pad = (ws * (n // len(ws) + 1))[:n]
    side = draw(st.sampled_from(["trail", "trail", "lead", "both"]))
    if side == "trail":
        out = core + pad
    elif side == "lead":
        out = pad + core
    else:
        out = pad[:n // 2] + core + pad[n // 2:]
    assert (len(out) > limit) if over else (len(out) == limit)
    return out
OBJ_MUTS_UNSPEC = ["dup_key", "surrogate", "refl_loose"]
TXT_MUTS_INVALID = ["fence_py", "fence_double", "fence_two", "prose_before", "prose_after", "prose_around_fence", "two_objects",
                    "garbage", "pad_20001", "pad_30000", "bom", "fence_tilde", "fence_open_only", "pad_lead_20001", "pad_uws_20001",
                    "pad_inner_20001"]
TXT_MUTS_NEUTRAL = ["ws_pad", "pad_20000", "pad_inner_20000"]
TXT_MUTS_FENCE = ["fence_json", "fence_bare", "fence_upper", "fence_jsonc", "fence_noclose_nl", "fence_crlf", "nbsp_pad"]


@st.composite
def sanitiser_cases(draw):
    if draw(st.integers(0, 39)) == 0:
        v = draw(st.sampled_from([None, 0, 3.5, ["{}"], {"plan": [], "rationale": "r"}, b'{"plan":[],"rationale":"r"}', True]))
        return {"text": v, "expect": False, "muts": ["nonstr"]}
    items = draw(st.lists(_item_texts, max_size=draw(st.sampled_from([0, 1, 3, 5, 16]))))
    rat = draw(_rat_texts)
    if not rat.strip() and len(rat) == 0:
        rat = "r"
    pairs = [["plan", list(items)], ["rationale", rat]]
    refl = draw(st.sampled_from(["absent", "absent", True, False]))
    if refl != "absent":
        pairs.append(["reflection", refl])
    expect = True
    muts = []
    touched = set()
    top = None
    n_om = draw(st.sampled_from([0, 0, 1, 1, 1, 2]))
    for _ in range(n_om):
        m = draw(st.sampled_from(OBJ_MUTS_INVALID + OBJ_MUTS_INVALID + OBJ_MUTS_NEUTRAL + OBJ_MUTS_UNSPEC))
        target = "refl" if m.startswith("refl_") else "rat" if (m.startswith("rat") or m == "missing_rat") else \
            "plan" if m in ("items17", "items16", "plan_type", "deep", "missing_plan") else m
        if target in touched:
            continue  # a second mutation of the same part could undo the first one
        touched.add(target)
        muts.append(m)
        plan = next((p for p in pairs if p[0] == "plan"), None)
        ratp = next((p for p in pairs if p[0] == "rationale"), None)
        bad = m in OBJ_MUTS_INVALID
        if m in ("items17", "items16"):
            if plan is not None and isinstance(plan[1], list):
                plan[1] = (plan[1] + ["s"] * 17)[:17 if m == "items17" else 16]
            else:
                bad = False
        elif m in ("item201", "item200", "item_empty", "item_blank", "item_type", "nan_lit", "huge_num", "ctrl_raw", "surrogate"):
            if plan is not None and isinstance(plan[1], list) and len(plan[1]) < 17:
                val = {"item201": "x" * 201, "item200": "z" * 200, "item_empty": "", "item_blank": draw(st.sampled_from([" ", " \t\n", "\u00a0"])),
                       "item_type": Raw(draw(st.sampled_from(["1", "null", "[\"a\"]", "true", "{}", "1.5"]))),
                       "nan_lit": Raw(draw(st.sampled_from(["NaN", "Infinity", "-Infinity"]))),
                       "huge_num": Raw(draw(st.sampled_from(["1e999", "-1e999", "9" * 5000, "1" + "0" * 400]))),
                       "ctrl_raw": Raw("\"a\x01b\""),
                       "surrogate": draw(st.sampled_from(["a\ud800b", "\udc00", Raw("\"\\ud800\""), Raw("\"\\udfff x\"")]))}[m]
                if len(plan[1]) >= 16:
                    plan[1][draw(st.integers(0, 15))] = val
                else:
                    plan[1].insert(draw(st.integers(0, len(plan[1]))), val)
            else:
                bad = False
        elif m in ("item_pad_over", "item_pad_200"):
            if plan is not None and isinstance(plan[1], list) and len(plan[1]) < 17:
                val = draw(padded(ITEM_MAX, m == "item_pad_over"))
                if len(plan[1]) >= 16:
                    plan[1][draw(st.integers(0, 15))] = val
                else:
                    plan[1].insert(draw(st.integers(0, len(plan[1]))), val)
            else:
                bad = False
        elif m in ("rat_pad_over", "rat_pad_2000"):
            if ratp is not None:
                ratp[1] = draw(padded(RAT_MAX, m == "rat_pad_over"))
            else:
                bad = False
        elif m in ("rat2001", "rat2000", "rat_empty", "rat_type"):
            if ratp is not None:
                ratp[1] = {"rat2001": "y" * 2001, "rat2000": "w" * 2000, "rat_empty": "",
                           "rat_type": Raw(draw(st.sampled_from(["null", "5", "[\"r\"]", "{}", "true", "NaN"])))}[m]
            else:
                bad = False
        elif m == "plan_type":
            if plan is not None:
                plan[1] = Raw(draw(st.sampled_from(["\"x\"", "null", "{}", "3", "\"[]\"", "true"])))
            else:
                bad = False
        elif m == "deep":
            if plan is not None:
                k = draw(st.sampled_from([50, 1000, 4000, 9000]))
                plan[1] = Raw(draw(st.sampled_from(["[" * k + "]" * k, "[" * k, "{\"a\":" * k + "1" + "}" * k])))
            else:
                bad = False
        elif m in ("refl_bad", "refl_coerce", "refl_loose"):
            pairs[:] = [p for p in pairs if p[0] != "reflection"]
            pool = {"refl_bad": ["2", "null", "\"maybe\"", "NaN", "[]", "{}", "-1", "\"\""],
                    "refl_coerce": ["\"true\"", "\"false\"", "\"1\"", "\"0\"", "1", "0", "true", "false"],
                    "refl_loose": ["\"yes\"", "\"no\"", "\"t\"", "\" TRUE \"", "1.0", "0.0", "\"y\""]}[m]
            pairs.append(["reflection", Raw(draw(st.sampled_from(pool)))])
        elif m == "unknown_key":
            pairs.insert(draw(st.integers(0, len(pairs))), [draw(st.sampled_from(["debug", "Plan", "plan ", "", "ops"])), True])
        elif m == "missing_plan":
            pairs[:] = [p for p in pairs if p[0] != "plan"]
        elif m == "missing_rat":
            pairs[:] = [p for p in pairs if p[0] != "rationale"]
        elif m == "dup_key":
            k = draw(st.sampled_from(["plan", "rationale", "reflection"]))
            v = {"plan": draw(st.sampled_from([["dup"], Raw("3"), []])), "rationale": draw(st.sampled_from(["dup", Raw("null")])),
                 "reflection": draw(st.sampled_from([True, Raw("2")]))}[k]
            pairs.insert(draw(st.integers(0, len(pairs))), [k, v])
        elif m == "top_type":
            top = draw(st.sampled_from(["[{}]", "\"{}\"", "3", "null", "true", "[]", ""]))
        if bad:
            expect = False
        elif m in OBJ_MUTS_UNSPEC and expect is True:
            expect = None
    if "dup_key" in muts:
        expect = None  # which duplicate wins is unspecified; only soundness is asserted
    if draw(st.booleans()):
        pairs = list(draw(st.permutations(pairs)))
    ascii_ = draw(st.booleans())
    seps = draw(st.sampled_from([(",", ":"), (", ", ": "), (" ,\n ", " :\t")]))
    if top is not None:
        body = top.replace("{}", "{" + seps[0].join(json.dumps(k) + seps[1] + _ser(v, ascii_, seps) for k, v in pairs) + "}") \
            if "{}" in top else top
    else:
        body = "{" + draw(st.sampled_from(["", " ", "\n  "])) + seps[0].join(json.dumps(k, ensure_ascii=ascii_) + seps[1] + _ser(v, ascii_, seps)
                                                                          for k, v in pairs) + draw(st.sampled_from(["", "\n"])) + "}"
    text = body
    n_tm = draw(st.sampled_from([0, 0, 1, 1, 1, 2]))
    for _ in range(n_tm):
        m = draw(st.sampled_from(TXT_MUTS_INVALID + TXT_MUTS_NEUTRAL + TXT_MUTS_FENCE + TXT_MUTS_FENCE))
        muts.append(m)
        bad = m in TXT_MUTS_INVALID
        if m == "fence_json":
            text = "```json\n" + text + "\n```"
        elif m == "fence_bare":
            text = "```\n" + text + "\n```"
        elif m == "fence_upper":
            text = "``` JSON  \n" + text + "\n```"
        elif m == "fence_jsonc":
            text = "```jsonc\n" + text + "\n```"
        elif m == "fence_noclose_nl":
            text = "```json\n" + text + "```"
        elif m == "fence_crlf":
            text = "```json\r\n" + text + "\r\n```\r\n"
        elif m == "fence_py":
            text = "```" + draw(st.sampled_from(["python", "js", "json5", "yaml", "json x"])) + "\n" + text + "\n```"
        elif m == "fence_tilde":
            text = "~~~json\n" + text + "\n~~~"
        elif m == "fence_open_only":
            text = "```json\n" + text
        elif m == "fence_double":
            text = "```json\n```json\n" + text + "\n```\n```"
        elif m == "fence_two":
            text = "```json\n" + text + "\n```\n```json\n" + text + "\n```"
        elif m == "prose_before":
            text = draw(st.sampled_from(["Here is the plan: ", "Sure!\n", "plan =", "x", "json\n"])) + text
        elif m == "prose_after":
            text = text + draw(st.sampled_from(["\nthanks", " // done", "\n\nLet me know.", ";", "x"]))
        elif m == "prose_around_fence":
            text = "please follow\n```json\n" + text + "\n```\nthanks"
        elif m == "two_objects":
            text = text + draw(st.sampled_from(["", "\n", " ", ","])) + text
        elif m == "garbage":
            text = text + draw(st.sampled_from([",", "}", "]", "{}", "[]", "0", "null", "\"\""]))
        elif m == "bom":
            text = "\ufeff" + text
        elif m == "ws_pad":
            text = draw(st.sampled_from([" ", "\n\n", "\t \r\n"])) + text + draw(st.sampled_from([" ", "\n", "\r\n\t"]))
        elif m == "nbsp_pad":
            text = draw(st.sampled_from(["\u00a0", "\u2003", "\x1c", "\u3000"])) + text + draw(st.sampled_from(["\u00a0", "\u2028", "\x0c"]))
        elif m in ("pad_20000", "pad_20001", "pad_30000"):
            target = {"pad_20000": MAX_RAW, "pad_20001": MAX_RAW + 1, "pad_30000": 30000}[m]
            if len(text) <= target:
                text = text + " " * (target - len(text))
            else:
                bad = False
        elif m in ("pad_lead_20001", "pad_uws_20001"):
            if len(text) <= MAX_RAW:
                n = MAX_RAW + 1 - len(text)
                if m == "pad_lead_20001":
                    text = draw(st.sampled_from([" ", "\n", "\t"])) * n + text
                else:
                    w = draw(st.sampled_from(["\u00a0", "\u2003", "\u3000", "\x0c", "\x1c", "\u2028"]))
                    text = w * (n // 2) + text + w * (n - n // 2)
            else:
                bad = False
        elif m == "pad_inner_20001":
            i = text.find("{")
            if i != -1 and len(text) <= MAX_RAW and "\"" not in text[:i]:
                text = text[:i + 1] + draw(st.sampled_from([" ", "\n", "\t"])) * (MAX_RAW + 1 - len(text)) + text[i + 1:]
            else:
                bad = False
        elif m == "pad_inner_20000":
            i = text.find("{")
            if i != -1 and len(text) <= MAX_RAW and "\"" not in text[:i]:
                text = text[:i + 1] + " " * (MAX_RAW - len(text)) + text[i + 1:]
        if bad:
            expect = False
        elif m in TXT_MUTS_FENCE and expect is True:
            expect = None
    if len(text) > MAX_RAW:
        expect = False
    return {"text": text, "expect": expect, "muts": muts}


def sub_sanitiser(rec, seed, shard, nshards, n=1200, shrink=True):
    run_hypothesis(rec, seed, sanitiser_cases(), lambda c: check_sanitiser(c, rec), max_examples=n, shrink=shrink, name="sanitiser")


def replay_sanitiser(case):
    check_sanitiser(case, None)


# ---------------------------------------------------------------- the LLM planner that consumes the sanitiser's verdict

@st.composite
def llm_planner_cases(draw):
    c = draw(sanitiser_cases())
    return {"text": c["text"], "muts": c["muts"], "result": draw(st.sampled_from(["result", "dict", "ns"])),
            "state": draw(st.sampled_from(["ns", "dict", "ns_nologs"])), "reps": draw(st.sampled_from([1, 1, 2])),
            "entry": draw(st.sampled_from(["policy", "legacy", "package"]))}


def check_llm_planner(case, rec=None):
    """plan_with_llm (t3/policy.py) is where planner text from an LLM is accepted: whatever it returns as a plan must be
    the sanitiser's accepted object; any text the sanitiser rejects must end in the empty fallback plan."""
    import clematis.engine.stages.t3.policy as policy
    from clematis.engine.policy.sanitize import parse_and_validate
    from clematis.engine.policy.json_schemas import PLANNER_V1
    from clematis.adapters.llm import LLMResult

    text = case["text"]
    if isinstance(text, dict) and "__bytes__" in text:
        text = bytes.fromhex(text["__bytes__"])
    # soundness of the sanitiser's own verdict on this text (reference model); raises Violation itself
    check_sanitiser({"text": case["text"], "expect": None, "muts": case.get("muts")}, None)
    ok, obj = parse_and_validate(text, PLANNER_V1) if isinstance(text, str) else (False, "non-string")

    class _Adapter:
        name = "Stub"

        def generate(self, prompt, max_tokens=256, temperature=0.2):
            if case["result"] == "result":
                return LLMResult(text=text, tokens=0, truncated=False)
            if case["result"] == "dict":
                return {"text": text, "tokens": 0, "truncated": False}
            return SimpleNamespace(text=text)

    cfg = world.validated_cfg({"t3": {"backend": "llm"}})
    state = {"ns": SimpleNamespace(logs=[]), "dict": {"logs": []}, "ns_nologs": SimpleNamespace()}[case["state"]]
    had = hasattr(policy, "_get_llm_adapter_from_cfg")
    if not had:
        raise RuntimeError("harness: clematis.engine.stages.t3.policy._get_llm_adapter_from_cfg is gone; update checks/c13.py")
    orig = policy._get_llm_adapter_from_cfg
    policy._get_llm_adapter_from_cfg = lambda cfg_: _Adapter()
    try:
        outs = []
        for i in range(case["reps"]):
            ctx = world.make_ctx(cfg, agent="A", turn_id=i + 1, now=world.NOW_ISO)
            if case.get("entry") == "legacy":
                from clematis.engine.stages.t3.legacy import plan_with_llm
            elif case.get("entry") == "package":
                from clematis.engine.stages.t3 import plan_with_llm
            else:
                plan_with_llm = policy.plan_with_llm
            outs.append(plan_with_llm(ctx, state, _plain(cfg)))
    finally:
        policy._get_llm_adapter_from_cfg = orig
    for out in outs:
        if not isinstance(out, dict):
            raise Violation(f"plan_with_llm returned {ascii(out)[:120]}, not a dict", case, "llm-planner-shape")
        fallback = list(out.get("plan") or []) == [] and str(out.get("rationale", "")).startswith("fallback") and not out.get("reflection")
        if not ok and not fallback:
            raise Violation(f"planner text rejected by the sanitiser ({ascii(obj)[:80]}) still became a plan: {ascii(out)[:200]}", case,
                            "llm-planner-accepts-rejected")
        if ok and not fallback:
            if out.get("plan") != obj["plan"] or out.get("rationale") != obj["rationale"] or \
                    bool(out.get("reflection", False)) != obj["reflection"] or set(out) - {"plan", "rationale", "reflection"}:
                raise Violation(f"accepted planner output {ascii(out)[:200]} is not the sanitised object {ascii(obj)[:200]}", case,
                                "llm-planner-unsanitised")
    if rec is not None:
        muts = list(case.get("muts") or [])
        nt = bool(muts) and isinstance(text, str) and (ok or _core_is_json(text))
        rec.case(nontrivial=nt, dig=digest(case["text"] if isinstance(case["text"], str) else repr(case["text"])) if nt else None,
                 labels=["accepted" if ok else "fallback", f"result={case['result']}", f"state={case['state']}",
                         f"entry={case.get('entry', 'policy')}"],
                 sample={"muts": muts, "ok": ok, "text": ascii(text)[:120]} if nt else None)


def sub_llm_planner(rec, seed, shard, nshards, n=300, shrink=True):
    run_hypothesis(rec, seed, llm_planner_cases(), lambda c: check_llm_planner(c, rec), max_examples=n, shrink=shrink, name="llm_planner")


def replay_llm_planner(case):
    check_llm_planner(case, None)


# ---------------------------------------------------------------- atheris byte target

FUZZ_MODES = 20
_FZ_WS = [" ", "\t", "\n", "\r", "\x0b", "\x0c", "\x1c", "\x85", "\u00a0", "\u2003", "\u2028", "\u3000"]


def _fz_pad(t, limit, exact=False):
    """JSON string body: core from the fuzz text (escaped), padded with one whitespace kind to limit+k (or exactly limit)."""
    sel = ord(t[0]) if t else 0
    ws = _FZ_WS[sel % len(_FZ_WS)]
    core = t[1:1 + (sel % 7) * (limit // 8)]
    total = limit if exact else limit + 1 + (sel // 12) % 5 * (limit // 3)
    n = max(total - len(core), 0 if exact else 1)
    pad = ws * n
    raw = {0: core + pad, 1: pad + core, 2: pad[:n // 2] + core + pad[n // 2:]}[(sel // 3) % 3]
    return json.dumps(raw)[1:-1]


def decode_fuzz(data: bytes):
    """Structure-aware decoding of a fuzz input: first byte = wrapper, rest = UTF-8 text (invalid bytes become lone surrogates)."""
    if not data:
        return "", "raw"
    mode = data[0] % FUZZ_MODES
    t = data[1:].decode("utf-8", "surrogateescape")
    if mode == 0:
        return t, "raw"
    if mode == 1:
        return "```json\n" + t + "\n```", "fence_json"
    if mode == 2:
        return "```\n" + t + "\n```", "fence_bare"
    if mode == 3:
        return "```jsonc\n" + t + "```", "fence_jsonc"
    if mode == 4:
        return "```python\n" + t + "\n```", "fence_py"
    if mode == 5:
        return "Here is the plan:\n" + t, "prose_before"
    if mode == 6:
        return t + "\nthanks", "prose_after"
    if mode == 7:
        return t + "\n" + t, "two"
    if mode == 8:
        return t + " " * max(0, MAX_RAW - len(t)), "pad_20000"
    if mode == 9:
        return t + " " * max(0, MAX_RAW + 1 - len(t)), "pad_20001"
    if mode == 10:
        return "[" * 3000 + t + "]" * 3000, "deep"
    if mode == 11:
        return "{\"plan\":[" + t + "],\"rationale\":\"r\"}", "as_items"
    if mode == 12:
        return "{\"plan\":[],\"rationale\":" + t + "}", "as_rationale"
    if mode == 13:
        return "{\"plan\":[\"a\"],\"rationale\":\"r\",\"reflection\":" + t + "}", "as_reflection"
    if mode == 14:
        return "```json\n" + t + "\n```\n```json\n" + t + "\n```", "fence_two"
    if mode == 16:
        return "{\"plan\":[\"a\",\"" + _fz_pad(t, ITEM_MAX) + "\"],\"rationale\":\"r\"}", "item_pad_over"
    if mode == 17:
        return "{\"plan\":[\"" + _fz_pad(t, ITEM_MAX, exact=True) + "\"],\"rationale\":\"r\"}", "item_pad_200"
    if mode == 18:
        return "{\"plan\":[\"a\"],\"rationale\":\"" + _fz_pad(t, RAT_MAX) + "\"}", "rat_pad_over"
    if mode == 19:
        return "{\"plan\":[\"a\"],\"rationale\":\"" + _fz_pad(t, RAT_MAX, exact=True) + "\"}", "rat_pad_2000"
    return "\u00a0" + t + "\u2003", "nbsp_pad"


def atheris_available() -> bool:
    try:
        import atheris  # noqa: F401
        return True
    except Exception:
        return False


def shrink_text(text, still):
    """Greedy chunk removal while `still(text)` holds."""
    n = max(1, len(text) // 2)
    while n >= 1:
        i = 0
        while i < len(text):
            cand = text[:i] + text[i + n:]
            if cand != text and still(cand):
                text = cand
            else:
                i += n
        n //= 2
    return text


def sub_sanitiser_atheris(rec, seed, shard, nshards, runs=20000):
    if not atheris_available():
        rec.note("atheris", "not importable: fuzz sub-check skipped (the Hypothesis sanitiser sub-check decides)")
        return
    verif = os.path.dirname(os.path.dirname(os.path.abspath(__file__)))
    target = os.path.join(verif, "fuzz", "c13_sanitize_fuzz.py")
    work = tempfile.mkdtemp(prefix="c13_fz_", dir=os.environ.get("VERIF_TMP") or None)
    try:
        corpus = os.path.join(work, "corpus")
        os.makedirs(corpus)
        seeds = os.path.join(verif, "corpus", "C13")
        env = dict(os.environ)
        env["C13_FUZZ_OUT"] = work
        cmd = [sys.executable, target, f"-runs={int(runs)}", f"-seed={(seed + shard) % (2 ** 31 - 1) + 1}", "-max_len=512",
               f"-artifact_prefix={work}/", "-verbosity=0", "-print_final_stats=1", f"-dict={os.path.join(verif, 'fuzz', 'c13.dict')}",
               corpus]
        if os.path.isdir(seeds):
            cmd.append(seeds)
        p = subprocess.run(cmd, env=env, cwd=work, stdout=subprocess.PIPE, stderr=subprocess.STDOUT)
        out = p.stdout.decode(errors="replace")
        stats = {}
        sp = os.path.join(work, "stats.json")
        if os.path.exists(sp):
            with open(sp, "r", encoding="utf-8") as f:
                stats = json.load(f)
        execs = int(stats.get("execs", 0))
        rec.case(nontrivial=False, n=execs)
        for lb, k in (stats.get("labels") or {}).items():
            rec.label(lb, k)
        for d in stats.get("nontrivial", []):
            rec.case(nontrivial=True, dig=d, n=0)
        rec.note("atheris_execs", execs)
        fp = os.path.join(work, "failure.json")
        if os.path.exists(fp):
            with open(fp, "r", encoding="utf-8") as f:
                fail = json.load(f)
            text, sig = fail["text"], fail["sig"]

            def still(t):
                try:
                    check_sanitiser({"text": t, "expect": None, "muts": ["fuzz"]}, None)
                except Violation as v:
                    return v.sig == sig
                return False

            if still(text):
                text = shrink_text(text, still)
            try:
                check_sanitiser({"text": text, "expect": None, "muts": ["fuzz"]}, None)
            except Violation as v:
                rec.violation("sanitiser_atheris: " + v.message, v.case, v.sig)
            else:
                rec.violation("sanitiser_atheris: " + fail["message"], {"text": fail["text"], "expect": None, "muts": ["fuzz"]}, sig)
            return
        if p.returncode != 0 or execs == 0:
            raise RuntimeError(f"atheris target failed rc={p.returncode}\n{out[-3000:]}")
    finally:
        shutil.rmtree(work, ignore_errors=True)


SUBCHECKS = [
    Sub("planner", sub_planner, quick={"n": 1250}, thorough={"n": 7000}, shards_quick=4, shards_thorough=16, replay=replay_planner),
    Sub("chain", sub_chain, quick={"n": 300}, thorough={"n": 2500}, shards_quick=4, shards_thorough=16, replay=replay_chain),
    Sub("speaker", sub_speaker, quick={"n": 750}, thorough={"n": 7000}, shards_quick=4, shards_thorough=16, replay=replay_speaker),
    Sub("refine", sub_refine, quick={"n": 100}, thorough={"n": 1500}, shards_quick=4, shards_thorough=16, replay=replay_refine),
    Sub("sanitiser", sub_sanitiser, quick={"n": 1250}, thorough={"n": 7000}, shards_quick=4, shards_thorough=16, replay=replay_sanitiser),
    Sub("llm_planner", sub_llm_planner, quick={"n": 300}, thorough={"n": 3000}, shards_quick=4, shards_thorough=16, replay=replay_llm_planner),
    Sub("sanitiser_atheris", sub_sanitiser_atheris, quick={"runs": 30000}, thorough={"runs": 1250000}, shards_quick=1,
        shards_thorough=4, replay=replay_sanitiser),
]

KNOWN_PROBES = {FID_THRESHOLDS: probe_thresholds}
