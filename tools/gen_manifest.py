#!/usr/bin/env python3
"""Regenerates MANIFEST.json from the table below (kept in one place so it stays valid)."""
import json
import os

HERE = os.path.dirname(os.path.dirname(os.path.abspath(__file__)))

# id -> (level, technique, level text, level note, design ref)
CHECKS = {
    "C03": ("exploration",
            "Hypothesis property test against an exact-rational reference pipeline + metamorphic permutation/purity relations",
            "Generated search (thousands of delta multisets with forced duplicates, boundary caps, cooldown histories) against "
            "an independent exact-rational reference of the documented pipeline plus envelope predicates and permutation "
            "invariance. Bounded by case count; does not prove absence outside generated sizes (<=15 deltas, 5 targets).",
            "Trusted: the reference pipeline in checks/c03.py (written from the docstring/statement); finite deltas |x|<=1e300.",
            "DESIGN.md §3 C03"),
    "C12": ("exploration",
            "Hypothesis property test: exact differential against an independent reference propagator + budget/reachability predicates + metamorphic decomposition over graphs",
            "Generated worlds (1-4 graphs with cycles, self-loops, parallel edges, negative/zero weights, unknown relations, tags; "
            "texts biased to seed labels; T1 config surface incl. caps 0/1/tight/loose, slice caps, perf caps) checked against a "
            "reference propagator written from the documented rule (ids and all six counters exactly), per-graph budget and "
            "reachability predicates, decomposition over graphs, purity and store immutability; multi-call sequences on one state (repeated "
            "identical calls with several seeded graphs and cache hits, configs / slice caps / active lists changing between calls, graph "
            "edits through every store API), the perf.parallel.t1 fan-out incl. > 10 graphs, and real orchestrator turns whose t1.jsonl "
            "record is compared with the reference under the scheduler-derived caps. Bounded by case count and graph size (<=8 nodes).",
            "Trusted: harness/models/t1.py (documented rule); exact differential only when perf caps are off.",
            "DESIGN.md §3 C12"),
    "C01": ("exploration",
            "Hypothesis-generated worlds/configs/scripts executed in 3-5 environments (warm re-run, fresh processes under other PYTHONHASHSEED values with reversed case order, perturbed perf_counter/time.time/datetime.now, 1us thread switching); metamorphic run-vs-run byte comparison",
            "Each generated case (2-3 graphs, episodes of 3 owners incl. ties, GEL edges; validated config with caches, T1-parallel, "
            "scheduler budget yields, GEL maintenance, reflection, hybrid, quality/MMR, perf metrics; 2-6 turns over 3 agents; BoW or the "
            "engine's own content-hash encoder) is run in-process twice (warm) and in fresh subprocesses with different hash seeds, "
            "reversed order, jittered/scaled/stalling fake clocks and datetime.now() shifted by hours inside the engine modules; "
            "utterances, canonical stream bytes (paths normalised, scheduler consumed.ms masked), snapshot bodies, state digest and file "
            "lists must be identical.",
            "Trusted: observation layer; real OS thread schedules are sampled, not enumerated.",
            "DESIGN.md §3 C01"),
    "C02": ("exploration",
            "Hypothesis differential/metamorphic test: same world and turn script under a base config vs base + arbitrary validated subtree behind a closed gate",
            "For each of 7 gates (perf master, parallel closed three ways, GEL, quality, hybrid, reflection, scheduler) a generated "
            "in-range subtree (random or an aggressive preset) is added with the gate closed; utterances, canonical stream bytes, "
            "snapshot bodies, the engine state digest after every turn, the set of files written, t3 streams (timings masked) and other "
            "streams must equal the run that omits the subtree, no gated artefact (gel/reflection/scheduler logs, perf/quality traces) may "
            "appear, and the validator must not materialise perf/quality blocks. Worlds give the gated code work (GEL edges, >=2 hits, "
            "forced plan reflection flag); other features are switched on/off at random in both runs.",
            "Trusted: observation layer harness/observe.py; shadow tracing excluded by design (see ASSUMPTIONS in the evidence).",
            "DESIGN.md §3 C02"),
    "C04": ("exploration",
            "Hypothesis property test of apply_changes against a recording store double + reference model, and generated turn histories through the real orchestrator with per-turn invariants",
            "(a) generated approved lists x store behaviour scripts (result shapes, 6 exception types, per-delta raise patterns, "
            "missing batch API / store) x versions x turn ids x cadence x cache-bust settings with a preloaded CacheManager, checked "
            "against a reference model of the documented contract (call log, exactly-once, version+1, cadence, invalidation counts, "
            "never raises); (b) 3-8 turn histories through Orchestrator.run_turn with kill switch toggles, store faults and injected "
            "deltas: store receives exactly what the meta-filter approved, version/log/snapshot discipline, kill-switch inertness, "
            "cache busting observed on a live manager; (c) sequences of 2-6 applies on ONE state/store/manager with the settings "
            "edited in place on a live config, agents, directories and managers changing between steps.",
            "Trusted: all-or-nothing store double; the cadence rule int(turn) % n == 0 from apply.py's docstring.",
            "DESIGN.md §3 C04"),
    "C05": ("exploration",
            "Hypothesis rule-based state machine, differential: cached engine vs cache-free twin over identical worlds, compared after every turn",
            "Stateful differential over histories of turns (2 agents, 4 texts, 2-5 recurring config variants incl. perf gate open/closed "
            "with caps kept, now advances across the recency boundary), graph upserts (new ids and same-count edits), memory additions, "
            "kill-switch toggles and switches between two same-shaped engine states living in one process; the (t1, t2) each turn "
            "really used (observed at health.check_and_log, so turn-level cache hits are seen) and the utterance must equal the "
            "cache-free twin's; agent-scope owner isolation asserted directly. Cache configs: stage LRU, perf byte caches, turn-level manager.",
            "Trusted: cache-free twin as oracle (same code, caches off); TTL expiry not exercised.",
            "DESIGN.md §3 C05"),
    "C06": ("exploration",
            "Hypothesis-generated states and write-load-write chains against a reference sanitisation model (round-trip + byte-identical re-write) and generated salted snapshot directories for discovery",
            "States with three store shapes (export/import, .w maps with unicode/int/bool/non-finite values, bare, real store), GEL graphs "
            "(nodes as dict/list, edges as list or dict under canonical/reversed/arbitrary keys, both orientations, repeated pairs, "
            "weights needing rounding/clamping, on/around the validated bounds, NaN/inf), meta shapes, unicode agent ids, 1-3 generations "
            "sharing a directory: write -> load into a fresh state -> write -> load -> write; version, store export, canonical edges with "
            "round6(clamp(w)) and byte-identical second/third bodies, schema marker in body and sidecar; discovery over directories salted "
            "with sidecars/temps/.zst/~ files carrying newer mtimes must pick the newest real body.",
            "Trusted: the reference model inside checks/c06.py; which of several records for one pair survives is not asserted (undocumented).",
            "DESIGN.md §3 C06"),
    "C07": ("exploration",
            "exhaustive enumeration of small JSON object pairs + Hypothesis recursive JSON + atheris byte fuzzing of the delta codec (round-trip law), Hypothesis-generated on-disk scenarios with baseline present/missing/corrupt",
            "Codec law apply_delta(base, compute_delta(base, cur)) == cur in type-exact canonical JSON (also after the delta is "
            "serialised), inputs unmutated: every ordered pair of a stated universe of small objects (2.5e5 pairs quick, 8.7e6 thorough), "
            "Hypothesis recursive JSON with dotted/empty/unicode keys and dict<->scalar flips, atheris structure-aware byte target. "
            "On disk: write_snapshot_auto full then delta, all readers with the baseline present (must equal P1), missing, etag-mismatched "
            "or corrupt (truncation at every structural offset, random blobs): accepted outcomes are raise / {} / not loaded / exactly P1.",
            "Trusted: canonical-JSON equality as oracle; codec 'none' only (zstandard is not installed).",
            "DESIGN.md §3 C07"),
    "C08": ("fault_enumeration",
            "I/O fault-point enumeration: every recorded I/O step of a write x every fault kind (kill before/after/mid, short write, persistent and transient errnos) in forked children, plus real RLIMIT_FSIZE faults and concurrent readers",
            "A proxy layer over os/open/tempfile/time/Path as seen by clematis.io.atomic records the ordered I/O steps of one write "
            "(18 for atomic_write_bytes, 36 with a sidecar); for every step and every fault kind the write is re-run (kills as os._exit "
            "in a forked child) for 6-7 targets (atomic_write_bytes/text/json, write_snapshot body+sidecar, delta _write_lines, "
            "rewrite_jsonl) x content/permission classes; the parent checks old-or-new completeness, bystander files, leftovers vs "
            "snapshot discovery and log globs, retry semantics, sidecar fail-soft. Hypothesis generates further contents; a reader thread "
            "and a reader process race the writer (every read exactly A or B).",
            "Crash model: process death between two Python-visible I/O calls (no power-loss reordering below the FS API).",
            "DESIGN.md §3 C08"),
    "C09": ("exploration",
            "harness-owned schedules: exhaustive enumeration of completion orders of run_parallel via gated thunks (all permutations x failing subsets x worker counts) + Hypothesis sampling + free-running pools; differential parallel-vs-sequential for T1 and T2 fan-out with forced completion orders",
            "run_parallel: every thunk blocks on its own Event and a controller releases them by a priority permutation, so every "
            "completion order reachable with w workers is produced deterministically (n<=5 quick, n<=6 thorough, x 2^n failing subsets x "
            "workers 0-8, key/order_key shapes) against a reference written from the docstring (merge of pairs sorted by (order_key, "
            "submit index), plain loop for <=1 worker, all failures sorted, merge never invoked on failure, no thunk twice); T1 fan-out "
            "with get_graph gated per graph and T2 fan-out with shard completion forced: results, order, scores and counters equal the "
            "sequential path over generated worlds/configs. One listed known finding (cache-eviction counters under capacity pressure).",
            "Trusted: harness/models/parallel.py; real OS schedules only in the free-running sub-check.",
            "DESIGN.md §3 C09"),
    "C10": ("exploration",
            "Hypothesis differential test: real batch driver (generated contract-following compute stub, real capture/staging/commit/apply) vs a sequential-loop reference; real-pipeline sub-check behind a known finding",
            "Generated batches of 1-6 agents with arbitrary graph-set overlap, task order, worker limits, per-agent payloads (known and "
            "unknown streams, unicode, 10 KB records), approved deltas, dialogue and staging byte limits from 1 byte to the default: "
            "the driver's results, per-file log bytes and line order, snapshot bodies, version and store call log must equal the "
            "sequential loop (records, real apply_changes, apply record per agent); compute may run only for the greedy pairwise-"
            "disjoint selection in task order; staging must be disabled afterwards. The real stage pipeline through the driver is a "
            "listed known finding (probe re-executed every run).",
            "Trusted: the stub follows the dry-run contract of the repo's own identity tests; compute phases are sequential in this driver, so completion order is task order.",
            "DESIGN.md §3 C10"),
    "C11": ("exploration",
            "Hypothesis property test: envelope predicates + exact differential against a float64 reference retrieval on well-separated cases + metamorphic rerank-off relation",
            "Generated memories (owners, timestamps around the recency window, clusters, importance, bag-of-words/explicit/zero/missing "
            "vectors), queries, validated t2 configs (k, threshold, tiers, ranking weights, owner scope, hybrid/quality/MMR) and GEL "
            "edges; checks k/distinct/owner scope/threshold/tier pools/score agreement/documented order on every case, exact ids+order "
            "against an independent float64 reference when no score lies in the 1e-6 float32 band, rerank layers as pure permutations "
            "(same case with layers off) and residual nudges (existing node, label in a used hit, caps).",
            "Trusted: harness/models/t2.py; float32-vs-float64 band 1e-6; in-memory backend only (lancedb is not installed).",
            "DESIGN.md §3 C11"),
    "C13": ("exploration",
            "Hypothesis property tests of planner/speaker/sanitiser against reference rules, full-turn call counting, grammar-based mutation of plan texts and an atheris byte target with the oracle inside",
            "Planner: bundles with s_max on a grid around both thresholds (equality, +-1 ulp), caps 0-16, slice caps, checked for purity, "
            "len(ops) <= min(cap, slice cap), Speak-first with the documented intent, RequestRetrieve only below tau_low, monotone intent; "
            "config->bundle->plan->utterance chain so configured caps/thresholds/budgets are the ones that bind; speaker: templates with "
            "every/unknown placeholders and stray braces, budgets 1-256, LLM stub/raising adapters: token count <= budget also after the "
            "utterance filter; full turns: <= 1 retrieval refinement COUNTED per turn also for runtime max_rag_loops 2..16, the planner "
            "entry points the orchestrator really calls (legacy facade, package export, run_policy), dict/namespace/dataclass configs; "
            "llm_planner: a plan comes only from text the sanitiser accepts; sanitiser: valid PLANNER_V1 objects mutated (fences, prose, size, "
            "nesting, types, NaN, surrogates) + atheris: never raises, accepted => single JSON object within limits validating against "
            "the repo's schema.",
            "Trusted: reference rules transcribed from docs/tests inside checks/c13.py; jsonschema for PLANNER_V1.",
            "DESIGN.md §3 C13"),
    "C14": ("exploration",
            "exhaustive leaf-wise enumeration over a frozen v1 key/range table + Hypothesis structural generation + cross-PYTHONHASHSEED child interpreters + real CLI subprocesses + runnability turns + atheris byte target",
            "Every leaf of a frozen table (~200 leaves, transcribed from the docs, not read from the validator) x every value class "
            "(valid/boundary/outside/wrong type/NaN/inf/10**400), sections replaced by scalars/lists, unknown and non-string keys; "
            "Hypothesis combinations of 0-8 leaf assignments + structural edits: outcome in {dict, ConfigError}, input deep-unchanged "
            "(container identity), all API variants + in-process CLI + real `python -m clematis validate` subprocesses agree on verdict/"
            "messages/normalised dict, identical across PYTHONHASHSEED 0/1/2/random; accepted => documented ranges, enums and cross-field "
            "rules hold (NaN satisfies none) and two real turns on a non-trivial world run without raising.",
            "Trusted: the frozen range table inside checks/c14.py; network-reaching configs (llm+ollama) counted and skipped.",
            "DESIGN.md §3 C14"),
    "C15": ("exploration",
            "exhaustive breadth-first closure over reachable (model, implementation) states for every container + Hypothesis rule-based machines + multi-threaded rounds with schedule-independent oracles + merge determinism properties",
            "Nine containers (LRUBytes, _NamespaceCache/LRUCache/CacheManager with injected clock, DeterministicLRU/Set, ring LRU, "
            "DedupeRing, lock wrappers, merge) against ordered-list reference models: all op sequences over small key/cost/capacity/TTL "
            "alphabets to fixpoint (2.4e5 transitions quick, 9.7e6 thorough) comparing return values, eviction reports, sizes, LRU order "
            "and stats after every op; 200-step random machines; 2-4 threads under 1us switching and settrace pre-emption (no lost "
            "update, consistency, linearizability for small histories); merge independent of worker list order.",
            "Trusted: harness/models/lru.py written from docstrings/docs; the undocumented age==ttl rule is probed once on _NamespaceCache.get and every other TTL reader must follow the same rule; negative costs are not asserted.",
            "DESIGN.md §3 C15"),
    "C16": ("exploration",
            "Hypothesis property tests and reference models for append/normalise/stager/compaction/rotation, multi-process multi-thread writer rounds with schedule-independent oracles, crash-point enumeration for compaction and rotation in forked children",
            "append through all four entry points (nested/unicode/control chars/70-131 KB lines; direct or mux-captured): exactly one "
            "LF-terminated JSON line per record; 1-4 processes x 1-4 threads of tagged writers incl. >64 KB lines: counts, completeness, "
            "per-writer order; CI normalisation vs a docs-derived reference (identity when CI unset, only volatile fields of identity "
            "streams change, idempotent, pure); stager: sorted drain, drain-flush-retry protocol over a ladder of byte limits through "
            "the estimate boundaries, real batch driver with stubs: per-file sequence independent of the limit; compaction preserves "
            "records, atomic under kills; rotation histories vs a reference model incl. pre-existing generations/gaps and kill/EIO at "
            "every remove/replace step.",
            "Trusted: harness/models/{lognorm,stager,rotate}.py; N = --backups as in help text, code and tests (the docstring's backups-1 arithmetic is contradictory).",
            "DESIGN.md §3 C16"),
    "C17": ("exploration",
            "exhaustive breadth-first enumeration of scheduler histories to saturation against a reference model + Hypothesis rule-based machine + generated yield decisions + real turns under a scripted clock",
            "All selection/yield histories (clock advance, next_turn, on_yield, optional rotation) for 1-4 agents, allowance 1-3, aging "
            "{0,1,5}, both policies, memoised on normalised state to saturation: purity/determinism, eligibility/reset rule, fair-queue "
            "argmax, bookkeeping and the wait bound 2(n-1)m+1; random long histories with up to 6 agents and arbitrary clock jumps; "
            "_should_yield vs reference precedence on generated budgets/consumption; real Orchestrator.run_turn with scheduling on and "
            "perf_counter scripted (thresholds crossed by the SUM of several stages, non-zero clock origin, two slices on one state/ctx): "
            "one yield event at a stage boundary, reason admissible, no later-stage records, stage work within budgets (real heap pops "
            "per graph, hop reach, hits used incl. RAG re-entry, plan ops); the repo's own driver loop (scripts/demo.py) run in-process "
            "and judged against the eligibility / reset / wait-bound rules.",
            "Trusted: harness/models/scheduler.py; where docs are silent (order among several BUDGET_* reasons, per-graph vs per-slice T1 budget) both readings are admitted.",
            "DESIGN.md §3 C17"),
    "C18": ("exploration",
            "Hypothesis rule-based state machine over GEL operations against a reference edge-map model + targeted Hypothesis properties (permutation invariance, decay exactness, maintenance purity, gate inertness) + real turns",
            "Histories over {observe(items), tick(dt), merge, split, promote, direct applies} with validated graph.* settings (both update "
            "modes, alpha, clamp ranges, half-lives, floors, caps incl. 0/1) and item lists in 10 shapes with ties/duplicates/NaN/inf "
            "scores, checked after every op against an independent model: weights within clamp, tick never grows |w| and drops exactly "
            "the sub-floor edges, one canonical edge per unordered pair, observation touches <= pair cap pairs among the top-k above "
            "threshold and is permutation-insensitive, merge/split only annotate, promotion adds only concept node+edges and is "
            "idempotent, gate off leaves the state bit-identical; real orchestrator turns agree with the direct API.",
            "Trusted: harness/models/gel.py (update amounts follow code+unit tests where the m11 doc formula differs).",
            "DESIGN.md §3 C18"),
    "C19": ("exploration",
            "Hypothesis-generated turns (gate triples, budgets, both backends with recorded fixtures, fault scenarios at compute/write/telemetry/timeout) compared with a reflection-off twin world; purity properties for ids/timestamps",
            "1-3 real turns per case on small worlds: allow_reflection x plan flag (state flag or Plan.reflection) x dry run x kill switch, "
            "summary_tokens/ops_reflection/topk/embed, rule-based and LLM backends (fixture learned by a recording pre-pass; missing/"
            "garbage/blank fixtures), faults: reflect raising 8 exception types, index.add raising, embedding adapter raising, telemetry "
            "append failing at 3 sites, scripted perf_counter timeouts. Gate closed => reflect never called, index and t3_reflection.jsonl "
            "untouched; open => <= ops entries, summaries within the token limit, nothing written on error/timeout; every turn: utterance, "
            "canonical log deltas, stage objects, snapshots, store and version equal the reflection-off twin; ids/ts pure in (agent, "
            "turn, slot, text). plan_flag: 2-6 calls of the real LLM policy (run_policy) on one state with valid/fenced/prose/schema-"
            "invalid/adapter-error/raising/inactive planner outcomes, then the real gate: the request consulted is the one of this "
            "call's plan (no stale flag after a fallback). gate: direct helper+writer call sequences on one dict- or object-shaped "
            "state with new/reused ctx over allow x plan-object kinds x state flag x dry marker x cfg location; ctx objects reused "
            "across turns; memory_index and mem_index as one or two objects; 0-8 candidate entries with own id/ts fields.",
            "Trusted: the reflection-off twin as oracle; ts compared only for equal logical now_ms.",
            "DESIGN.md §3 C19"),
    "C20": ("fault_enumeration",
            "fault-site enumeration: every declared fail-soft site x 8 exception types x before/after mode x generated worlds, sampled site pairs/triples (Hypothesis), enumerated and generated boot-file contents, atheris on boot files; differential against an off/idle baseline",
            "41 turn-level sites in 13 guard groups derived from the code's own guards (boot loader internals, GEL merge/split/promotion, "
            "reflection compute/write/telemetry, LLM adapter construction, hybrid rerank, fusion/MMR, shadow trace, cache invalidation, "
            "store apply, sidecar write, timestamp normalisation) are shadowed by raising spies; the turn must return and its "
            "t1/t2/t4/apply/turn records and line must be byte-identical to the fault-free baseline with that subsystem off or idle "
            "(built per turn). ~45 classes of snapshot-directory contents + generated ones: garbage must equal the empty-directory run, "
            "any readable JSON object must at least let turns complete.",
            "gel_observe/gel_tick, emit_trace as a whole, T1/T2 core, meta-filter, canonical appends and the snapshot body write are not declared fail-soft and are out of scope (stated in evidence).",
            "DESIGN.md §3 C20"),
}

NOT_APPLICABLE = {
}

ALL = [f"C{i:02d}" for i in range(1, 21)]


def main():
    checks = []
    for pid in ALL:
        if pid not in CHECKS:
            continue
        level, tech, text, note, ref = CHECKS[pid]
        checks.append({
            "property_id": pid,
            "quick_cmd": f"./vcheck run {pid} --tier quick",
            "thorough_cmd": f"./vcheck run {pid} --tier thorough",
            "evidence_file": f"/verif/evidence/{pid}.json",
            "replay_cmd_template": f"./vcheck replay {pid} {{path}}",
            "engine": "vcheck",
            "level_claimed": {"category": level, "text": text, "design_ref": ref},
            "level_note": note,
            "technique": tech,
        })
    na = []
    for pid in ALL:
        if pid in CHECKS:
            continue
        reason = NOT_APPLICABLE.get(pid, "check not built yet in this session (planned, see DESIGN.md §3); the technique applies")
        na.append({"property_id": pid, "reason": reason})
    man = {
        "version": 1,
        "setup_cmd": "./setup.sh",
        "hooks": {
            "guard": "CLEMATIS3_VERIF",
            "enable": "no source hooks: checks import /repo's working tree directly (PYTHONPATH=/repo, fresh interpreter per shard) "
                      "and patch module attributes from outside",
            "baseline_off_cmd": "cd /repo && /venv/bin/python -m pytest -ra -q -p no:cacheprovider --timeout=900 --continue-on-collection-errors",
            "source_commits": [],
            "add_only": True,
        },
        "engines": [{"name": "vcheck", "path": "/verif/vcheck", "serves_properties": sorted(CHECKS),
                     "kind_free_text": "Hypothesis strategies / rule-based state machines, exhaustive small-space enumeration, "
                                       "fault-point enumeration and atheris byte fuzzing, sharded over fresh interpreters; "
                                       "explicit oracles (reference models, round-trips, differential/metamorphic relations)"}],
        "checks": checks,
        "not_applicable": na,
        "notes": "Every check: exit 0 held / 1 with 'VIOLATION property=<id> replay=<path>' / 2 harness error. "
                 "Known findings: /verif/known_findings.json. Replays of failing runs land in /verif/out/replays/<id>/; "
                 "committed regression replays in /verif/replays/<id>/ are re-executed first on every run.",
    }
    with open(os.path.join(HERE, "MANIFEST.json"), "w") as f:
        json.dump(man, f, indent=1)
        f.write("\n")
    try:
        import jsonschema
        jsonschema.validate(man, json.load(open("/root/.vp/MANIFEST.schema.json")))
        print("MANIFEST.json valid;", len(checks), "checks,", len(na), "not_applicable")
    except ImportError:
        print("written (jsonschema not importable, not validated)")


if __name__ == "__main__":
    main()
