"""atheris / libFuzzer byte target for C13 (plan sanitiser: total, accepts only one JSON object within the limits).

Run by checks/c13.py:sub_sanitiser_atheris in a child process (atheris.Fuzz() never returns, libFuzzer calls exit()):
    python fuzz/c13_sanitize_fuzz.py -runs=N -seed=S <writable corpus dir> [/verif/corpus/C13]
Env: C13_FUZZ_OUT  directory receiving stats.json (coverage of the generator) and failure.json (first violation)
Input decoding is structure-aware (checks.c13.decode_fuzz: first byte = wrapper such as fence / prose / padding to the
raw-size limit / embedding as plan items, rest = UTF-8 text, invalid bytes become lone surrogates).
The oracle is checks.c13.check_sanitiser — exactly the one the Hypothesis sub-check uses.
Exit code 77 = violation found (failure.json written).
"""
import json
import os
import sys

import atheris

with atheris.instrument_imports(include=["clematis.engine.policy.sanitize"]):
    import clematis.engine.policy.sanitize  # noqa: F401

from checks.c13 import decode_fuzz, check_sanitiser, ref_single_object, _core_is_json  # noqa: E402
from harness.runner import Violation, digest  # noqa: E402

OUT = os.environ.get("C13_FUZZ_OUT") or "."
STATS = {"execs": 0, "labels": {}, "nontrivial": []}
_NT = set()
NT_CAP = 20000


def _flush():
    STATS["nontrivial"] = sorted(_NT)
    tmp = os.path.join(OUT, "stats.json.tmp")
    with open(tmp, "w", encoding="utf-8") as f:
        json.dump(STATS, f)
    os.replace(tmp, os.path.join(OUT, "stats.json"))


class _Rec:
    """Recorder stand-in: label histogram + distinct non-trivial digests."""

    def is_known(self, fid):
        return False

    def case(self, nontrivial=False, dig=None, labels=(), sample=None, n=1):
        lab = STATS["labels"]
        for lb in labels:
            if lb.startswith("mut:"):
                continue
            lab[lb] = lab.get(lb, 0) + 1


REC = _Rec()


def TestOneInput(data: bytes):
    STATS["execs"] += 1
    text, mode = decode_fuzz(data)
    case = {"text": text, "expect": None, "muts": ["fuzz:" + mode]}
    try:
        check_sanitiser(case, REC)
    except Violation as v:
        with open(os.path.join(OUT, "failure.json"), "w", encoding="utf-8") as f:
            json.dump({"text": text, "sig": v.sig, "message": v.message, "input_hex": data.hex()}, f)
        _flush()
        sys.stdout.flush()
        os._exit(77)
    lab = STATS["labels"]
    lab["mode:" + mode] = lab.get("mode:" + mode, 0) + 1
    if _core_is_json(text):
        # non-trivial: a JSON value is present (so the verdict depends on limits / types / fences / surroundings)
        lab["nontrivial_execs"] = lab.get("nontrivial_execs", 0) + 1
        if len(_NT) < NT_CAP:
            _NT.add(digest(text))
    if STATS["execs"] % 1000 == 0 or STATS["execs"] >= RUNS:
        _flush()


def _runs(argv):
    for a in argv:
        if a.startswith("-runs="):
            return int(a.split("=", 1)[1])
    return 1 << 62


RUNS = _runs(sys.argv)

if __name__ == "__main__":
    atheris.Setup(sys.argv, TestOneInput)
    atheris.Fuzz()
