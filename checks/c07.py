"""C07 — delta snapshots reconstruct the full payload exactly.

Sub-checks
  codec_exhaustive  every ordered pair of a stated finite universe of small JSON objects (awkward keys, type-confusable
                    values, one nested level) through compute_delta/apply_delta              [exhaustive, sharded]
  codec_random      Hypothesis: recursive JSON object + a constructed mutation of it (adds/mods/dels/type twists/
                    dict<->scalar flips/path collisions), unicode + separator + backslash keys
  codec_atheris     optional: libFuzzer/atheris byte target (fuzz/c07_delta_fuzz.py) decoding bytes into such a pair
  disk              write_snapshot_auto full then delta in a sandbox; baseline present / missing (writer and reader
                    side) / corrupt (truncation at every structural offset, byte blobs); the three readers
                    read_snapshot(path=), read_snapshot(root, etag_to=) and load_latest_snapshot

Oracle (codec): type-exact canonical JSON text of apply_delta(base, compute_delta(base, cur)) equals that of cur; the
same after the delta went through json.dumps/json.loads; neither call mutates an argument.
Oracle (disk): baseline present => every reader yields P1 (load_latest_snapshot: the state it builds equals the state
built from a plain full snapshot of P1 — differential).  Baseline missing/corrupt => raise, {} / loaded False with the
version untouched, or exactly P1; any other dict is a wrongly reconstructed state.
"""
from __future__ import annotations

import copy
import json
import math
import os
import shutil
import subprocess
import sys
import tempfile
from types import SimpleNamespace

from harness.runner import Sub, Violation, run_hypothesis, digest, jsonable

LEVEL = "exploration"
RULE = ("codec_exhaustive: all ordered pairs (base, cur) of the stated universe (objects with <=1 key over the full "
        "key/value alphabets, plus 2- and 3-key objects over reduced alphabets), distinct by construction. "
        "codec_random/atheris: base = generated recursive JSON object, cur = per-key mutation of it (keep/delete/twist "
        "type/replace/flip dict<->scalar/recurse/add) or, 1 in 10, independent. disk: snapshot-shaped payload pair "
        "keyed by node/edge ids with dots and arrows, one scenario each. NON-TRIVIAL (codec) = the reference diff has "
        ">=1 add AND >=1 mod AND >=1 del, or a diff path has a key that is empty / contains '.' / is non-ASCII, or a "
        "dict<->non-dict replacement, or a change that only Python-equal-but-JSON-different values reveal (1/true/1.0). "
        "NON-TRIVIAL (disk) = a delta file was really written and is non-empty. Distinct = digest of the pair/case.")
ASSUMPTIONS = [
    "payloads are strict JSON values (str keys, finite floats, no tuples); NaN/Infinity are not JSON and not generated",
    "type-exact equality = equality of canonical JSON text (repr of floats, so 1 / 1.0 / true and 0.0 / -0.0 differ)",
    "codec 'none' only unless the zstandard module imports (then 'zstd' is exercised as well)",
    "a corrupt baseline is a truncation or a byte blob; a baseline replaced by a *different valid* full snapshot is "
    "not detectable without a digest in the header and is not generated",
    "raising from a reader/writer on a missing or corrupt baseline counts as 'reports absence'",
]

FID_DOT = "delta-dotted-keys"
FID_EMPTY = "delta-empty-key"
FID_TYPE = "delta-type-blind"
FID_LOAD = "load-latest-missing-baseline"
FID_BASE = "delta-baseline-unvalidated"


# =====================================================================================================
# type-exact canonical JSON
# =====================================================================================================

class NotJson(Exception):
    pass


def _canon(x, out, depth=0):
    if depth > 60:
        raise NotJson("nesting deeper than 60 (cyclic?)")
    if x is None:
        out.append("null")
    elif x is True:
        out.append("true")
    elif x is False:
        out.append("false")
    else:
        t = type(x)
        if t is str:
            out.append(json.dumps(x))
        elif t is int:
            out.append(str(x))
        elif t is float:
            if x != x or x in (math.inf, -math.inf):
                raise NotJson("non-finite float")
            out.append(repr(x))
        elif t is dict:
            out.append("{")
            first = True
            for k in sorted(x):
                if type(k) is not str:
                    raise NotJson(f"non-string key {k!r}")
                if not first:
                    out.append(",")
                first = False
                out.append(json.dumps(k))
                out.append(":")
                _canon(x[k], out, depth + 1)
            out.append("}")
        elif t is list:
            out.append("[")
            for i, v in enumerate(x):
                if i:
                    out.append(",")
                _canon(v, out, depth + 1)
            out.append("]")
        else:
            raise NotJson(f"non-JSON type {t.__name__}")


def canon(x) -> str:
    out: list = []
    _canon(x, out)
    return "".join(out)


def try_canon(x):
    try:
        return canon(x)
    except (NotJson, TypeError, RecursionError) as e:  # TypeError: unsortable mixed keys
        return f"<not-json: {e}>"


# =====================================================================================================
# reference diff (list paths) — used for labels / the non-trivial rule only, never as the oracle
# =====================================================================================================

def ref_diff(base, cur, prefix=()):
    adds, mods, dels = [], [], []
    for k in sorted(set(base) - set(cur)):
        dels.append(prefix + (k,))
    for k in sorted(set(cur) - set(base)):
        adds.append(prefix + (k,))
    for k in sorted(set(base) & set(cur)):
        bv, cv = base[k], cur[k]
        if type(bv) is dict and type(cv) is dict:
            a, m, d = ref_diff(bv, cv, prefix + (k,))
            adds += a
            mods += m
            dels += d
        elif canon(bv) != canon(cv):
            mods.append(prefix + (k,))
    return adds, mods, dels


def _get(obj, path):
    for k in path:
        obj = obj[k]
    return obj


def pair_labels(base, cur):
    """(labels, nontrivial) for a codec pair."""
    adds, mods, dels = ref_diff(base, cur)
    labels = []
    if adds:
        labels.append("add")
    if mods:
        labels.append("mod")
    if dels:
        labels.append("del")
    amd = bool(adds and mods and dels)
    if amd:
        labels.append("add+mod+del")
    if not (adds or mods or dels):
        labels.append("identical")
    segs = [s for p in adds + mods + dels for s in p]
    awkward = False
    if any("." in s for s in segs):
        labels.append("key:dot")
        awkward = True
    if any(s == "" for s in segs):
        labels.append("key:empty")
        awkward = True
    if any(not s.isascii() for s in segs):
        labels.append("key:nonascii")
        awkward = True
    if any("\\" in s for s in segs):
        labels.append("key:backslash")
    flip = typeonly = False
    for p in mods:
        bv, cv = _get(base, p), _get(cur, p)
        if (type(bv) is dict) != (type(cv) is dict):
            flip = True
        if bv == cv:  # Python-equal, JSON-different
            typeonly = True
    if flip:
        labels.append("dict<->nondict")
    if typeonly:
        labels.append("type-only-change")
    if any(len(p) > 1 for p in adds + mods + dels):
        labels.append("nested-path")
    return labels, bool(amd or awkward or flip or typeonly)


# =====================================================================================================
# the codec law
# =====================================================================================================

def codec_failures(base, cur, cb=None, cc=None):
    """Run the round-trip law on one pair. Returns [] if it holds, else a list of (sig, message, got).
    The code under test only ever sees private type-exact copies (re-parsed canonical text), so a mutating
    implementation cannot corrupt the caller's objects; mutation is detected by re-canonicalising the copies."""
    from clematis.engine.util.snapshot_delta import compute_delta, apply_delta

    cb = canon(base) if cb is None else cb
    cc = canon(cur) if cc is None else cc
    b, c = json.loads(cb), json.loads(cc)
    try:
        delta = compute_delta(b, c)
    except Exception as e:
        return [("raises", f"compute_delta raised {type(e).__name__}: {e}", None)]
    if try_canon(b) != cb or try_canon(c) != cc:
        return [("mutates-input", f"compute_delta mutated an argument (base {cb}, cur {cc})", None)]
    cd = try_canon(delta)
    fails = []
    try:
        got = apply_delta(b, delta)
    except Exception as e:
        return [("raises", f"apply_delta raised {type(e).__name__}: {e}", None)]
    cg = try_canon(got)
    if try_canon(b) != cb or try_canon(c) != cc or try_canon(delta) != cd:
        return [("mutates-input", f"apply_delta(base, compute_delta(base, cur)) mutated base, cur or the delta: base {cb} -> "
                                  f"{try_canon(b)}, cur {cc} -> {try_canon(c)}, delta {cd} -> {try_canon(delta)}", None)]
    if cg != cc:
        fails.append(("roundtrip", f"apply_delta(base, compute_delta(base, cur)) = {cg} but cur = {cc}; delta = {cd}", got))
    try:
        d2 = json.loads(json.dumps(delta, allow_nan=False))
    except (TypeError, ValueError) as e:
        fails.append(("delta-not-json", f"the delta is not JSON-serialisable: {e}", None))
        return fails
    cd2 = try_canon(d2)
    try:
        got2 = apply_delta(b, d2)
    except Exception as e:
        fails.append(("raises", f"apply_delta raised on the JSON round-tripped delta {type(e).__name__}: {e}", None))
        return fails
    cg2 = try_canon(got2)
    if try_canon(b) != cb or try_canon(d2) != cd2:
        return [("mutates-input", f"apply_delta mutated base or the (JSON round-tripped) delta: base {cb} -> {try_canon(b)}", None)]
    if cg2 != cc:
        fails.append(("roundtrip-json", f"after json.dumps/loads of the delta: got {cg2} but cur = {cc}; delta = {cd}", got2))
    return fails


def _type_blind_only(fails, cur):
    """The result equals cur under Python's == (1 == True == 1.0, 0.0 == -0.0) and differs only in JSON type/text."""
    return bool(fails) and all(sig in ("roundtrip", "roundtrip-json") and got == cur for sig, _m, got in fails)


def _all_keys(x, acc):
    if type(x) is dict:
        for k, v in x.items():
            acc.add(k)
            _all_keys(v, acc)
    elif type(x) is list:
        for v in x:
            _all_keys(v, acc)


def _rename_keys(x, fn):
    if type(x) is dict:
        return {fn(k): _rename_keys(v, fn) for k, v in x.items()}
    if type(x) is list:
        return [_rename_keys(v, fn) for v in x]
    return x


_SUBST = ["·", "‧", "∙", "⋅", "・", "．", "․"]


def rename_dots(base, cur):
    """Injectively rename every dict key containing '.' (substitute character that occurs in no key)."""
    keys: set = set()
    _all_keys(base, keys)
    _all_keys(cur, keys)
    if not any("." in k for k in keys):
        return None
    sub = next(c for c in _SUBST if not any(c in k for k in keys))
    fn = lambda k: k.replace(".", sub)
    return _rename_keys(base, fn), _rename_keys(cur, fn)


def rename_top_empty(base, cur):
    """Rename the top-level key '' (the only position where the empty path arises) to a fresh key."""
    if "" not in base and "" not in cur:
        return None
    fresh = next(c for c in ["∅", "∅∅", "∅∅∅∅"] if c not in base and c not in cur)
    ren = lambda d: {(fresh if k == "" else k): v for k, v in d.items()}
    return ren(base), ren(cur)


def diagnose(base, cur, cb=None, cc=None):
    """Classify the outcome of the law on (base, cur).

    Returns a list of causes, each (finding_id_or_None, sig, message, witness_pair). finding_id None = no listed root
    cause explains the failure.  Attribution is by *normalisation*, not by looking at the input: a failure is put
    down to the path-separator defects only if it disappears once the offending keys are injectively renamed, and to
    type blindness only if the reconstructed object is ==-equal to cur.  Whatever still fails afterwards is reported.
    """
    f0 = codec_failures(base, cur, cb, cc)
    if not f0:
        return []
    if _type_blind_only(f0, cur):
        return [(FID_TYPE, FID_TYPE, f0[0][1], (base, cur))]
    rd = rename_dots(base, cur)
    re_ = rename_top_empty(base, cur)
    if rd is None and re_ is None:
        return [(None, f0[0][0], f0[0][1], (base, cur))]
    # normalise everything that applies
    b2, c2 = base, cur
    if rd is not None:
        b2, c2 = rd
    r2 = rename_top_empty(b2, c2)
    if r2 is not None:
        b2, c2 = r2
    f2 = codec_failures(b2, c2)
    causes = []
    if f2:
        if _type_blind_only(f2, c2):
            causes.append((FID_TYPE, FID_TYPE, f2[0][1], (b2, c2)))
        else:
            # still failing on a pair without any separator/empty-path key: a different defect (witness: renamed pair)
            return [(None, f2[0][0], f2[0][1] + "  [keys renamed to exclude the listed path-separator findings]", (b2, c2))]

    def residual(pair):
        f = codec_failures(*pair)
        return bool(f) and not _type_blind_only(f, pair[1])

    dot = empty = False
    if rd is not None and re_ is not None:
        empty = residual(rd)    # dots renamed, '' kept: still broken => the empty key is a cause
        dot = residual(re_)     # '' renamed, dots kept: still broken => dotted keys are a cause
        if not (dot or empty):
            dot = empty = True
    elif rd is not None:
        dot = True
    else:
        empty = True
    if dot:
        causes.append((FID_DOT, FID_DOT, f0[0][1], (base, cur)))
    if empty:
        causes.append((FID_EMPTY, FID_EMPTY, f0[0][1], (base, cur)))
    return causes


def check_pair(base, cur, rec, cb=None, cc=None):
    """Raise Violation unless the law holds or every cause is a *listed known* finding."""
    for fid, sig, msg, (wb, wc) in diagnose(base, cur, cb, cc):
        if fid is not None and rec is not None and rec.is_known(fid):
            continue
        raise Violation(msg, {"base": wb, "cur": wc}, sig)


def replay_pair(case):
    check_pair(case["base"], case["cur"], None)


# =====================================================================================================
# (a1) exhaustive universe
# =====================================================================================================

KEYS = ["", "a", "b", "a.b", ".", "é"]
LEAVES = [0, 1, 1.0, True, None, "s", [], [1], {}]


def universe(tier):
    inner = lambda iks, ils: [{ik: il} for ik in iks for il in ils]
    if tier == "quick":
        v1 = LEAVES + inner(["b", "", "a.b"], [1, True, {}]) + [{"b": 1, "": 1}]
        k2, v2 = ["", "a", "b", "a.b"], [1, 1.0, True, [1], {}, {"b": 1}, {"b": True}, {"": 1}]
        k3, v3 = [], []
    else:
        v1 = LEAVES + inner(["b", "", "a.b", "."], LEAVES) + [{"b": 1, "": 1}, {"b": {"": 1}}, {"a.b": {"b": 1}}]
        k2, v2 = KEYS, [0, 1, 1.0, True, None, [1], {}, {"b": 1}, {"b": True}, {"": 1}, {"a.b": 1}, {"b": {}}]
        k3, v3 = ["", "a", "a.b", "b"], [1, True, {}, {"b": 1}, {"": 1}]
    objs = [{}]
    for k in KEYS:
        for v in v1:
            objs.append({k: v})
    for i in range(len(k2)):
        for j in range(i + 1, len(k2)):
            for va in v2:
                for vb in v2:
                    objs.append({k2[i]: va, k2[j]: vb})
    for i in range(len(k3)):
        for j in range(i + 1, len(k3)):
            for l in range(j + 1, len(k3)):
                for va in v3:
                    for vb in v3:
                        for vc in v3:
                            objs.append({k3[i]: va, k3[j]: vb, k3[l]: vc})
    return objs


def sub_codec_exhaustive(rec, seed, shard, nshards, tier="quick"):
    objs = universe(tier)
    canons = [canon(o) for o in objs]
    if len(set(canons)) != len(canons):
        raise RuntimeError("universe has duplicates")
    n = len(objs)
    rec.note("universe_objects", n)
    rec.note("ordered_pairs_total", n * n)
    seen_sigs = set()
    idx = -1
    for i in range(n):
        base, cb = objs[i], canons[i]
        for j in range(n):
            idx += 1
            if idx % nshards != shard:
                continue
            cur, cc = objs[j], canons[j]
            try:
                check_pair(base, cur, rec, cb, cc)
            except Violation as v:
                if v.sig not in seen_sigs:
                    seen_sigs.add(v.sig)
                    rec.violation(v.message, v.case, v.sig)
            labels, nt = pair_labels(base, cur)
            rec.case(nontrivial=nt, dig=None, labels=labels,
                     sample={"base": base, "cur": cur} if nt and (idx // nshards) % 9973 == 17 else None)


# =====================================================================================================
# (a2) Hypothesis recursive JSON pairs
# =====================================================================================================

SPECIAL_KEYS = ["", ".", "a", "b", "a.b", "a.", ".a", "..", "é", "é.é", "_adds", "_mods", "_dels",
                "n1→n2", "n.1→n.2", "\\", "a\\.b", "\\.", "a\\", "a b", " ", "0"]
ACTIONS = ["keep", "keep", "del", "twist", "replace", "flip", "recurse", "recurse"]


def _strategies():
    from hypothesis import strategies as st

    keys = st.one_of(st.sampled_from(SPECIAL_KEYS), st.sampled_from(SPECIAL_KEYS[:6]), st.text(max_size=3))
    leaf = st.one_of(
        st.none(), st.booleans(), st.integers(-2, 2), st.sampled_from([2 ** 53 + 1, -(2 ** 63), 10 ** 20]),
        st.sampled_from([0.0, -0.0, 1.0, -1.0, 0.1, 1e16, 5e-324, 1.7976931348623157e308, 2.5]),
        st.floats(allow_nan=False, allow_infinity=False),
        st.sampled_from(["", "s", "a.b", "é", "true", "1"]), st.text(max_size=3))
    value = st.recursive(leaf, lambda ch: st.one_of(st.lists(ch, max_size=3), st.dictionaries(keys, ch, max_size=4)),
                         max_leaves=10)
    obj = st.dictionaries(keys, value, max_size=5)
    return st, keys, leaf, value, obj


def twist(v):
    """A JSON value that is a *near miss* of v: Python-equal but JSON-different where possible."""
    if v is True:
        return 1
    if v is False:
        return 0
    if v is None:
        return False
    t = type(v)
    if t is int:
        f = float(v) if abs(v) < 2 ** 53 else None
        if v == 1:
            return 1.0
        return f if f is not None else v + 1
    if t is float:
        if v == 1.0:
            return True
        if v == 0.0:
            return 0.0 if math.copysign(1.0, v) < 0 else -0.0
        return int(v) if v.is_integer() and abs(v) < 2 ** 53 else v / 2
    if t is str:
        return v + "."
    if t is list:
        return [twist(v[0])] + v[1:] if v else [[]]
    if t is dict:
        if v:
            k = sorted(v)[0]
            out = dict(v)
            out[k] = twist(v[k])
            return out
        return {"": {}}
    return v


def mutate_dict(draw, st, keys, leaf, value, d, depth):
    out = {}
    for k, v in d.items():
        act = draw(st.sampled_from(ACTIONS))
        if act == "del":
            continue
        if act == "twist":
            out[k] = twist(v)
        elif act == "replace":
            out[k] = draw(value)
        elif act == "flip":
            out[k] = draw(leaf) if type(v) is dict else draw(st.dictionaries(keys, leaf, max_size=2))
        elif act == "recurse" and type(v) is dict and depth < 4:
            out[k] = mutate_dict(draw, st, keys, leaf, value, v, depth + 1)
        else:
            out[k] = copy.deepcopy(v)
    for _ in range(draw(st.integers(0, 2))):
        out[draw(keys)] = draw(value)
    # path collision: a sibling key spelling the path of a nested one
    if depth == 0 and draw(st.integers(0, 3)) == 0:
        for k, v in d.items():
            if type(v) is dict and v:
                out[k + "." + sorted(v)[0]] = draw(leaf)
                break
    return out


def pair_strategy():
    st, keys, leaf, value, obj = _strategies()

    @st.composite
    def pairs(draw):
        base = draw(obj)
        if draw(st.integers(0, 9)) == 0:
            cur = draw(obj)
        else:
            cur = mutate_dict(draw, st, keys, leaf, value, base, 0)
        return {"base": base, "cur": cur}

    return pairs()


def sub_codec_random(rec, seed, shard, nshards, n=500, shrink=True):
    def body(case):
        base, cur = case["base"], case["cur"]
        check_pair(base, cur, rec)
        labels, nt = pair_labels(base, cur)
        rec.case(nontrivial=nt, dig=digest(case) if nt else None, labels=labels, sample=case if nt else None)

    run_hypothesis(rec, seed, pair_strategy(), body, max_examples=n, shrink=shrink, name="codec_random")


# =====================================================================================================
# (a3) atheris byte target (optional)
# =====================================================================================================

class ByteReader:
    """Tiny stand-in for FuzzedDataProvider so that a fuzz input can be decoded (and replayed) without atheris."""

    def __init__(self, data: bytes):
        self.d = data
        self.i = 0

    def pick(self, n: int) -> int:
        if n <= 1:
            return 0
        if self.i >= len(self.d):
            return 0
        v = self.d[self.i]
        self.i += 1
        return v % n

    def left(self) -> int:
        return len(self.d) - self.i


F_KEYS = ["a", "b", "", "a.b", ".", "é", "a.", "\\", "a\\.b", "_adds", "n1→n2", "c"]
F_LEAVES = [0, 1, 1.0, True, False, None, "s", "", -0.0, 0.0, [], [1], [True], {}, 2]


def _f_value(r: ByteReader, depth: int):
    c = r.pick(8)
    if c < 5 or depth >= 3 or r.left() == 0:
        return copy.deepcopy(F_LEAVES[r.pick(len(F_LEAVES))])
    if c < 7:
        return _f_obj(r, depth + 1)
    return [_f_value(r, depth + 1) for _ in range(r.pick(3))]


def _f_obj(r: ByteReader, depth: int):
    out = {}
    for _ in range(r.pick(4 if depth else 5)):
        k = F_KEYS[r.pick(len(F_KEYS))]
        out[k] = _f_value(r, depth)
    return out


def _f_mutate(r: ByteReader, d, depth):
    out = {}
    for k, v in d.items():
        a = r.pick(8)
        if a == 0:
            continue
        if a == 1:
            out[k] = twist(v)
        elif a == 2:
            out[k] = _f_value(r, depth)
        elif a == 3:
            out[k] = F_LEAVES[r.pick(len(F_LEAVES))] if type(v) is dict else {F_KEYS[r.pick(len(F_KEYS))]: 1}
        elif a in (4, 5) and type(v) is dict and depth < 3:
            out[k] = _f_mutate(r, v, depth + 1)
        else:
            out[k] = copy.deepcopy(v)
    for _ in range(r.pick(3)):
        out[F_KEYS[r.pick(len(F_KEYS))]] = _f_value(r, depth)
    return out


def _reject_constant(name):
    raise ValueError(name)


def decode_pair(data: bytes):
    """bytes -> (base, cur) or None. 'J' + JSON text of [base, cur] is taken literally (corpus seeds from the repo's
    own tests); anything else drives the structure-aware builder."""
    if data[:1] == b"J":
        try:
            v = json.loads(data[1:].decode("utf-8"), parse_constant=_reject_constant)
            if type(v) is list and len(v) == 2 and type(v[0]) is dict and type(v[1]) is dict:
                canon(v)
                return v[0], v[1]
        except (ValueError, NotJson, RecursionError):
            pass
        return None
    r = ByteReader(data)
    base = _f_obj(r, 0)
    cur = _f_obj(r, 0) if r.pick(8) == 0 else _f_mutate(r, base, 0)
    return base, cur


def shrink_pair(base, cur, still_fails):
    """Greedy structural shrink of a failing pair (used for fuzz findings; Hypothesis shrinks its own)."""
    def variants(obj):
        for k in list(obj):
            o = dict(obj)
            del o[k]
            yield o
            v = obj[k]
            if type(v) is dict:
                for sub in variants(v):
                    o = dict(obj)
                    o[k] = sub
                    yield o
            elif type(v) is list and v:
                o = dict(obj)
                o[k] = v[:-1]
                yield o
    improved = True
    while improved:
        improved = False
        for which in (0, 1):
            for cand in variants((base, cur)[which]):
                nb, nc = (cand, cur) if which == 0 else (base, cand)
                if still_fails(nb, nc):
                    base, cur = nb, nc
                    improved = True
                    break
            if improved:
                break
    return base, cur


def atheris_available() -> bool:
    try:
        import atheris  # noqa: F401
        return True
    except Exception:
        return False


def sub_codec_atheris(rec, seed, shard, nshards, runs=20000):
    if not atheris_available():
        rec.note("atheris", "not importable: fuzz sub-check skipped (Hypothesis/exhaustive sub-checks decide the property)")
        return
    verif = os.path.dirname(os.path.dirname(os.path.abspath(__file__)))
    target = os.path.join(verif, "fuzz", "c07_delta_fuzz.py")
    work = tempfile.mkdtemp(prefix="c07_fz_", dir=_tmp_base())
    try:
        corpus = os.path.join(work, "corpus")
        os.makedirs(corpus)
        seeds = os.path.join(verif, "corpus", "C07")
        env = dict(os.environ)
        env["C07_FUZZ_OUT"] = work
        env["C07_FUZZ_KNOWN"] = ",".join(sorted(rec.known))
        cmd = [sys.executable, target, f"-runs={int(runs)}", f"-seed={seed % (2 ** 31 - 1) + 1}", "-max_len=192",
               f"-artifact_prefix={work}/", "-verbosity=0", "-print_final_stats=1", corpus]
        if os.path.isdir(seeds):
            cmd.append(seeds)
        p = subprocess.run(cmd, env=env, cwd=work, stdout=subprocess.PIPE, stderr=subprocess.STDOUT)
        out = p.stdout.decode(errors="replace")
        stats = {}
        sp = os.path.join(work, "stats.json")
        if os.path.exists(sp):
            with open(sp, "r", encoding="utf-8") as f:
                stats = json.load(f)
        execs = int(stats.get("execs", 0))
        rec.case(nontrivial=False, n=execs)
        for lb, k in (stats.get("labels") or {}).items():
            rec.label(lb, k)
        for d in stats.get("nontrivial", []):
            rec.case(nontrivial=True, dig=d, n=0)
        for fid, k in (stats.get("excluded") or {}).items():
            rec.excluded[fid] = rec.excluded.get(fid, 0) + int(k)
        rec.note("atheris_execs", execs)
        fp = os.path.join(work, "failure.json")
        if os.path.exists(fp):
            with open(fp, "r", encoding="utf-8") as f:
                fail = json.load(f)
            b, c, sig = fail["base"], fail["cur"], fail["sig"]

            def still(nb, nc):
                try:
                    check_pair(nb, nc, _KnownOnly(rec.known))
                except Violation as v:
                    return v.sig == sig
                return False

            b, c = shrink_pair(b, c, still)
            try:
                check_pair(b, c, _KnownOnly(rec.known))
            except Violation as v:
                rec.violation("codec_atheris: " + v.message, v.case, v.sig)
            return
        if p.returncode != 0 or execs == 0:
            raise RuntimeError(f"atheris target failed rc={p.returncode}\n{out[-3000:]}")
    finally:
        shutil.rmtree(work, ignore_errors=True)


class _KnownOnly:
    """rec stand-in that answers is_known without counting (used while shrinking / inside the fuzz target)."""

    def __init__(self, known):
        self.known = known

    def is_known(self, fid):
        return fid in self.known


# =====================================================================================================
# (b) on disk
# =====================================================================================================

def _tmp_base():
    v = os.environ.get("VERIF_TMP")
    if v:
        return v
    if os.path.isdir("/dev/shm") and os.access("/dev/shm", os.W_OK):
        return "/dev/shm"
    return None


IDS = ["n1", "n2", "n.1", "a.b", "a", "b", "", "é", "a→b", "x.y→z", "n:1", ".", "g.1", "n.1.x"]
SCENARIOS = ["present", "present", "present", "writer_missing", "writer_mismatch", "reader_missing", "reader_missing",
             "reader_missing_sibling", "reader_missing_sibling_gone", "corrupt", "corrupt"]
SPECIAL_BLOBS = ["", "7b7d", "30", "31", "6e756c6c", "5b5d", "2222", "7b", "0a", "0a0a", "7b7d0a", "ff", "66616c7365",
                 "7b226d6f6465223a2266756c6c227d", "7b226d6f6465223a2266756c6c227d0a"]


def disk_strategy():
    from hypothesis import strategies as st
    _st, keys, leaf, value, obj = _strategies()
    ids = st.sampled_from(IDS)
    num = st.one_of(st.integers(-2, 2), st.sampled_from([0.0, 1.0, -1.0, 0.5, 0.25, 1.5, 0.123456789]), st.booleans())

    @st.composite
    def edge(draw):
        # well-formed GEL edges, one per unordered endpoint pair (what write_snapshot emits): the loader keeps the
        # *last listed* record per pair and stops at the first malformed one, i.e. it is sensitive to key ORDER on
        # anything else, and key order is not part of a JSON object (nor of this property)
        a, b = sorted([draw(ids), draw(ids)])
        return {"src": a, "dst": b, "rel": draw(st.sampled_from(["coact", "r.1"])), "weight": draw(num),
                "updated_at": draw(st.sampled_from([None, "t1"])), "attrs": draw(st.sampled_from([{}, {}, {"k.1": 1}, {"": True}]))}

    def mutate_gel(draw, gel):
        edges = {}
        for k, e in gel["edges"].items():
            act = draw(st.sampled_from(["keep", "keep", "del", "weight", "twist", "attrs"]))
            if act == "del":
                continue
            e = copy.deepcopy(e)
            if act == "weight":
                e["weight"] = draw(num)
            elif act == "twist":
                e["weight"] = twist(e["weight"])
            elif act == "attrs":
                e["attrs"] = draw(st.sampled_from([{}, {"k.1": 2}, {"": 1}, {"k": {"a.b": 1}}]))
            edges[k] = e
        for _ in range(draw(st.integers(0, 2))):
            e = draw(edge())
            edges[f"{e['src']}→{e['dst']}"] = e
        nodes = {}
        for k, nd in gel["nodes"].items():
            act = draw(st.sampled_from(["keep", "keep", "del", "label"]))
            if act == "del":
                continue
            nodes[k] = {"id": k, "label": "z"} if act == "label" else dict(nd)
        for nid in draw(st.lists(ids, max_size=2, unique=True)):
            nodes.setdefault(nid, {"id": nid, "label": "new"})
        meta = dict(gel["meta"])
        meta["edges_count"] = len(edges)
        meta["concept_nodes_count"] = draw(st.integers(0, 2))
        return {"nodes": nodes, "edges": edges, "meta": meta}

    @st.composite
    def payload(draw):
        p = {}
        if draw(st.integers(0, 3)):
            p["version_etag"] = draw(st.sampled_from(["7", "v.2", 3, "B"]))
        p["turn"] = draw(st.integers(0, 5))
        kind = draw(st.sampled_from(["weights", "state", "state", "none"]))
        if kind == "weights":
            p["store"] = {"weights": [{"target_kind": draw(st.sampled_from(["node", "edge"])), "target_id": draw(ids),
                                       "attr": "weight", "value": draw(num)} for _ in range(draw(st.integers(0, 4)))]}
        elif kind == "state":
            graphs = {}
            for gid in draw(st.lists(ids, max_size=3, unique=True)):
                nodes = {nid: {"label": draw(st.sampled_from(["x", "y", ""])), "w": draw(num)}
                         for nid in draw(st.lists(ids, max_size=4, unique=True))}
                graphs[gid] = {"nodes": nodes, "meta": {"n": len(nodes)}}
            p["store"] = {"state": {"graphs": graphs}}
        else:
            p["store"] = {}
        edges = {}
        for _ in range(draw(st.integers(0, 4))):
            e = draw(edge())
            edges[f"{e['src']}→{e['dst']}"] = e
        nodes = {nid: {"id": nid, "label": draw(st.sampled_from(["x", "y"]))}
                 for nid in draw(st.lists(ids, max_size=4, unique=True))}
        p["gel"] = {"nodes": nodes, "edges": edges,
                    "meta": {"schema": "v1.1", "merges": [], "splits": [], "promotions": [],
                             "concept_nodes_count": draw(st.integers(0, 2)), "edges_count": len(edges)}}
        for k in draw(st.lists(st.sampled_from(["", "a.b", "t4_caps", "x", "store.state", "gel.nodes"]), max_size=2,
                               unique=True)):
            p[k] = draw(value)
        return p

    @st.composite
    def cases(draw):
        p0 = draw(payload())
        style = draw(st.integers(0, 11))
        if style == 0:
            p1 = draw(payload())
        elif style == 1:
            p1 = copy.deepcopy(p0)
        elif style >= 10:
            # the smallest baselines: an empty state object (present, but falsy) or a one-key object
            p0 = {} if style == 10 else {"version_etag": "0"}
            p1 = draw(st.one_of(payload(), st.dictionaries(keys, leaf, max_size=3)))
        else:
            p1 = mutate_dict(draw, st, keys, leaf, value, {k: v for k, v in p0.items() if k != "gel"}, 0)
            p1["gel"] = mutate_gel(draw, p0["gel"])
        return {"p0": p0, "p1": p1, "scenario": draw(st.sampled_from(SCENARIOS)),
                "etags": draw(st.sampled_from([["A", "B"], ["1", "2"], ["aaaa", "bbbb"], ["e.1", "e.2"], ["2", "1"]])),
                "blobs": draw(st.lists(st.one_of(st.sampled_from(SPECIAL_BLOBS), st.binary(max_size=48).map(bytes.hex)),
                                       max_size=4, unique=True))}

    return cases()


class StoreDouble:
    def __init__(self):
        self.w = {}
        self.imported = None

    def import_state(self, s):
        self.imported = copy.deepcopy(s)


def observe_load(root):
    """What load_latest_snapshot builds from directory `root` (fresh state double). Path is not part of it."""
    from clematis.engine.snapshot import load_latest_snapshot

    store = StoreDouble()
    state = {"store": store, "version_etag": "init"}
    ctx = SimpleNamespace(cfg={"t4": {"snapshot_dir": root}}, config=None, agent_id="ag")
    res = load_latest_snapshot(ctx, state)
    return {"loaded": res.get("loaded"), "ver_ret": res.get("version_etag"), "ver_state": state.get("version_etag"),
            "w": sorted([list(k), v] for k, v in store.w.items()), "imported": store.imported,
            "graph": state.get("graph"), "gel": state.get("gel"),
            "file": os.path.basename(res["path"]) if res.get("path") else None}


def _obs_key(o):
    return try_canon({k: v for k, v in o.items() if k != "file"})


def _codecs():
    try:
        import zstandard  # noqa: F401
        return ["none", "zstd"]
    except Exception:
        return ["none"]


def _ext(codec):
    return ".json.zst" if codec == "zstd" else ".json"


def _write_full_dir(p, etag, codec, sub):
    """A directory holding only a plain full snapshot of payload p (the differential reference for load_latest)."""
    from clematis.engine.snapshot import write_snapshot_auto
    write_snapshot_auto(sub, etag_from=None, etag_to=etag, payload=p, compression=codec, delta_mode=False)
    return sub


def structural_offsets(raw: bytes, cap=72):
    """Truncation points: empty file, after every structural byte, just before / just after the header newline."""
    n = len(raw)
    nl = raw.find(b"\n")
    must = {0}
    if nl >= 0:
        must |= {nl, nl + 1, max(0, nl // 2), min(n - 1, nl + 2)}
    must.add(n - 1)
    rest = [i + 1 for i in range(n - 1) if raw[i:i + 1] in b'{}[],:"\n']
    must = sorted(x for x in must if 0 <= x < n)
    rest = [x for x in rest if x not in must and x < n]
    room = max(0, cap - len(must))
    if len(rest) > room:
        step = len(rest) / room if room else 0
        rest = [rest[int(i * step)] for i in range(room)]
    return sorted(set(must) | set(rest))


def _single_json_blob(blob: bytes) -> bool:
    """The bytes parse as ONE JSON document rather than as 'header line + body' (harness-side, independent)."""
    try:
        text = blob.decode("utf-8")
    except UnicodeDecodeError:
        return False
    lines = text.splitlines()
    if len(lines) >= 2:
        try:
            h = json.loads(lines[0])
            json.loads("\n".join(lines[1:]))
            if type(h) is dict:
                return False
        except ValueError:
            pass
    try:
        json.loads(text)
        return True
    except ValueError:
        return False


def _set_mtimes(root, newest):
    t = 1_000_000_000
    for fn in sorted(os.listdir(root)):
        p = os.path.join(root, fn)
        if os.path.isfile(p):
            os.utime(p, (t, t))
    if newest and os.path.exists(newest):
        os.utime(newest, (t + 100, t + 100))


def _poison(x, depth=0):
    """Edit a value a reader handed back, in place: a caller is free to do that, and it must never change what later reads
    (or a later delta write on the same baseline) see."""
    if depth > 6:
        return
    if isinstance(x, dict):
        for v in list(x.values()):
            _poison(v, depth + 1)
        for k in list(x.keys())[:1]:
            x[k] = "__edited_by_caller__"
        x["__edited_by_caller__"] = depth
    elif isinstance(x, list):
        for v in x:
            _poison(v, depth + 1)
        x.append("__edited_by_caller__")


def check_disk(case, rec=None):
    import logging
    logging.disable(logging.CRITICAL)
    total = 0
    for codec in _codecs():
        total += _check_disk_codec(case, codec, rec)
    return total


def _check_disk_codec(case, codec, rec):
    from clematis.engine.snapshot import write_snapshot_auto, read_snapshot
    from clematis.engine.util.snapshot_delta import compute_delta, apply_delta
    import clematis.io.snapshot as io_snapshot

    p0, p1 = case["p0"], case["p1"]
    scen = case["scenario"]
    ea, eb = case["etags"]
    c1 = canon(p1)
    cp0, cp1 = canon(p0), c1
    try:  # pristine JSON texts of both payloads (what the files hold), for the raw on-disk delta comparison
        cp0_json, cp1_json = json.dumps(p0), json.dumps(p1)
    except Exception:
        cp0_json = cp1_json = None
    evals = 0
    labels = [f"scenario:{scen}", f"codec:{codec}"]

    # what the in-memory codec makes of (p0, p1): disk deviations that merely mirror a *listed* codec finding are
    # attributed to it, everything else is a disk-layer violation
    codec_causes = diagnose(p0, p1)
    codec_known = bool(codec_causes) and rec is not None and all(f is not None and f in rec.known for f, *_ in codec_causes)
    codec_result = None
    if codec_causes:
        try:
            codec_result = apply_delta(p0, json.loads(json.dumps(compute_delta(p0, p1))))
        except Exception:
            codec_result = None

    def viol(msg, sig, extra=None):
        c = dict(case)
        c["codec"] = codec
        if extra:
            c.update(extra)
        raise Violation(f"[{scen}/{codec}] {msg}", c, sig)

    def codec_excuse():
        for f, *_ in codec_causes:
            rec.is_known(f)  # counted
        labels.append("excused-by-codec-finding")

    root = tempfile.mkdtemp(prefix="c07_", dir=_tmp_base())
    old_env = os.environ.get("CLEMATIS_SNAPSHOT_DIR")
    os.environ["CLEMATIS_SNAPSHOT_DIR"] = os.path.join(root, "default")
    try:
        snap = os.path.join(root, "snap")
        ref_dir = _write_full_dir(p1, eb, codec, os.path.join(root, "ref"))
        ref_obs = observe_load(ref_dir)
        ref_key = _obs_key(ref_obs)
        empty_key = _obs_key(observe_load(_write_full_dir({}, eb, codec, os.path.join(root, "ref_empty"))))
        cres_key = None
        if codec_result is not None and type(codec_result) is dict:
            cres_key = _obs_key(observe_load(_write_full_dir(codec_result, eb, codec, os.path.join(root, "ref_codec"))))
        ccres = try_canon(codec_result) if codec_result is not None else None
        full_name = f"snapshot-{ea}.full{_ext(codec)}"
        delta_name = f"snapshot-{eb}.delta{_ext(codec)}"

        def same_p1(got, who, strict):
            """got must be P1 (strict) or one of {P1, {}} (not strict). Returns after raising/excusing."""
            cg = try_canon(got)
            if cg == c1:
                return "p1"
            if not strict and type(got) is dict and not got:
                return "empty"
            if codec_known and ccres is not None and cg == ccres:
                codec_excuse()
                return "codec-known"
            if codec_causes and ccres is not None and cg == ccres:
                f = next((x for x in codec_causes if x[0] is None or rec is None or x[0] not in rec.known), codec_causes[0])
                viol(f"{who} returns {cg[:300]} instead of P1 = {c1[:300]} (the in-memory codec gives the same wrong "
                     f"object)", f[1], {"reader": who})
            viol(f"{who} returns {cg[:300]}, which is neither P1 = {c1[:300]}" + ("" if strict else " nor {}"),
                 "disk-wrong-payload" if strict else "disk-wrong-reconstruction", {"reader": who})

        def load_ok(who, strict):
            """load_latest_snapshot on `snap`: state must equal the reference (strict) or report absence."""
            try:
                obs = observe_load(snap)
            except Exception as e:
                if strict:
                    viol(f"load_latest_snapshot raised {type(e).__name__}: {e}", "load-raises", {"reader": who})
                return "raised"
            k = _obs_key(obs)
            if k == ref_key:
                return "p1"
            if not strict and obs["loaded"] is False:
                if obs["ver_state"] != "init":
                    viol(f"load_latest_snapshot says loaded=False but advanced the version to {obs['ver_state']!r}",
                         "load-absent-but-version-advanced", {"reader": who})
                return "absent"
            if cres_key is not None and k == cres_key:
                if codec_known:
                    codec_excuse()
                    return "codec-known"
                f = next((x for x in codec_causes if x[0] is None or rec is None or x[0] not in rec.known), codec_causes[0])
                viol(f"load_latest_snapshot builds the state of the codec's wrong object, not of P1: {k[:400]} vs {ref_key[:400]}",
                     f[1], {"reader": who})
            if not strict and scen.startswith("reader_missing") and k == empty_key and obs["loaded"] is True:
                # FINDING load-latest-missing-baseline: delta body taken for a payload, version advanced, nothing loaded
                if rec is not None and rec.is_known(FID_LOAD):
                    labels.append("known:" + FID_LOAD)
                    return "known"
                viol(f"baseline missing: load_latest_snapshot reports loaded=True and moves the version to "
                     f"{obs['ver_state']!r} with empty content (state of P1 would be {ref_key[:300]})", FID_LOAD,
                     {"reader": who})
            viol(f"load_latest_snapshot builds a wrong state: {k[:500]} but a full snapshot of P1 gives {ref_key[:500]}",
                 "load-wrong-state" if strict else "load-wrong-reconstruction", {"reader": who})

        def readers(strict, target_path, note, on_viol=None):
            """Run the four readers; on_viol(v) returns (outcome label) only when the failure is a listed finding."""
            nonlocal evals
            outs = []

            def guarded(fn):
                try:
                    return fn()
                except Violation as v:
                    if on_viol is None:
                        raise
                    return on_viol(v)

            for who, fn in (("read_snapshot(path=)", lambda: read_snapshot(path=target_path)),
                            ("read_snapshot(root, etag_to=)", lambda: read_snapshot(snap, etag_to=eb)),
                            ("io.read_snapshot(root=, etag_to=, baseline_dir=)",
                             lambda: io_snapshot.read_snapshot(root=snap, etag_to=eb, baseline_dir=snap))):
                evals += 1
                try:
                    got = fn()
                except Exception as e:
                    if strict:
                        viol(f"{who} raised {type(e).__name__}: {e}", "read-raises", {"reader": who})
                    outs.append("raised")
                    continue
                outs.append(guarded(lambda: same_p1(got, who, strict)))
                _poison(got)  # the next reader must not see the caller's edits
            evals += 1
            outs.append(guarded(lambda: load_ok("load_latest_snapshot", strict)))
            for o in outs:
                labels.append(f"{note}:{o}")
            return outs

        # ------------------------------------------------------------------ scenarios
        wrote_delta = False
        if scen in ("writer_missing", "writer_mismatch"):
            if scen == "writer_mismatch":  # a full exists, but for another etag than etag_from
                write_snapshot_auto(snap, etag_from=None, etag_to=ea + "x", payload=p0, compression=codec, delta_mode=False)
            try:
                path, wd = write_snapshot_auto(snap, etag_from=ea, etag_to=eb, payload=p1, compression=codec, delta_mode=True)
            except Exception:
                labels.append("writer:raised")
                path, wd = None, None
            if path is not None:
                if wd or os.path.basename(path) != f"snapshot-{eb}.full{_ext(codec)}":
                    viol(f"no baseline for etag_from={ea!r}, yet the writer returned ({os.path.basename(path)}, {wd})",
                         "writer-delta-without-baseline")
                _set_mtimes(snap, path)
                readers(True, path, "full")
        else:
            fpath, wd0 = write_snapshot_auto(snap, etag_from=None, etag_to=ea, payload=p0, compression=codec, delta_mode=False)
            if wd0 or os.path.basename(fpath) != full_name:
                viol(f"full write returned ({os.path.basename(fpath)}, {wd0})", "writer-full-shape")
            if canon(p0) != cp0:
                viol("write_snapshot_auto mutated the payload", "mutates-input")
            if len(case["blobs"]) % 2 == 0:
                # the usual incremental flow: read the baseline back, edit the returned object in place, then write a delta
                try:
                    a_back = read_snapshot(snap, etag_to=ea)
                except Exception as e:
                    viol(f"read_snapshot(root, etag_to=) of a freshly written full snapshot raised {type(e).__name__}: {e}", "read-raises")
                if canon(a_back) != cp0:
                    viol(f"full snapshot read back as {canon(a_back)[:300]} instead of P0", "full-readback")
                _poison(a_back)
                labels.append("baseline-read-then-edited")
            dpath, wrote_delta = write_snapshot_auto(snap, etag_from=ea, etag_to=eb, payload=p1, compression=codec, delta_mode=True)
            if canon(p1) != cp1:
                viol("write_snapshot_auto mutated the payload", "mutates-input")
            labels.append("wrote_delta" if wrote_delta else "writer-fell-back-to-full")
            if wrote_delta and codec == "none":
                # what is ON DISK must be the delta from the baseline file's content to P1 (raw parse, no reader involved)
                from clematis.engine.util.snapshot_delta import compute_delta
                with open(dpath, "rb") as f:
                    lines = f.read().split(b"\n")
                disk_delta = json.loads(lines[1].decode("utf-8")) if len(lines) > 1 and lines[1].strip() else None
                want_delta = compute_delta(json.loads(cp0_json), json.loads(cp1_json)) if cp0_json is not None else None
                if want_delta is not None and canon(disk_delta) != canon(want_delta):
                    viol(f"delta body on disk {canon(disk_delta)[:300]} is not the delta from the baseline file's payload to P1 "
                         f"{canon(want_delta)[:300]}", "disk-delta-wrong")
            if wrote_delta and os.path.basename(dpath) != delta_name:
                viol(f"delta written under {os.path.basename(dpath)}", "writer-delta-name")
            if scen == "present":
                _set_mtimes(snap, dpath)
                readers(True, dpath, "present")
            elif scen in ("reader_missing", "reader_missing_sibling", "reader_missing_sibling_gone"):
                if scen != "reader_missing":
                    spath, _ = write_snapshot_auto(snap, etag_from=None, etag_to=eb, payload=p1, compression=codec, delta_mode=False)
                    if scen == "reader_missing_sibling_gone":
                        # the sibling full snapshot's BODY was cleaned up again; whatever sidecar it had stays behind
                        os.unlink(spath)
                        labels.append("sibling-sidecar-left" if os.path.exists(spath + ".meta") else "sibling-no-sidecar")
                os.unlink(fpath)
                if os.path.exists(fpath + ".meta") and len(case["blobs"]) % 2:
                    os.unlink(fpath + ".meta")
                elif os.path.exists(fpath + ".meta"):
                    labels.append("baseline-sidecar-left")
                # the removed full snapshot itself: absence ({}) or an error, never an object that was not written as a state
                evals += 1
                try:
                    gone = read_snapshot(snap, etag_to=ea)
                except Exception:
                    labels.append("removed-full:raised")
                else:
                    if canon(gone) not in (canon({}), canon(None)) and not (ea == eb and scen == "reader_missing_sibling" and canon(gone) == cp1):
                        viol(f"the full snapshot of {ea!r} was removed, yet read_snapshot(root, etag_to=) returns {canon(gone)[:300]}",
                             "removed-full-read-returns-object")
                    labels.append("removed-full:absent")
                _set_mtimes(snap, dpath)
                readers(False, dpath, "missing")
            elif scen == "corrupt":
                with open(fpath, "rb") as f:
                    raw = f.read()
                only = case.get("only")
                if only is not None:
                    plan = [only]
                else:
                    plan = [{"kind": "truncate", "offset": o} for o in structural_offsets(raw)]
                    plan += [{"kind": "blob", "hex": h} for h in case["blobs"]]
                nl = raw.find(b"\n")
                for cor in plan:
                    if cor["kind"] == "truncate":
                        off = nl + 1 if cor["offset"] == "after-header" else int(cor["offset"])
                        if off >= len(raw):
                            continue
                        blob = raw[:off]
                        where = ("empty" if off == 0 else "mid-header" if off < nl else "after-header" if off in (nl, nl + 1)
                                 else "mid-body")
                        labels.append("truncate:" + where)
                    else:
                        blob = bytes.fromhex(cor["hex"])
                        if blob == raw:
                            continue
                        labels.append("blob")
                    with open(fpath, "wb") as f:
                        f.write(blob)
                    _set_mtimes(snap, dpath)

                    def on_viol(v, blob=blob, cor=cor):
                        vc = dict(v.case)
                        vc["only"] = cor
                        if _single_json_blob(blob) and v.sig in ("disk-wrong-reconstruction", "load-wrong-reconstruction"):
                            # FINDING delta-baseline-unvalidated: a baseline that is ONE JSON document (e.g. only the
                            # header line survived) is taken for a legacy single-JSON payload and patched
                            if rec is not None and rec.is_known(FID_BASE):
                                return "known:" + FID_BASE
                            raise Violation(v.message + f"  [baseline file content: {blob[:120]!r}]", vc, FID_BASE)
                        raise Violation(v.message, vc, v.sig)

                    readers(False, dpath, "corrupt", on_viol)
                    # the writer facing the corrupt baseline may raise or fall back; whatever it writes must read back
                    evals += 1
                    w2 = os.path.join(root, "snap_w")
                    shutil.rmtree(w2, ignore_errors=True)
                    os.makedirs(w2)
                    shutil.copy(fpath, os.path.join(w2, full_name))
                    try:
                        p2, wd2 = write_snapshot_auto(w2, etag_from=ea, etag_to=eb, payload=p1, compression=codec, delta_mode=True)
                    except Exception:
                        labels.append("writer-on-corrupt:raised")
                    else:
                        labels.append("writer-on-corrupt:" + ("delta" if wd2 else "full"))
                        try:
                            got = read_snapshot(path=p2)
                        except Exception:
                            if not wd2:
                                viol("the full snapshot written as fallback cannot be read", "writer-fallback-wrong", {"only": cor})
                            got = None
                        if got is not None:
                            try:
                                same_p1(got, "read_snapshot(path=) of what the writer produced next to the corrupt baseline", not wd2)
                            except Violation as v:
                                on_viol(v)
            else:
                raise RuntimeError(f"unknown scenario {scen}")
        if rec is not None:
            nt = bool(wrote_delta) and cp0 != cp1
            pl, _ = pair_labels(p0, p1)
            rec.case(nontrivial=nt, dig=digest([case, codec]) if nt else None, labels=labels + ["delta:" + x for x in pl],
                     n=max(1, evals),
                     sample={"scenario": scen, "p0": p0, "p1": p1} if nt and scen != "present" else None)
        return evals
    finally:
        if old_env is None:
            os.environ.pop("CLEMATIS_SNAPSHOT_DIR", None)
        else:
            os.environ["CLEMATIS_SNAPSHOT_DIR"] = old_env
        shutil.rmtree(root, ignore_errors=True)


def sub_disk(rec, seed, shard, nshards, n=80, shrink=True):
    run_hypothesis(rec, seed, disk_strategy(), lambda c: check_disk(c, rec), max_examples=n, shrink=shrink, name="disk")


def replay_disk(case):
    check_disk(case, None)


# =====================================================================================================
# known-finding probes (minimal failing inputs; True while the defect still reproduces)
# =====================================================================================================

def _probe_codec(base, cur, fid):
    return any(f == fid for f, *_ in diagnose(base, cur))


def _probe_disk(case, fid):
    try:
        check_disk(case, None)
    except Violation as v:
        return v.sig == fid
    return False


_P0 = {"store": {"state": {"x": 1}}}
_P1 = {"store": {"state": {"x": 2}}}
PROBE_CASES = {
    FID_DOT: {"base": {}, "cur": {"a.b": 1}},
    FID_EMPTY: {"base": {}, "cur": {"": 1}},
    FID_TYPE: {"base": {"a": 1}, "cur": {"a": True}},
    FID_LOAD: {"p0": _P0, "p1": _P1, "scenario": "reader_missing", "etags": ["1", "2"], "blobs": []},
    FID_BASE: {"p0": _P0, "p1": _P1, "scenario": "corrupt", "etags": ["1", "2"], "blobs": [],
               "only": {"kind": "truncate", "offset": "after-header"}},
}

KNOWN_PROBES = {
    FID_DOT: lambda: _probe_codec(PROBE_CASES[FID_DOT]["base"], PROBE_CASES[FID_DOT]["cur"], FID_DOT),
    FID_EMPTY: lambda: _probe_codec(PROBE_CASES[FID_EMPTY]["base"], PROBE_CASES[FID_EMPTY]["cur"], FID_EMPTY),
    FID_TYPE: lambda: _probe_codec(PROBE_CASES[FID_TYPE]["base"], PROBE_CASES[FID_TYPE]["cur"], FID_TYPE),
    FID_LOAD: lambda: _probe_disk(PROBE_CASES[FID_LOAD], FID_LOAD),
    FID_BASE: lambda: _probe_disk(PROBE_CASES[FID_BASE], FID_BASE),
}


SUBCHECKS = [
    Sub("codec_exhaustive", sub_codec_exhaustive, quick={"tier": "quick"}, thorough={"tier": "thorough"},
        shards_quick=4, shards_thorough=16, exhaustive=True, replay=replay_pair),
    Sub("codec_random", sub_codec_random, quick={"n": 500}, thorough={"n": 4000}, shards_quick=4, shards_thorough=16,
        replay=replay_pair),
    Sub("codec_atheris", sub_codec_atheris, quick={"runs": 20000}, thorough={"runs": 500000}, shards_quick=1,
        shards_thorough=4, replay=replay_pair),
    Sub("disk", sub_disk, quick={"n": 120}, thorough={"n": 1500}, shards_quick=4, shards_thorough=16, replay=replay_disk),
]
