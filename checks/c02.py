"""C02 — features behind a closed gate are inert.

Differential: for a gate G, run the same world + turn script under (base config) and (base config + an arbitrary
validated subtree for G with G closed).  Everything the property names must be identical and no artefact of the gated
feature may appear.
"""
from __future__ import annotations

import copy
import json
import os

from hypothesis import strategies as st

from harness.runner import Sub, Violation, run_hypothesis, digest
from harness import world, observe

LEVEL = "exploration"
RULE = ("Hypothesis-generated worlds (2 graphs, 4-10 episodes of 3 owners, GEL edges between episodes, 2 agents), "
        "2-4 turn scripts, validated base configs (retrieval/propagation knobs, other features on or off) and, per gate "
        "in {perf master, parallel (closed 3 ways), GEL, quality, hybrid, reflection, scheduler}, an arbitrary in-range "
        "subtree with the gate closed. Non-trivial = the subtree differs from defaults in >=1 leaf AND the world gives "
        "the gated code work (T1 pops>0 and T2 hits>0 in some turn; >=2 hits and >=1 GEL edge for GEL/hybrid; >=2 "
        "graphs/episodes for parallel; non-empty utterance for reflection). Distinct = (gate, subtree, world, script).")
ASSUMPTIONS = ["t3.jsonl / t3_plan.jsonl / t3_dialogue.jsonl carry raw timings even under CI=true: compared by record "
               "count and by content with ms* fields masked",
               "t2.quality.shadow (a perf feature designed to run while quality is off: needs perf.enabled && "
               "perf.metrics.report_memory) is only set while the perf master switch is closed; the two reflection "
               "budgets belong to the reflection gate, not the scheduler gate",
               "snapshot sidecars (.meta) excluded (created_at only depends on SOURCE_DATE_EPOCH, which is fixed)"]

GATES = ["perf", "parallel", "gel", "quality", "hybrid", "reflection", "scheduler"]

GATED_ARTEFACTS = {
    "gel": ["gel.jsonl"],
    "reflection": ["t3_reflection.jsonl"],
    "scheduler": ["scheduler.jsonl"],
    "perf": ["perf", "-perf.jsonl", "rq_traces.jsonl", "quality"],
    "quality": ["rq_traces.jsonl", "quality"],
    "parallel": [],
    "hybrid": ["t2_hybrid-perf.jsonl"],
}


def opt(d):
    """fixed_dictionaries with every key optional."""
    return st.fixed_dictionaries({}, optional=d)


_B = st.booleans()
_POSINT = st.sampled_from([1, 2, 3, 8, 100])
_NN = st.sampled_from([0, 1, 2, 64, 100000])
_U = st.sampled_from([0.0, 0.1, 0.5, 0.9, 1.0])

PERF_SUB = opt({
    "t1": opt({"queue_cap": _POSINT, "dedupe_window": _POSINT, "cache": opt({"max_entries": _NN, "max_bytes": _NN}),
               "caps": opt({"frontier": _POSINT, "visited": _POSINT})}),
    "t2": opt({"embed_dtype": st.sampled_from(["fp32", "fp16"]), "embed_store_dtype": st.sampled_from(["fp32", "fp16"]),
               "precompute_norms": _B, "cache": opt({"max_entries": _NN, "max_bytes": _NN}),
               "reader": opt({"partitions": opt({"enabled": _B, "layout": st.sampled_from(["owner_quarter", "none"]),
                                                 "path": st.sampled_from(["./parts", "x"]), "by": st.sampled_from([["owner"], ["owner", "quarter"]])})})}),
    "snapshots": opt({"compression": st.sampled_from(["none", "zstd"]), "level": st.sampled_from([1, 3, 19]), "delta_mode": _B,
                      "every_n_turns": _POSINT}),
    "metrics": opt({"report_memory": _B}),
})
PARALLEL_SUB = opt({"max_workers": st.sampled_from([0, 1, 2, 4, 8]), "t1": _B, "t2": _B, "agents": _B})
GEL_SUB = opt({
    "coactivation_threshold": _U, "observe_top_k": _POSINT, "pair_cap_per_obs": _NN,
    "update": opt({"mode": st.sampled_from(["additive", "proportional"]), "alpha": st.sampled_from([0.02, 0.5, 1.0, 5.0]),
                   "clamp_min": st.sampled_from([-1.0, -0.25, 0.0]), "clamp_max": st.sampled_from([0.05, 0.25, 1.0])}),
    "decay": opt({"half_life_turns": _POSINT, "floor": st.sampled_from([0.0, 0.01, 0.5])}),
    "merge": opt({"enabled": _B, "min_size": st.sampled_from([2, 3]), "min_avg_w": _U, "max_diameter": _POSINT, "cap_per_turn": _NN}),
    "split": opt({"enabled": _B, "weak_edge_thresh": _U, "min_component_size": st.sampled_from([2, 3]), "cap_per_turn": _NN}),
    "promotion": opt({"enabled": _B, "label_mode": st.sampled_from(["lexmin", "concat_k"]), "topk_label_ids": _POSINT,
                      "attach_weight": st.sampled_from([-1.0, 0.0, 0.5, 1.0]), "cap_per_turn": _NN}),
})
QUALITY_SUB = opt({
    "trace_dir": st.sampled_from(["logs/quality", "qtrace"]), "redact": _B,
    "normalizer": opt({"enabled": _B, "stemmer": st.sampled_from(["none", "porter-lite"]), "min_token_len": _POSINT}),
    "aliasing": opt({"enabled": _B, "max_expansions_per_token": _NN}),
    "lexical": opt({"bm25_k1": st.sampled_from([0.0, 1.2, 3.0]), "bm25_b": _U, "stopwords": st.sampled_from(["none", "en-basic"])}),
    "fusion": opt({"enabled": _B, "mode": st.just("score_interp"), "alpha_semantic": _U}),
    "mmr": opt({"enabled": _B, "lambda": _U, "k": _POSINT}),
    "cache": opt({"salt": st.sampled_from(["", "s1"])}),
})
HYBRID_SUB = opt({"use_graph": _B, "anchor_top_m": _POSINT, "walk_hops": st.sampled_from([1, 2]), "edge_threshold": _U,
                  "lambda_graph": _U, "damping": _U, "degree_norm": st.sampled_from(["none", "invdeg"]),
                  "max_bonus": st.sampled_from([0.0, 0.5, 10.0]), "k_max": _POSINT})
REFLECTION_SUB = opt({"backend": st.sampled_from(["rulebased", "llm"]), "summary_tokens": st.sampled_from([0, 1, 8, 128]), "embed": _B,
                      "log": _B, "topk_snippets": st.sampled_from([0, 1, 3])})
REFL_BUDGETS = opt({"time_ms_reflection": st.sampled_from([1, 5, 6000]), "ops_reflection": st.sampled_from([0, 1, 5])})
SCHED_SUB = opt({"policy": st.sampled_from(["round_robin", "fair_queue"]), "quantum_ms": st.sampled_from([1, 20, 100000]),
                 "budgets": opt({"t1_pops": _NN, "t1_iters": _NN, "t2_k": _NN, "t3_ops": _NN, "wall_ms": st.sampled_from([100000, 200000])}),
                 "fairness": opt({"max_consecutive_turns": _POSINT, "aging_ms": _NN})})


# "Aggressive" presets: subtrees that would visibly change behaviour if the gate were ignored (mixed in 50 %).
AGGRESSIVE = {
    "perf": {"t1": {"caps": {"frontier": 1, "visited": 1}, "dedupe_window": 1, "queue_cap": 1, "cache": {"max_entries": 4, "max_bytes": 100000}},
             "t2": {"cache": {"max_entries": 4, "max_bytes": 100000}, "precompute_norms": True},
             "snapshots": {"compression": "zstd", "delta_mode": True, "every_n_turns": 2}, "metrics": {"report_memory": True}},
    "parallel": {"max_workers": 4, "t1": True, "t2": True, "agents": True},
    "gel": {"coactivation_threshold": 0.0, "observe_top_k": 8, "pair_cap_per_obs": 64, "update": {"alpha": 1.0, "clamp_min": 0.0, "clamp_max": 0.05},
            "decay": {"half_life_turns": 1, "floor": 0.0}, "merge": {"enabled": True, "min_size": 2, "min_avg_w": 0.0, "cap_per_turn": 4},
            "split": {"enabled": True, "weak_edge_thresh": 0.0, "cap_per_turn": 4},
            "promotion": {"enabled": True, "attach_weight": 1.0, "cap_per_turn": 4}},
    "quality": {"fusion": {"enabled": True, "alpha_semantic": 0.0}, "mmr": {"enabled": True, "lambda": 1.0, "k": 8},
                "lexical": {"bm25_k1": 3.0, "stopwords": "none"}},
    "hybrid": {"use_graph": True, "anchor_top_m": 8, "walk_hops": 2, "edge_threshold": 0.0, "lambda_graph": 1.0, "damping": 1.0,
               "max_bonus": 10.0, "k_max": 100},
    "reflection": {"backend": "rulebased", "summary_tokens": 8, "embed": True, "log": True, "topk_snippets": 3},
    "scheduler": {"policy": "fair_queue", "quantum_ms": 1, "budgets": {"t1_pops": 0, "t1_iters": 0, "t2_k": 0, "t3_ops": 0, "wall_ms": 100000},
                  "fairness": {"max_consecutive_turns": 1, "aging_ms": 0}},
}


@st.composite
def bases(draw):
    """Validated base overrides; never contains the subtree of the gate under test (removed later per gate)."""
    b = {"t1": {}, "t2": {}, "t3": {}, "t4": {}}
    if draw(_B):
        b["t2"]["k_retrieval"] = draw(st.sampled_from([1, 2, 3, 10]))
    if draw(_B):
        b["t2"]["sim_threshold"] = draw(st.sampled_from([0.0, 0.3, 0.6]))
    if draw(_B):
        b["t2"]["owner_scope"] = draw(st.sampled_from(["any", "agent", "world"]))
    if draw(_B):
        b["t1"]["radius_cap"] = draw(st.sampled_from([1, 2, 4]))
    if draw(_B):
        b["t1"]["queue_budget"] = draw(st.sampled_from([2, 5, 10000]))
    feats = draw(st.sets(st.sampled_from(["perf_on", "gel_on", "hybrid_on", "quality_on", "reflection_on", "sched_on", "caches_off",
                                          "snippet_template", "snippet_template", "slice_t2k", "shadow_on", "shadow_on"]), max_size=4))
    return {"over": b, "feats": sorted(feats)}


def feature_overrides(feats, gate):
    """Overrides switching other features ON (never the gate under test)."""
    o = {}
    if "perf_on" in feats and gate not in ("perf",):
        o = world.deep_merge(o, {"perf": {"enabled": True, "metrics": {"report_memory": True}}})
    if "gel_on" in feats and gate != "gel":
        o = world.deep_merge(o, {"graph": {"enabled": True}})
    if "hybrid_on" in feats and gate != "hybrid":
        o = world.deep_merge(o, {"t2": {"hybrid": {"enabled": True, "lambda_graph": 1.0, "edge_threshold": 0.0}}})
    if "quality_on" in feats and gate not in ("quality",):
        o = world.deep_merge(o, {"t2": {"quality": {"enabled": True, "mmr": {"enabled": True}}}})
    if "shadow_on" in feats and gate == "perf" and "quality_on" not in feats:
        # shadow tracing requested (quality off) on BOTH sides; it is a perf feature (perf.enabled && report_memory), so
        # with the perf master switch closed no trace may appear whatever perf.metrics says
        o = world.deep_merge(o, {"t2": {"quality": {"enabled": False, "shadow": True}}})
    if "reflection_on" in feats and gate != "reflection":
        o = world.deep_merge(o, {"t3": {"allow_reflection": True}})
    if "sched_on" in feats and gate != "scheduler":
        o = world.deep_merge(o, {"scheduler": {"enabled": True, "quantum_ms": 10 ** 8, "budgets": {"wall_ms": 10 ** 9}}})
    if "caches_off" in feats:
        o = world.deep_merge(o, {"t1": {"cache": {"enabled": False}}, "t2": {"cache": {"enabled": False}}, "t4": {"cache": {"enabled": False}}})
    if "snippet_template" in feats:
        # the utterance names the top retrieved episodes in order: retrieval ORDER becomes observable
        o = world.deep_merge(o, {"t3": {"dialogue": {"template": "say {labels} | {snippets} | {intent}", "include_top_k_snippets": 3}}})
    if "slice_t2k" in feats and gate != "scheduler" and "sched_on" not in feats:
        # slice cap on hits used: the residual nudges (k_residual in t2.jsonl) depend on which hits come first
        o = world.deep_merge(o, {"scheduler": {"enabled": True, "quantum_ms": 10 ** 8, "budgets": {"wall_ms": 10 ** 9, "t2_k": 1}}})
    return o


@st.composite
def cases(draw, gate=None):
    gate = gate or draw(st.sampled_from(GATES))
    base = draw(bases())
    if gate in ("quality", "hybrid") and draw(st.sampled_from([True, True, False])) and "snippet_template" not in base["feats"]:
        # rerank layers only permute the hits: make the order observable (utterance lists the top snippets)
        base["feats"] = sorted(base["feats"] + ["snippet_template"])
    # world
    eps = draw(world.episode_lists(max_eps=10, owners=["A", "B", "world"], allow_missing_ts=False,
                                   ids=["e1", "e2", "e3", "e4", "e5", "e6", "e7", "e8", "e9", "e10"]))
    graphs = {"g1": draw(world.graph_specs(max_nodes=5, max_edges=6, ids=["a", "b", "c", "d", "e"])),
              "g2": draw(world.graph_specs(max_nodes=4, max_edges=4, ids=["a", "x", "y", "z"]))}
    gel = draw(world.gel_graphs([e["id"] for e in eps])) if draw(st.sampled_from([True, True, False])) else None
    words = [w for e in eps for w in (e.get("text") or "").lower().split()] or world.VOCAB[:4]
    glabels = [n["label"] for g in graphs.values() for n in g["nodes"] if n["label"]]
    n = draw(st.integers(2, 5))
    script = []
    for _ in range(n):
        text_words = draw(st.lists(st.sampled_from(words + world.VOCAB[:4]), min_size=1, max_size=3))
        if glabels:
            text_words.append(draw(st.sampled_from(glabels)))
        step = {"agent": draw(st.sampled_from(["A", "B"])), "text": " ".join(text_words),
                "adv_ms": draw(st.sampled_from([1000, 60000, 60000, 400000]))}
        if script and draw(st.sampled_from([True, False])):
            # repeat an earlier request verbatim: gives caches (and their TTLs / budgets) something to do
            step = dict(draw(st.sampled_from(script)), adv_ms=step["adv_ms"])
        script.append(step)
    # gated subtree
    sub = {}
    aggressive = draw(_B)

    def _draw_sub(strategy):
        return copy.deepcopy(AGGRESSIVE[gate]) if aggressive else draw(strategy)

    if gate == "perf":
        sub = {"perf": world.deep_merge(_draw_sub(PERF_SUB), {"enabled": False})}
        if draw(_B):
            sub["perf"]["parallel"] = world.deep_merge(draw(PARALLEL_SUB), {"enabled": False})
    elif gate == "parallel":
        way = draw(st.sampled_from(["enabled_false", "workers_le_1", "all_stage_gates_false"]))
        p = _draw_sub(PARALLEL_SUB)
        if way == "enabled_false":
            p["enabled"] = False
        elif way == "workers_le_1":
            p["enabled"] = True
            p["max_workers"] = draw(st.sampled_from([0, 1]))
        else:
            p["enabled"] = True
            p.update({"t1": False, "t2": False, "agents": False})
        sub = {"perf": {"parallel": p}}
    elif gate == "gel":
        sub = {"graph": world.deep_merge(_draw_sub(GEL_SUB), {"enabled": False})}
    elif gate == "quality":
        # shadow tracing also needs perf.enabled && perf.metrics.report_memory: only asked for when the base keeps perf off
        shadow = "perf_on" not in base["feats"] and draw(_B)
        sub = {"t2": {"quality": world.deep_merge(_draw_sub(QUALITY_SUB), {"enabled": False, "shadow": shadow})}}
        if shadow and draw(_B):
            sub["perf"] = {"enabled": False, "metrics": {"report_memory": True}}  # second closed gate, populated as well
    elif gate == "hybrid":
        sub = {"t2": {"hybrid": world.deep_merge(_draw_sub(HYBRID_SUB), {"enabled": False})}}
    elif gate == "reflection":
        sub = {"t3": {"allow_reflection": False, "reflection": _draw_sub(REFLECTION_SUB)}}
        rb = draw(REFL_BUDGETS)
        if rb:
            sub["scheduler"] = {"budgets": rb}
    elif gate == "scheduler":
        sub = {"scheduler": world.deep_merge(_draw_sub(SCHED_SUB), {"enabled": False})}
    return {"gate": gate, "base": base, "sub": sub, "eps": eps, "graphs": graphs, "gel": gel, "script": script}


# ---------------------------------------------------------------- running

_MS_KEYS = ("ms", "ms_plan", "ms_rag", "ms_speak", "ms_deliberate", "now")


def _mask_t3(data: bytes) -> list:
    out = []
    for ln in data.splitlines():
        try:
            o = json.loads(ln)
            for k in _MS_KEYS:
                o.pop(k, None)
            out.append(o)
        except Exception:
            out.append(ln.decode("utf-8", "replace"))
    return out


def run_script(case, overrides):
    """Returns the observation of running the script under `overrides`."""
    world.reset_engine_globals()
    with world.sandbox() as root:
        eng = observe.Engine({"graphs": case["graphs"], "eps": case["eps"], "gel": case["gel"],
                              "agents": {"A": ["g1"], "B": ["g1", "g2"]}}, root)
        eng.state["_planner_reflection_flag"] = True  # plan flag forced through the documented channel
        cfg = eng.cfg(overrides)
        obs = {"lines": [], "digests": [], "exc": None, "work": {"t1": False, "t2": 0, "utter": False}}
        now = world.NOW_MS
        for i, st_ in enumerate(case["script"], 1):
            now += int(st_.get("adv_ms", 60000))
            r = eng.turn(st_["agent"], st_["text"], cfg, i, now)
            if r["exc"] is not None:
                obs["exc"] = f"turn {i}: {r['exc']}"
                break
            obs["lines"].append(r["line"])
            obs["digests"].append(observe.state_digest(eng.state))
            if r.get("t1") and (r["t1"]["counters"].get("pops") or 0) > 0:
                obs["work"]["t1"] = True
            if r.get("t2"):
                obs["work"]["t2"] = max(obs["work"]["t2"], len(r["t2"]["retrieved"]))
            if r["line"]:
                obs["work"]["utter"] = True
        logs = eng.logs()
        obs["canonical"] = observe.canonical(logs)
        obs["t3"] = {k: _mask_t3(v) for k, v in logs.items() if k in observe.NONCANONICAL_TIMED and k != "gel.jsonl"}
        obs["other_logs"] = {k: (observe.mask_scheduler(v) if k == "scheduler.jsonl" else v) for k, v in logs.items()
                             if k not in observe.CANONICAL and k not in observe.NONCANONICAL_TIMED}  # consumed.ms is wall time
        obs["snap_bodies"] = {k: v for k, v in eng.snaps().items() if not k.endswith(".meta")}
        obs["listing"] = eng.listing()
        obs["normalized_cfg"] = json.loads(json.dumps(cfg, default=repr))
        return obs


def check_case(case, rec=None):
    gate = case["gate"]
    base_over = world.deep_merge(case["base"]["over"], feature_overrides(case["base"]["feats"], gate))
    with_over = world.deep_merge(base_over, case["sub"])
    from clematis.errors import ConfigError
    try:
        world.validated_cfg(copy.deepcopy(with_over))
        world.validated_cfg(copy.deepcopy(base_over))
    except ConfigError:
        # cross-field constraint of the validator (e.g. split.weak_edge_thresh <= merge.min_avg_w): out of domain
        if rec is not None:
            rec.label(f"cfg_rejected[{gate}]")
        return
    a = run_script(case, base_over)
    b = run_script(case, with_over)
    if a["exc"] or b["exc"]:
        if a["exc"] != b["exc"]:
            raise Violation(f"gate {gate} closed: the run with the subtree raised {b['exc']!r}, without it {a['exc']!r}", case, f"{gate}:raises")
        return  # both fail identically: not this property's business (C14 runnability)
    if a["lines"] != b["lines"]:
        raise Violation(f"gate {gate} closed: utterances differ {a['lines']} vs {b['lines']}", case, f"{gate}:utterance")
    for name in sorted(set(a["canonical"]) | set(b["canonical"])):
        if a["canonical"].get(name) != b["canonical"].get(name):
            la = (a["canonical"].get(name) or b"").splitlines()
            lb = (b["canonical"].get(name) or b"").splitlines()
            diff = next(((x, y) for x, y in zip(la, lb) if x != y), (la[len(lb):len(lb) + 1], lb[len(la):len(la) + 1]))
            raise Violation(f"gate {gate} closed: {name} differs: {diff[0]!r} vs {diff[1]!r}", case, f"{gate}:{name}")
    if a["snap_bodies"] != b["snap_bodies"]:
        k = next(k for k in sorted(set(a["snap_bodies"]) | set(b["snap_bodies"])) if a["snap_bodies"].get(k) != b["snap_bodies"].get(k))
        raise Violation(f"gate {gate} closed: snapshot body {k} differs", case, f"{gate}:snapshot")
    for i, (da, db) in enumerate(zip(a["digests"], b["digests"]), 1):
        if da != db:
            keys = [k for k in set(da) | set(db) if da.get(k) != db.get(k)]
            raise Violation(f"gate {gate} closed: engine state after turn {i} differs in {keys}", case, f"{gate}:state")
    if a["listing"] != b["listing"]:
        raise Violation(f"gate {gate} closed: files written differ: only without {sorted(set(a['listing']) - set(b['listing']))}, "
                        f"only with {sorted(set(b['listing']) - set(a['listing']))}", case, f"{gate}:listing")
    if a["t3"] != b["t3"]:
        raise Violation(f"gate {gate} closed: t3 streams differ (timings masked)", case, f"{gate}:t3")
    if a["other_logs"] != b["other_logs"]:
        raise Violation(f"gate {gate} closed: non-canonical streams differ: {sorted(set(a['other_logs']) ^ set(b['other_logs']))}", case, f"{gate}:other-logs")
    # no artefact of the gated feature anywhere
    for pat in GATED_ARTEFACTS[gate]:
        hits = [p for p in b["listing"] if pat in p.split("/", 1)[1]]
        if hits:
            raise Violation(f"gate {gate} closed but artefact(s) {hits} were written", case, f"{gate}:artefact")
    # validator does not materialise blocks the user did not supply
    if gate in ("perf", "parallel") and "perf_on" not in case["base"]["feats"]:
        if "perf" in a["normalized_cfg"]:
            raise Violation("validator materialised a perf block the user did not supply", case, "validator-materialises-perf")
    if gate == "quality" and "quality" in (a["normalized_cfg"].get("t2") or {}):
        raise Violation("validator materialised a t2.quality block the user did not supply", case, "validator-materialises-quality")

    if rec is not None:
        w = a["work"]
        nondefault = bool(_strip_gate_flag(case["sub"], gate))
        work = w["t1"] and w["t2"] > 0
        if gate in ("gel", "hybrid"):
            work = work and w["t2"] >= 2 and bool((case["gel"] or {}).get("edges"))
        if gate == "parallel":
            work = work and len(case["eps"]) >= 2
        if gate == "reflection":
            work = work and w["utter"]
        nt = nondefault and work
        rec.case(nontrivial=nt, dig=digest(case) if nt else None,
                 labels=[f"gate={gate}"] + (["work"] if work else []) + (["nondefault"] if nondefault else []) + [f"feats={len(case['base']['feats'])}"],
                 sample={"gate": gate, "sub": case["sub"], "feats": case["base"]["feats"], "script": case["script"],
                         "lines": a["lines"]} if nt else None)


def _strip_gate_flag(sub, gate):
    s = copy.deepcopy(sub)

    def rm(d, path):
        for k in path[:-1]:
            d = d.get(k, {})
        d.pop(path[-1], None)

    rm(s, ["perf", "enabled"])
    rm(s, ["perf", "parallel", "enabled"])
    rm(s, ["graph", "enabled"])
    rm(s, ["t2", "quality", "enabled"])
    rm(s, ["t2", "quality", "shadow"])
    rm(s, ["t2", "hybrid", "enabled"])
    rm(s, ["t3", "allow_reflection"])
    rm(s, ["scheduler", "enabled"])

    def empty(x):
        return not x if not isinstance(x, dict) else all(empty(v) for v in x.values())
    return None if empty(s) else s


def sub_gates(rec, seed, shard, nshards, n=30, shrink=True):
    # one gate per shard (round robin) so every gate gets its share
    gate = GATES[shard % len(GATES)]
    run_hypothesis(rec, seed, cases(gate=gate), lambda c: check_case(c, rec), max_examples=n, shrink=shrink, name=f"gate[{gate}]")


def replay_case(case):
    from checks.c03 import _fix_floats
    check_case(_fix_floats(case), None)


SUBCHECKS = [
    Sub("gates", sub_gates, quick={"n": 260}, thorough={"n": 2000}, shards_quick=7, shards_thorough=14, replay=replay_case),
]
