"""Runner: shards a check's sub-checks over fresh interpreter processes, aggregates coverage,
handles known findings / replays, writes evidence, sets the exit code.

Exit codes: 0 held (maybe KNOWN-FINDING lines) / 1 VIOLATION printed / 2 harness error.
"""
from __future__ import annotations

import hashlib
import importlib
import json
import os
import shutil
import subprocess
import sys
import tempfile
import time
import traceback
from concurrent.futures import ThreadPoolExecutor
from dataclasses import dataclass, field
from typing import Any, Callable, Dict, List, Optional

VERIF = os.path.dirname(os.path.dirname(os.path.abspath(__file__)))
PY = sys.executable
NCPU = int(os.environ.get("VERIF_JOBS", "16"))


# --------------------------------------------------------------------------------------------
# declarations used by check modules
# --------------------------------------------------------------------------------------------


@dataclass
class Sub:
    """One sub-check: fn(rec, seed, shard, nshards, **params)."""

    name: str
    fn: Callable[..., None]
    quick: Dict[str, Any] = field(default_factory=dict)
    thorough: Dict[str, Any] = field(default_factory=dict)
    shards_quick: int = 4
    shards_thorough: int = 16
    exhaustive: bool = False  # the sub-check enumerates a finite space completely
    replay: Optional[Callable[[Any], None]] = None  # replay(case) -> raises Violation if it fails


class Violation(Exception):
    """Raised by an oracle: the property is violated on `case` (JSON-serialisable)."""

    def __init__(self, message: str, case: Any = None, sig: str = ""):
        super().__init__(message)
        self.message = message
        self.case = case
        self.sig = sig


class HarnessError(Exception):
    pass


def jsonable(x: Any, depth: int = 0) -> Any:
    if depth > 12:
        return repr(x)[:200]
    if x is None or isinstance(x, (bool, int, str)):
        return x
    if isinstance(x, float):
        if x != x or x in (float("inf"), float("-inf")):
            return {"__float__": repr(x)}
        return x
    if isinstance(x, bytes):
        return {"__bytes__": x.hex() if len(x) <= 4096 else x[:4096].hex() + "..."}
    if isinstance(x, dict):
        return {(k if isinstance(k, str) else "__key__:" + repr(k)): jsonable(v, depth + 1) for k, v in x.items()}
    if isinstance(x, (list, tuple, set, frozenset)):
        seq = list(x) if not isinstance(x, (set, frozenset)) else sorted(x, key=repr)
        return [jsonable(v, depth + 1) for v in seq]
    if hasattr(x, "__dataclass_fields__"):
        return {"__dc__": type(x).__name__, **{k: jsonable(getattr(x, k), depth + 1) for k in x.__dataclass_fields__}}
    return repr(x)[:500]


def digest(x: Any) -> str:
    return hashlib.sha1(json.dumps(jsonable(x), sort_keys=True, ensure_ascii=True, default=repr).encode()).hexdigest()[:16]


class Recorder:
    """Per-shard coverage recorder (lives in the worker process)."""

    MAX_SAMPLES = 4

    def __init__(self, known: Dict[str, dict]):
        self.evaluations = 0
        self.nontrivial: set = set()
        self.nontrivial_bulk = 0  # distinct-by-construction non-trivial cases (exhaustive enumerations)
        self.labels: Dict[str, int] = {}
        self.samples: List[Any] = []
        self.violations: List[dict] = []
        self.excluded: Dict[str, int] = {}
        self.notes: Dict[str, Any] = {}
        self.known = known  # finding id -> entry (status == known only)
        self.budget_hit = False

    def case(self, nontrivial: bool = False, dig: Any = None, labels=(), sample: Any = None, n: int = 1):
        self.evaluations += n
        for lb in labels:
            self.labels[lb] = self.labels.get(lb, 0) + 1
        if nontrivial:
            self.labels["nontrivial"] = self.labels.get("nontrivial", 0) + 1
            if dig is None:
                self.nontrivial_bulk += n
            else:
                self.nontrivial.add(dig if isinstance(dig, str) and len(dig) <= 16 else digest(dig))
            if sample is not None and len(self.samples) < self.MAX_SAMPLES:
                self.samples.append(jsonable(sample))

    def label(self, lb: str, n: int = 1):
        self.labels[lb] = self.labels.get(lb, 0) + n

    def note(self, k: str, v: Any):
        self.notes[k] = v

    def is_known(self, finding_id: str) -> bool:
        """True (and counted) when `finding_id` is listed as a *known* finding: the oracle skips it."""
        if finding_id in self.known:
            self.excluded[finding_id] = self.excluded.get(finding_id, 0) + 1
            return True
        return False

    def violation(self, message: str, case: Any, sig: str = ""):
        self.violations.append({"message": message, "case": jsonable(case), "sig": sig})

    def dump(self) -> dict:
        return {
            "evaluations": self.evaluations,
            "nontrivial": sorted(self.nontrivial),
            "nontrivial_bulk": self.nontrivial_bulk,
            "labels": self.labels,
            "samples": self.samples,
            "violations": self.violations,
            "excluded": self.excluded,
            "notes": self.notes,
            "budget_hit": self.budget_hit,
        }


# --------------------------------------------------------------------------------------------
# Hypothesis helper: run a property, shrink, hand back the minimal failing case
# --------------------------------------------------------------------------------------------


def run_hypothesis(rec: Recorder, seed: int, strategy, body: Callable[[Any], None], max_examples: int,
                   shrink: bool = True, name: str = "") -> None:
    """Drive body(value) with Hypothesis. body raises Violation on a property failure.
    The minimal failing case (Hypothesis replays it last) is recorded on rec."""
    import hypothesis
    from hypothesis import HealthCheck, Phase, given, settings

    phases = [Phase.generate] + ([Phase.shrink] if shrink else [])
    last: Dict[str, Any] = {}

    def wrapped(v):
        try:
            body(v)
        except Violation as e:
            last["v"] = e
            raise

    st_settings = settings(
        max_examples=max_examples,
        deadline=None,
        database=None,
        derandomize=False,
        report_multiple_bugs=False,
        phases=phases,
        suppress_health_check=list(HealthCheck),
        print_blob=False,
    )
    test = hypothesis.seed(seed)(st_settings(given(strategy)(wrapped)))
    try:
        test()
    except Violation as e:
        e = last.get("v", e)
        rec.violation(f"{name}: {e.message}" if name else e.message, e.case, e.sig)
    except BaseException as e:  # hypothesis wraps some failures
        v = last.get("v")
        if v is not None:
            rec.violation(f"{name}: {v.message}" if name else v.message, v.case, v.sig)
        else:
            raise


def run_machine(rec: Recorder, seed: int, machine_cls, max_examples: int, steps: int, shrink: bool = True,
                name: str = "") -> None:
    """Run a RuleBasedStateMachine class. Machines raise Violation from rules/invariants and must
    expose the history as self.history (list) so the minimal failing history can be recorded."""
    import hypothesis
    from hypothesis import HealthCheck, Phase, settings
    from hypothesis.stateful import run_state_machine_as_test

    phases = [Phase.generate] + ([Phase.shrink] if shrink else [])
    last: Dict[str, Any] = {}
    machine_cls._vx_last = last
    st = settings(max_examples=max_examples, stateful_step_count=steps, deadline=None, database=None,
                  derandomize=False, report_multiple_bugs=False, phases=phases,
                  suppress_health_check=list(HealthCheck), print_blob=False)
    try:
        run_state_machine_as_test(hypothesis.seed(seed)(machine_cls), settings=st)
    except Violation as e:
        e = last.get("v", e)
        rec.violation(f"{name}: {e.message}" if name else e.message, e.case, e.sig)
    except BaseException:
        v = last.get("v")
        if v is not None:
            rec.violation(f"{name}: {v.message}" if name else v.message, v.case, v.sig)
        else:
            raise


# --------------------------------------------------------------------------------------------
# known findings
# --------------------------------------------------------------------------------------------


def load_known(pid: str) -> Dict[str, dict]:
    p = os.path.join(VERIF, "known_findings.json")
    if not os.path.exists(p):
        return {}
    with open(p, "r", encoding="utf-8") as f:
        data = json.load(f)
    out = {}
    for ent in data.get("findings", []):
        if ent.get("property") == pid and ent.get("status") == "known":
            out[ent["id"]] = ent
    # development aid only (never set by MANIFEST commands): treat extra ids as known while a finding entry is
    # being prepared, e.g. VERIF_KNOWN_EXTRA=delta-dotted-keys,delta-bool-int
    for fid in filter(None, (os.environ.get("VERIF_KNOWN_EXTRA") or "").split(",")):
        out.setdefault(fid, {"id": fid, "property": pid, "status": "known", "what": "(dev: VERIF_KNOWN_EXTRA)"})
    return out


# --------------------------------------------------------------------------------------------
# worker entry (fresh interpreter per shard)
# --------------------------------------------------------------------------------------------


def shard_seed(seed: int, pid: str, sub: str, shard: int) -> int:
    h = hashlib.sha256(f"{seed}|{pid}|{sub}|{shard}".encode()).digest()
    return int.from_bytes(h[:4], "big")


def worker_main(argv: List[str]) -> int:
    pid, subname, shard, nshards, seed, tier, out = argv[0], argv[1], int(argv[2]), int(argv[3]), int(argv[4]), argv[5], argv[6]
    res: Dict[str, Any] = {"ok": False}
    try:
        mod = importlib.import_module(f"checks.{pid.lower()}")
        sub = next(s for s in mod.SUBCHECKS if s.name == subname)
        rec = Recorder(load_known(pid))
        params = dict(sub.quick if tier == "quick" else (sub.thorough or sub.quick))
        t0 = time.time()
        sub.fn(rec, shard_seed(seed, pid, subname, shard), shard, nshards, **params)
        res = rec.dump()
        res["ok"] = True
        res["wall_s"] = time.time() - t0
    except Exception:
        res = {"ok": False, "error": traceback.format_exc()}
    with open(out, "w", encoding="utf-8") as f:
        json.dump(res, f)
    return 0


# --------------------------------------------------------------------------------------------
# top-level: run a check
# --------------------------------------------------------------------------------------------


def _child_env() -> Dict[str, str]:
    env = dict(os.environ)
    env.setdefault("PYTHONHASHSEED", "0")
    return env


def _run_shard(pid, sub, shard, nshards, seed, tier, tmpdir, timeout) -> dict:
    out = os.path.join(tmpdir, f"{sub.name}.{shard}.json")
    cmd = [PY, "-m", "harness.worker", pid, sub.name, str(shard), str(nshards), str(seed), tier, out]
    try:
        p = subprocess.run(cmd, cwd=VERIF, env=_child_env(), stdout=subprocess.PIPE, stderr=subprocess.STDOUT,
                           timeout=timeout)
    except subprocess.TimeoutExpired:
        return {"ok": True, "timeout": True, "evaluations": 0, "nontrivial": [], "nontrivial_bulk": 0, "labels": {},
                "samples": [], "violations": [], "excluded": {}, "notes": {}, "budget_hit": True}
    if not os.path.exists(out):
        return {"ok": False, "error": f"worker died rc={p.returncode}: {p.stdout.decode(errors='replace')[-3000:]}"}
    with open(out, "r", encoding="utf-8") as f:
        r = json.load(f)
    if not r.get("ok"):
        r["error"] = (r.get("error") or "") + "\n--- output ---\n" + p.stdout.decode(errors="replace")[-2000:]
    return r


def write_replay(pid: str, subname: str, v: dict) -> str:
    d = os.path.join(VERIF, "out", "replays", pid)
    os.makedirs(d, exist_ok=True)
    body = {"property": pid, "subcheck": subname, "message": v["message"], "sig": v.get("sig", ""), "case": v["case"]}
    h = hashlib.sha1(json.dumps(body, sort_keys=True).encode()).hexdigest()[:12]
    p = os.path.join(d, f"{subname}-{h}.json")
    with open(p, "w", encoding="utf-8") as f:
        json.dump(body, f, indent=1, sort_keys=True)
    return p


def run_replay_file(mod, path: str) -> Optional[str]:
    """Re-execute a replay file without Hypothesis. Returns a message if it (still) fails."""
    with open(path, "r", encoding="utf-8") as f:
        body = json.load(f)
    sub = next((s for s in mod.SUBCHECKS if s.name == body["subcheck"]), None)
    if sub is None or sub.replay is None:
        return None
    try:
        sub.replay(body["case"])
    except Violation as e:
        return e.message
    return None


def run_check(pid: str, tier: str, seed: int) -> int:
    t0 = time.time()
    try:
        mod = importlib.import_module(f"checks.{pid.lower()}")
    except Exception:
        print(f"HARNESS-ERROR property={pid} import failed\n{traceback.format_exc()}")
        return 2
    known = load_known(pid)
    violations: List[str] = []  # replay paths
    lines: List[str] = []

    # 0) known-finding probes: re-execute the specific failing input of every listed finding
    probes = getattr(mod, "KNOWN_PROBES", {})
    for fid, ent in sorted(known.items()):
        probe = probes.get(fid)
        still = True
        if probe is not None:
            try:
                still = bool(probe())
            except Exception:
                print(f"HARNESS-ERROR property={pid} probe {fid} crashed\n{traceback.format_exc()}")
                return 2
        if still:
            lines.append(f"KNOWN-FINDING: property={pid} {fid}: {ent.get('what', '')}")

    # 1) regression tier: committed replay files (plain re-execution, no Hypothesis)
    rdir = os.path.join(VERIF, "replays", pid)
    n_replays = 0
    if os.path.isdir(rdir):
        for fn in sorted(os.listdir(rdir)):
            if not fn.endswith(".json"):
                continue
            n_replays += 1
            path = os.path.join(rdir, fn)
            try:
                msg = run_replay_file(mod, path)
            except Exception:
                print(f"HARNESS-ERROR property={pid} replay {fn} crashed\n{traceback.format_exc()}")
                return 2
            if msg:
                print(f"VIOLATION property={pid} replay={path}")
                print(f"  (regression replay) {msg}")
                violations.append(path)

    # 2) sharded sub-checks
    tmpdir = tempfile.mkdtemp(prefix=f"vx_{pid}_", dir=os.environ.get("VERIF_TMP") or None)
    agg = {"evaluations": 0, "nontrivial": set(), "nontrivial_bulk": 0, "labels": {}, "samples": [], "excluded": {},
           "notes": {}, "budget_hit": False}
    per_sub: Dict[str, dict] = {}
    seen_sigs: set = set()
    timeout = float(os.environ.get("VERIF_SHARD_TIMEOUT", "900" if tier == "quick" else "14400"))
    only = os.environ.get("VERIF_ONLY")
    try:
        jobs = []
        with ThreadPoolExecutor(max_workers=NCPU) as ex:
            for sub in mod.SUBCHECKS:
                if only and sub.name not in only.split(","):
                    continue
                n = sub.shards_quick if tier == "quick" else sub.shards_thorough
                for sh in range(n):
                    jobs.append((sub, sh, ex.submit(_run_shard, pid, sub, sh, n, seed, tier, tmpdir, timeout)))
            for sub, sh, fut in jobs:
                r = fut.result()
                if not r.get("ok"):
                    print(f"HARNESS-ERROR property={pid} sub={sub.name} shard={sh}\n{r.get('error')}")
                    return 2
                ps = per_sub.setdefault(sub.name, {"evaluations": 0, "nontrivial": set(), "nontrivial_bulk": 0,
                                                   "violations": 0, "exhaustive": sub.exhaustive, "wall_s": 0.0})
                ps["evaluations"] += r["evaluations"]
                ps["nontrivial"].update(r["nontrivial"])
                ps["nontrivial_bulk"] += r["nontrivial_bulk"]
                ps["wall_s"] = max(ps["wall_s"], r.get("wall_s", 0.0))
                agg["evaluations"] += r["evaluations"]
                agg["nontrivial"].update(f"{sub.name}:{d}" for d in r["nontrivial"])
                agg["nontrivial_bulk"] += r["nontrivial_bulk"]
                for k, v in r["labels"].items():
                    agg["labels"][f"{sub.name}.{k}"] = agg["labels"].get(f"{sub.name}.{k}", 0) + v
                for s in r["samples"]:
                    if len([1 for x in agg["samples"] if x.get("subcheck") == sub.name]) < 2:
                        agg["samples"].append({"subcheck": sub.name, "case": s})
                for k, v in r["excluded"].items():
                    agg["excluded"][k] = agg["excluded"].get(k, 0) + v
                for k, v in r["notes"].items():
                    agg["notes"][f"{sub.name}.{k}"] = v
                agg["budget_hit"] = agg["budget_hit"] or r.get("budget_hit", False)
                for v in r["violations"]:
                    ps["violations"] += 1
                    key = (sub.name, v.get("sig") or v["message"][:80])
                    if key in seen_sigs:
                        continue
                    seen_sigs.add(key)
                    path = write_replay(pid, sub.name, v)
                    if path not in violations:
                        violations.append(path)
                        print(f"VIOLATION property={pid} replay={path}")
                        print(f"  [{sub.name}] {v['message'][:600]}")
    finally:
        shutil.rmtree(tmpdir, ignore_errors=True)

    for ln in lines:
        print(ln)

    # 3) evidence
    distinct = len(agg["nontrivial"]) + agg["nontrivial_bulk"]
    cov = {
        "evaluations": agg["evaluations"] + n_replays,
        "distinct_nontrivial": distinct,
        "rule": getattr(mod, "RULE", ""),
        "samples": agg["samples"][:8],
        "subchecks": {k: {"evaluations": v["evaluations"], "distinct_nontrivial": len(v["nontrivial"]) + v["nontrivial_bulk"],
                          "violations": v["violations"], "exhaustive": v["exhaustive"], "max_shard_wall_s": round(v["wall_s"], 2)}
                      for k, v in per_sub.items()},
        "labels": dict(sorted(agg["labels"].items())),
        "excluded_by_known_finding": agg["excluded"],
        "known_findings_reported": [ln for ln in lines],
        "regression_replays_run": n_replays,
        "budget_hit": agg["budget_hit"],
        "notes": agg["notes"],
        "exhaustive": bool(per_sub) and all(v["exhaustive"] for v in per_sub.values()),
        "tools": _tool_versions(),
    }
    ev = {
        "property_id": pid,
        "tier": tier,
        "seed": int(seed),
        "level": getattr(mod, "LEVEL", "exploration"),
        "coverage": cov,
        "assumptions": list(getattr(mod, "ASSUMPTIONS", [])),
        "wall_s": round(time.time() - t0, 2),
        "violations": len(violations),
    }
    os.makedirs(os.path.join(VERIF, "evidence"), exist_ok=True)
    evdir = os.environ.get("VERIF_EVIDENCE_DIR") or os.path.join(VERIF, "evidence")
    os.makedirs(evdir, exist_ok=True)
    evp = os.path.join(evdir, f"{pid}.json")
    with open(evp + ".tmp", "w", encoding="utf-8") as f:
        json.dump(ev, f, indent=1, sort_keys=True, ensure_ascii=False)
    os.replace(evp + ".tmp", evp)
    _validate_evidence(evp)
    print(f"{pid} tier={tier} seed={seed} evaluations={cov['evaluations']} distinct_nontrivial={distinct} "
          f"violations={len(violations)} wall={ev['wall_s']}s")
    return 1 if violations else 0


def _tool_versions() -> dict:
    out = {"python": sys.version.split()[0]}
    try:
        import hypothesis
        out["hypothesis"] = hypothesis.__version__
    except Exception:
        pass
    return out


def _validate_evidence(path: str) -> None:
    try:
        import jsonschema  # optional
    except Exception:
        return
    sp = "/root/.vp/EVIDENCE.schema.json"
    if not os.path.exists(sp):
        sp = os.path.join(VERIF, "harness", "EVIDENCE.schema.json")
    if not os.path.exists(sp):
        return
    with open(sp) as f:
        schema = json.load(f)
    with open(path) as f:
        ev = json.load(f)
    try:
        jsonschema.validate(ev, schema)
    except jsonschema.ValidationError as e:
        print(f"EVIDENCE-INVALID {path}: {e.message}")


def replay(pid: str, path: str) -> int:
    mod = importlib.import_module(f"checks.{pid.lower()}")
    msg = run_replay_file(mod, path)
    if msg:
        print(f"VIOLATION property={pid} replay={path}")
        print(f"  {msg}")
        return 1
    print(f"{pid} replay {path}: holds")
    return 0
