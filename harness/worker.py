import sys

from harness.runner import worker_main

if __name__ == "__main__":
    sys.exit(worker_main(sys.argv[1:]))
