"""Reference model of the staged-log ordering (property C16).

Documented (docs/m9/overview.md PR71, README PR86, docs/m10/reflection.md):
* composite key `(turn_id, stage_ord, slice_idx, seq)`; seq = arrival order; ties broken last by file path;
* canonical stream order t1 -> t2 -> t3_plan -> t3_dialogue -> t4 -> apply -> health -> turn -> scheduler,
  `t3_reflection.jsonl` = 10, unknown streams last (99);
* bounded buffer: on limit `LOG_STAGING_BACKPRESSURE` -> deterministic drain -> flush -> retry once.
"""
from __future__ import annotations

import os
from typing import Any, Dict, List, Sequence, Tuple

STAGE_ORD_DOC: Dict[str, int] = {
    "t1.jsonl": 1,
    "t2.jsonl": 2,
    "t3_plan.jsonl": 3,
    "t3_dialogue.jsonl": 4,
    "t4.jsonl": 5,
    "apply.jsonl": 6,
    "health.jsonl": 7,
    "turn.jsonl": 8,
    "scheduler.jsonl": 9,
    "t3_reflection.jsonl": 10,
}
UNKNOWN_ORD = 99


def stage_ord(path: str) -> int:
    return STAGE_ORD_DOC.get(os.path.basename(path), UNKNOWN_ORD)


def ref_order(items: Sequence[Tuple[str, int, int, int]]) -> List[int]:
    """items[i] = (path, turn, slice, seq).  Returns the indices in documented flush order.
    Arrival index is the final tie-break (a stable sort), after the path."""
    return sorted(range(len(items)),
                  key=lambda i: (items[i][1], stage_ord(items[i][0]), items[i][2], items[i][3], items[i][0], i))


def ref_per_file(arrivals: Sequence[Tuple[str, int, int]]) -> Dict[str, List[int]]:
    """arrivals[i] = (path, turn, slice) in arrival order (seq = i).  Per file: indices in the order a single
    global ordered flush (unbounded buffer) puts them on disk."""
    order = ref_order([(p, t, s, i) for i, (p, t, s) in enumerate(arrivals)])
    out: Dict[str, List[int]] = {}
    for i in order:
        out.setdefault(arrivals[i][0], []).append(i)
    return out


def monotone_per_file(arrivals: Sequence[Tuple[str, int, int]]) -> bool:
    """True when, per file, (turn, slice) never decreases in arrival order — the class of arrivals for which
    a bounded buffer can give the same per-file sequence as an unbounded one."""
    last: Dict[str, Tuple[int, int]] = {}
    for p, t, s in arrivals:
        if p in last and (t, s) < last[p]:
            return False
        last[p] = (t, s)
    return True
