"""C05 — caches are transparent: a hit equals a fresh computation.

Stateful differential: a rule-based machine drives, for each of 2 same-shaped independent engine states, a cached
engine (generated cache configuration) and a cache-free twin over identical worlds, in one process.  After every turn
the (t1, t2) the turn really used and the utterance must be equal apart from cache diagnostics.
"""
from __future__ import annotations

import copy

from hypothesis import strategies as st
from hypothesis.stateful import RuleBasedStateMachine, initialize, rule, precondition

from harness.runner import Sub, Violation, run_machine, digest
from harness import world, observe

LEVEL = "exploration"
RULE = ("Hypothesis rule-based machine over {turn(state, agent, text, cfg variant, now), upsert node/edge (new id or "
        "same-count edit of weight/label/rel), add episode, toggle kill switch, switch state} on 2 same-shaped engine "
        "states; cached engine vs cache-free twin compared after every turn. Non-trivial = history in which the cached "
        "engine served >=1 result from a cache (stage cache hit counter or cached result object re-served) after >=1 "
        "mutating rule or agent/state/config switch. Distinct = digest of the history.")
ASSUMPTIONS = ["cache diagnostics excluded from the comparison: cache_* / max_delta / t1.cache_* / t2.cache_* / "
               "cache_hit / cache_size metrics",
               "TTL expiry is not exercised (wall-clock TTLs of >= 60 s; runs last milliseconds)"]

TEXTS = ["apple", "pear", "apple pear", "kiwi fig", "Apple", "apple  pear", "APPLE PEAR"]  # incl. case / whitespace variants
AGENTS = ["A", "B"]


def base_world(i: int) -> dict:
    """Two same-shaped worlds: same graph ids, node/edge/episode counts, different contents."""
    enc = world.BowEncoder()
    if i == 0:
        nodes = [("a", "apple"), ("b", "pear"), ("c", "kiwi"), ("f", "fig")]
        edges = [("e0", "a", "b", 0.9, "supports"), ("e1", "f", "c", 0.8, "supports"), ("e2", "a", "f", 0.5, "associates")]
        eps = [("e1", "A", "apple pear"), ("e2", "A", "apple apple kiwi"), ("e3", "B", "apple fig"), ("e4", "B", "pear kiwi"),
               ("e5", "world", "kiwi fig apple"), ("e6", "A", "pear")]
    else:
        nodes = [("a", "pear"), ("b", "apple"), ("c", "fig"), ("f", "kiwi")]
        edges = [("e0", "a", "b", 0.2, "contradicts"), ("e1", "c", "b", 0.8, "supports"), ("e2", "f", "a", 0.9, "supports")]
        eps = [("e1", "B", "pear fig"), ("e2", "B", "apple"), ("e3", "A", "pear pear"), ("e4", "world", "apple kiwi"),
               ("e5", "A", "fig kiwi pear"), ("e6", "B", "apple fig")]
    g1 = {"nodes": [{"id": n, "label": lb, "tags": []} for n, lb in nodes],
          "edges": [{"id": e, "src": s, "dst": d, "w": w, "rel": r} for e, s, d, w, r in edges]}
    g2 = {"nodes": [{"id": "x", "label": "fig" if i == 0 else "apple", "tags": []}, {"id": "y", "label": "plum", "tags": []}],
          "edges": [{"id": "e0", "src": "x", "dst": "y", "w": 0.7, "rel": "supports"}]}
    ages = [0, 86400, 5 * 86400, 20 * 86400, 40 * 86400, 3600]
    return {"graphs": {"g1": g1, "g2": g2}, "agents": {"A": ["g1"], "B": ["g1", "g2"]},
            "eps": [{"id": eid, "owner": ow, "text": tx, "ts": world.iso_minus(world.NOW_ISO, ages[j]), "vec_full": enc.vec(tx)}
                    for j, (eid, ow, tx) in enumerate(eps)]}


NOCACHE = {"t1": {"cache": {"enabled": False}}, "t2": {"cache": {"enabled": False}}, "t4": {"cache": {"enabled": False}}}

_CACHE_CFGS = st.fixed_dictionaries({
    "t1": st.sampled_from([{"enabled": True}, {"enabled": True, "max_entries": 2}, {"enabled": False}]),
    "t2": st.sampled_from([{"enabled": True}, {"enabled": True, "max_entries": 2}, {"enabled": False}]),
    "t4": st.sampled_from([{"enabled": True}, {"enabled": True, "max_entries": 2}, {"enabled": False}]),
    "perf": st.sampled_from([None, None, {"t1": {"cache": {"max_entries": 8, "max_bytes": 100000}}},
                             {"t2": {"cache": {"max_entries": 8, "max_bytes": 100000}}},
                             {"t1": {"cache": {"max_entries": 2, "max_bytes": 400}}, "t2": {"cache": {"max_entries": 2, "max_bytes": 4000}}}]),
})

VARIANTS = [
    {},
    {"t2": {"k_retrieval": 1}},
    {"t2": {"k_retrieval": 2}},
    {"t2": {"owner_scope": "agent"}},
    {"t2": {"owner_scope": "world"}},
    {"t2": {"ranking": {"alpha_sim": 0.2, "beta_recency": 0.8, "gamma_importance": 0.0}}},
    {"t2": {"sim_threshold": 0.6}},
    {"t2": {"tiers": ["archive"]}},
    {"t2": {"tiers": ["exact_semantic"], "exact_recent_days": 3}},
    {"t2": {"residual_cap_per_turn": 1}},
    {"t1": {"decay": {"mode": "attn_quad", "alpha": 2.0}}},
    {"t1": {"radius_cap": 1}},
    {"t1": {"queue_budget": 1}},
    {"t1": {"node_budget": 0.5}},
    {"t1": {"edge_type_mult": {"supports": 0.1, "associates": 0.6, "contradicts": 0.8}}},
    {"perf": {"t1": {"caps": {"frontier": 1}}}, "_perf_enabled": True},
    {"perf": {"t1": {"caps": {"frontier": 1}}}, "_perf_enabled": False},
    {"t2": {"hybrid": {"enabled": True, "lambda_graph": 1.0, "edge_threshold": 0.0}}},
    # scheduler slice budgets (huge quantum: only budget-driven effects); neighbours differ in one budget
    {"scheduler": {"enabled": True, "quantum_ms": 10 ** 8, "budgets": {"wall_ms": 10 ** 9, "t1_iters": 1}}},
    {"scheduler": {"enabled": True, "quantum_ms": 10 ** 8, "budgets": {"wall_ms": 10 ** 9, "t1_iters": 3}}},
    {"scheduler": {"enabled": True, "quantum_ms": 10 ** 8, "budgets": {"wall_ms": 10 ** 9, "t1_pops": 1}}},
    {"scheduler": {"enabled": True, "quantum_ms": 10 ** 8, "budgets": {"wall_ms": 10 ** 9, "t1_pops": 7}}},
    {"scheduler": {"enabled": True, "quantum_ms": 10 ** 8, "budgets": {"wall_ms": 10 ** 9, "t2_k": 1}}},
    {"scheduler": {"enabled": True, "quantum_ms": 10 ** 8, "budgets": {"wall_ms": 10 ** 9, "t2_k": 4}}},
    # (indices are recorded in replays: append only)  single-leaf neighbours of the default config / of earlier variants
    {"t1": {"iter_cap": 1}},  # 24
    {"t1": {"decay": {"mode": "exp_floor", "rate": 0.3, "floor": 0.2}}},  # 25
    {"t1": {"decay": {"mode": "attn_quad", "alpha": 0.5}}},  # 26 ~ 10
    {"t2": {"tiers": ["cluster_semantic"], "clusters_top_m": 1}},  # 27
    {"t2": {"tiers": ["cluster_semantic"], "clusters_top_m": 3}},  # 28 ~ 27
    {"t2": {"tiers": ["exact_semantic"], "exact_recent_days": 30}},  # 29 ~ 8
    {"t2": {"ranking": {"alpha_sim": 0.2, "beta_recency": 0.0, "gamma_importance": 0.8}}},  # 30 ~ 5
    {"t2": {"hybrid": {"enabled": True, "lambda_graph": 1.0, "edge_threshold": 0.0, "walk_hops": 2}}},  # 31 ~ 17
    {"t2": {"hybrid": {"enabled": True, "lambda_graph": 0.1, "edge_threshold": 0.0}}},  # 32 ~ 17
    {"t2": {"hybrid": {"enabled": True, "lambda_graph": 1.0, "edge_threshold": 0.0, "max_bonus": 0.01}}},  # 33 ~ 17
    {"t2": {"sim_threshold": 0.3}},  # 34 ~ 6
    {"t2": {"residual_cap_per_turn": 0}},  # 35 ~ 9
    {"t3": {"max_rag_loops": 0}},  # 36
    {"t3": {"tokens": 4}},  # 37
    {"t1": {"node_budget": 2.0}},  # 38 ~ 13
    {"t1": {"radius_cap": 2}},  # 39 ~ 11
    {"t1": {"queue_budget": 3}},  # 40 ~ 12
    {"t3": {"max_ops_per_turn": 1}},  # 41
]
NEIGHBOURS = {15: [16], 16: [15], 18: [19], 19: [18, 0], 20: [21, 0], 21: [20], 22: [23, 0], 23: [22],
              26: [10], 10: [26], 27: [28], 28: [27], 29: [8], 8: [29], 30: [5], 5: [30], 31: [17], 32: [17], 33: [17],
              17: [32], 34: [6], 6: [34], 35: [9], 9: [35], 38: [13], 13: [38], 39: [11], 11: [39], 40: [12], 12: [40],
              24: [0], 25: [0], 36: [0], 37: [0], 41: [0], 1: [2], 2: [1], 3: [4], 4: [3]}

DIAG_PREFIXES = ("cache_", "t1.cache_", "t2.cache_")


def _merge_cfg(variant: dict, cache_cfg, cached: bool) -> dict:
    v = {k: copy.deepcopy(x) for k, x in variant.items() if not k.startswith("_")}
    perf_enabled = variant.get("_perf_enabled")
    out = copy.deepcopy(v)
    if cached:
        out = world.deep_merge(out, {"t1": {"cache": cache_cfg["t1"]}, "t2": {"cache": cache_cfg["t2"]}, "t4": {"cache": cache_cfg["t4"]}})
        if cache_cfg["perf"] is not None:
            out = world.deep_merge(out, {"perf": cache_cfg["perf"]})
            if perf_enabled is None:
                perf_enabled = True
    else:
        out = world.deep_merge(out, NOCACHE)
    if perf_enabled is not None:
        out = world.deep_merge(out, {"perf": {"enabled": bool(perf_enabled)}})
    return out


class CacheMachine(RuleBasedStateMachine):
    def __init__(self):
        super().__init__()
        self.history = []
        self._sb = world.sandbox()
        self.root = self._sb.__enter__()
        world.reset_engine_globals()
        self.eng = {}
        self._worlds = {i: base_world(i) for i in (0, 1)}
        self._build_engines("bow")
        self.kill = {0: False, 1: False}
        self.turn_no = 0
        self.now_ms = world.NOW_MS
        self.cache_cfg = None
        self.variants = [0]
        self.seen_t2_objs = set()
        self.mutated = False
        self.hits_after_mutation = 0
        self.last_key = None
        self.new_ids = 0
        self.rec = getattr(type(self), "_rec", None)

    def _build_engines(self, encoder):
        """encoder 'bow' (case-insensitive bag of words) or 'default' (the engine's own content-hash adapter, which is
        sensitive to case, spacing and word order - queries that merely look alike embed differently)."""
        for i in (0, 1):
            w = copy.deepcopy(self._worlds[i])
            enc = "bow"
            if encoder == "default":
                from clematis.adapters.embeddings import DeterministicEmbeddingAdapter
                ad = DeterministicEmbeddingAdapter(dim=32)
                for e in w["eps"]:
                    e["vec_full"] = [float(x) for x in ad.encode([e["text"]])[0]]
                enc = None
            self.eng[i] = {"C": observe.Engine(copy.deepcopy(w), self.root, encoder=enc),
                           "F": observe.Engine(copy.deepcopy(w), self.root, encoder=enc)}
        self.encoder = encoder

    def teardown(self):
        try:
            if self.rec is not None and self.history:
                nt = self.hits_after_mutation > 0
                self.rec.case(nontrivial=nt, dig=digest(self.history) if nt else None,
                              labels=[f"hits_after_mutation={'>0' if nt else '0'}", f"steps={min(len(self.history) // 10 * 10, 40)}+"],
                              sample=self.history[:12] if nt else None)
        finally:
            self._sb.__exit__(None, None, None)

    @initialize(cc=_CACHE_CFGS, vs=st.lists(st.integers(0, len(VARIANTS) - 1), min_size=2, max_size=4, unique=True),
                encoder=st.sampled_from(["bow", "bow", "default"]))
    def init(self, cc, vs, encoder):
        self.cache_cfg = cc
        if encoder != "bow":
            self._build_engines(encoder)
        # a machine works with a few config variants only, so the same variant recurs (cache hits) and
        # single-leaf neighbours meet (perf gate open/closed with the caps kept)
        for v in list(vs):
            for nb in NEIGHBOURS.get(v, []):
                if nb not in vs:
                    vs = vs + [nb]
        self.variants = vs
        self.history.append({"op": "init", "cache": cc, "variants": vs, "encoder": encoder})

    # ---- rules
    @rule(i=st.sampled_from([0, 1]), agent=st.sampled_from(AGENTS), text=st.sampled_from(TEXTS),
          v=st.integers(0, 7), adv=st.sampled_from([0, 0, 0, 1000, 4 * 86400 * 1000]))
    def turn(self, i, agent, text, v, adv):
        v = self.variants[v % len(self.variants)]
        self._turn(i, agent, text, v, adv)

    # the same rule registered three more times: turns should make up most of a history
    @rule(i=st.sampled_from([0, 1]), agent=st.sampled_from(AGENTS), text=st.sampled_from(TEXTS), v=st.integers(0, 7))
    def turn_b(self, i, agent, text, v):
        self._turn(i, agent, text, self.variants[v % len(self.variants)], 0)

    @rule(i=st.sampled_from([0, 1]), agent=st.sampled_from(AGENTS), text=st.sampled_from(TEXTS), v=st.integers(0, 7))
    def turn_c(self, i, agent, text, v):
        self._turn(i, agent, text, self.variants[v % len(self.variants)], 0)

    @rule(i=st.sampled_from([0, 1]), text=st.sampled_from(TEXTS), v=st.integers(0, 7))
    def turn_d(self, i, text, v):
        self._turn(i, "A", text, self.variants[v % len(self.variants)], 0)

    def _turn(self, i, agent, text, v, adv):
        self.turn_no += 1
        self.now_ms += adv
        step = {"op": "turn", "state": i, "agent": agent, "text": text, "variant": v, "adv_ms": adv, "kill": self.kill[i]}
        self.history.append(step)
        variant = VARIANTS[v]
        key = (i, agent, v, self.now_ms // 86400000)
        if self.last_key is not None and key != self.last_key:
            self.mutated = True
        self.last_key = key
        out = {}
        for side, cached in (("C", True), ("F", False)):
            eng = self.eng[i][side]
            cfgd = _merge_cfg(variant, self.cache_cfg, cached)
            cfgd = world.deep_merge(cfgd, {"t4": {"enabled": not self.kill[i]}})
            cfg = eng.cfg(cfgd)
            r = eng.turn(agent, text, cfg, self.turn_no, self.now_ms)
            if r["exc"] is not None:
                raise Violation(f"turn raised on the {'cached' if cached else 'cache-free'} engine: {r['exc']}", self.history, "turn-raises")
            out[side] = r
        c, f = out["C"], out["F"]
        # cache hit detection on the cached side
        hit = False
        try:
            if int(c["t1_obj"].metrics.get("cache_hits", 0) or 0) > 0:
                hit = True
        except Exception:
            pass
        if c.get("t2_obj") is not None:
            oid = id(c["t2_obj"])
            if oid in self.seen_t2_objs:
                hit = True
            self.seen_t2_objs.add(oid)
            self._keep = getattr(self, "_keep", [])
            self._keep.append(c["t2_obj"])  # keep alive so ids are not reused
        if hit and self.mutated:
            self.hits_after_mutation += 1
        if ("t1" in c) != ("t1" in f) or ("t2" in c) != ("t2" in f):
            raise Violation(f"stages executed differ with caches on: {sorted(k for k in ('t1', 't2') if k in c)} vs "
                            f"{sorted(k for k in ('t1', 't2') if k in f)}", self.history, "stages-differ")
        if "t2" not in c:  # the turn yielded at the T1 boundary (slice budget reached)
            if c["t1"] != f["t1"]:
                raise Violation(f"T1 result differs with caches on: {c['t1']} vs fresh {f['t1']}", self.history, "t1-differs")
            if c["line"] != f["line"]:
                raise Violation(f"utterance differs with caches on: {c['line']!r} vs {f['line']!r}", self.history, "utterance")
            return
        if c["t1"] != f["t1"]:
            raise Violation(f"T1 result differs with caches on: {c['t1']} vs fresh {f['t1']}", self.history, self._sig("t1", c, f))
        if c["t2"] != f["t2"]:
            raise Violation(f"T2 result differs with caches on: {c['t2']} vs fresh {f['t2']}", self.history, self._sig("t2", c, f))
        if c["line"] != f["line"]:
            raise Violation(f"utterance differs with caches on: {c['line']!r} vs {f['line']!r}", self.history, "utterance")
        # owner isolation asserted directly
        scope = str(c["t2"].get("owner_scope"))
        if scope == "agent":
            owners = {e["id"]: e.get("owner") for e in self._eps(i)}
            for rid, *_ in c["t2"]["retrieved"]:
                if owners.get(rid) != agent:
                    raise Violation(f"agent scope: episode {rid} of owner {owners.get(rid)!r} served to agent {agent!r}", self.history, "owner-leak")

    def _sig(self, stage, c, f):
        return f"{stage}-differs"

    def _eps(self, i):
        return [{"id": str(e.get("id")), "owner": e.get("owner")} for e in self.eng[i]["F"].state["mem_index"]._eps]

    @rule(i=st.sampled_from([0, 1]), gid=st.sampled_from(["g1", "g2"]),
          kind=st.sampled_from(["edge_weight", "edge_rel", "node_label", "new_node", "new_edge", "retarget_edge",
                                "edge_weight_inplace", "edge_rel_inplace"]),
          val=st.sampled_from([0.0, 1.0, -0.9, 0.3]), label=st.sampled_from(["apple", "pear", "kiwi", "zzz"]))
    def upsert(self, i, gid, kind, val, label):
        from clematis.engine.types import Node, Edge

        self.history.append({"op": "upsert", "state": i, "gid": gid, "kind": kind, "val": val, "label": label})
        self.mutated = True
        self.new_ids += 1
        for side in ("C", "F"):
            store = self.eng[i][side].state["store"]
            g = store.get_graph(gid)
            eids = list(g.edges.keys())
            nids = list(g.nodes.keys())
            if kind == "edge_weight" and eids:
                e = g.edges[eids[0]]
                store.upsert_edges(gid, [Edge(id=e.id, src=e.src, dst=e.dst, weight=val, rel=e.rel)])
            elif kind == "edge_weight_inplace" and eids:
                e = g.edges[eids[0]]  # read-modify-write: edit the stored record and hand the SAME object back
                e.weight = val
                store.upsert_edges(gid, [e])
            elif kind == "edge_rel_inplace" and eids:
                e = g.edges[eids[-1]]
                e.rel = "contradicts" if e.rel != "contradicts" else "supports"
                store.upsert_edges(gid, [e])
            elif kind == "edge_rel" and eids:
                e = g.edges[eids[-1]]
                store.upsert_edges(gid, [Edge(id=e.id, src=e.src, dst=e.dst, weight=e.weight, rel="contradicts" if e.rel != "contradicts" else "supports")])
            elif kind == "retarget_edge" and eids and len(nids) >= 2:
                e = g.edges[eids[0]]
                store.upsert_edges(gid, [Edge(id=e.id, src=e.dst, dst=e.src, weight=e.weight, rel=e.rel)])
            elif kind == "node_label" and nids:
                n = g.nodes[nids[0]]
                store.upsert_nodes(gid, [Node(id=n.id, label=label, attrs=dict(n.attrs))])
            elif kind == "new_node":
                store.upsert_nodes(gid, [Node(id=f"n{self.new_ids}", label=label, attrs={"tags": []})])
            elif kind == "new_edge" and len(nids) >= 2:
                store.upsert_edges(gid, [Edge(id=f"x{self.new_ids}", src=nids[0], dst=nids[-1], weight=val, rel="supports")])

    @rule(i=st.sampled_from([0, 1]), owner=st.sampled_from(["A", "B", "world"]),
          text=st.sampled_from(["apple", "apple pear", "pear", "kiwi fig", "apple apple"]))
    def add_episode(self, i, owner, text):
        import numpy as np

        self.history.append({"op": "add_episode", "state": i, "owner": owner, "text": text})
        self.mutated = True
        self.new_ids += 1
        for side in ("C", "F"):
            idx = self.eng[i][side].state["mem_index"]
            if getattr(self, "encoder", "bow") == "default":
                from clematis.adapters.embeddings import DeterministicEmbeddingAdapter
                vec = DeterministicEmbeddingAdapter(dim=32).encode([text])[0]
            else:
                vec = np.asarray(world.BowEncoder().vec(text), dtype=np.float32)
            idx.add({"id": f"n{self.new_ids}", "owner": owner, "text": text, "ts": world.iso_minus(world.NOW_ISO, 7200),
                     "vec_full": vec})

    @rule(i=st.sampled_from([0, 1]))
    def toggle_kill(self, i):
        self.kill[i] = not self.kill[i]
        self.history.append({"op": "toggle_kill", "state": i, "now": self.kill[i]})


def sub_machine(rec, seed, shard, nshards, n=30, steps=25, shrink=True):
    CacheMachine._rec = rec
    run_machine(rec, seed, CacheMachine, max_examples=n, steps=steps, shrink=shrink, name="machine")


def replay_history(history):
    """Re-execute a recorded history without Hypothesis."""
    from checks.c03 import _fix_floats

    history = _fix_floats(history)
    CacheMachine._rec = None
    m = CacheMachine()
    try:
        for st_ in history:
            op = st_["op"]
            if op == "init":
                m.cache_cfg = st_["cache"]
                if st_.get("encoder", "bow") != "bow":
                    m._build_engines(st_["encoder"])
                m.variants = st_.get("variants") or [0]
                m.history.append(st_)
            elif op == "turn":
                m._turn(st_["state"], st_["agent"], st_["text"], st_["variant"], st_["adv_ms"])
            elif op == "upsert":
                m.upsert(st_["state"], st_["gid"], st_["kind"], st_["val"], st_["label"])
            elif op == "add_episode":
                m.add_episode(st_["state"], st_["owner"], st_["text"])
            elif op == "toggle_kill":
                m.toggle_kill(st_["state"])
    finally:
        m.teardown()


SUBCHECKS = [
    Sub("machine", sub_machine, quick={"n": 60, "steps": 30}, thorough={"n": 800, "steps": 50}, shards_quick=8,
        shards_thorough=16, replay=replay_history),
]
