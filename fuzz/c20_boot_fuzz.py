"""atheris / libFuzzer byte target for C20 (boot snapshot loading never aborts a turn).

Run by checks/c20.py:sub_boot_fuzz in a child process (atheris.Fuzz() never returns, libFuzzer calls exit()):
    python fuzz/c20_boot_fuzz.py -runs=N -seed=S <writable corpus dir>
Env: C20_FUZZ_OUT   directory receiving stats.json (coverage of the generator) and failure.json (first violation)
     C20_FUZZ_KNOWN comma list of finding ids listed as known (their failures are counted, not reported)
The input's first byte selects world / file name, the rest is planted verbatim as the only file of the snapshot
directory; the oracle is checks.c20.check_bootfile (the one the enumerated and Hypothesis sub-checks use).
Exit code 77 = violation found (failure.json written).
"""
import json
import os
import sys

import atheris

with atheris.instrument_imports(include=["clematis.engine.snapshot", "clematis.engine.util.snapshot_delta"]):
    import clematis.engine.snapshot  # noqa: F401

from checks.c20 import fuzz_case, check_bootfile  # noqa: E402
from harness.runner import Violation, digest, jsonable  # noqa: E402

OUT = os.environ.get("C20_FUZZ_OUT") or "."
KNOWN = set(filter(None, (os.environ.get("C20_FUZZ_KNOWN") or "").split(",")))
STATS = {"execs": 0, "labels": {}, "nontrivial": [], "excluded": {}}
_NT = set()


class _Rec:
    known = KNOWN

    def is_known(self, fid):
        if fid in KNOWN:
            STATS["excluded"][fid] = STATS["excluded"].get(fid, 0) + 1
            return True
        return False

    def case(self, nontrivial=False, dig=None, labels=(), sample=None, n=1):
        lab = STATS["labels"]
        for lb in labels:
            lab[lb] = lab.get(lb, 0) + 1
        if nontrivial and dig is not None and len(_NT) < 20000:
            _NT.add(dig if isinstance(dig, str) and len(dig) <= 16 else digest(dig))


REC = _Rec()


def _flush():
    STATS["nontrivial"] = sorted(_NT)
    tmp = os.path.join(OUT, "stats.json.tmp")
    with open(tmp, "w", encoding="utf-8") as f:
        json.dump(STATS, f)
    os.replace(tmp, os.path.join(OUT, "stats.json"))


def TestOneInput(data: bytes):
    STATS["execs"] += 1
    case = fuzz_case(bytes(data))
    try:
        check_bootfile(case, REC, ("fuzz",))
    except Violation as v:
        with open(os.path.join(OUT, "failure.json"), "w", encoding="utf-8") as f:
            json.dump({"case": jsonable(v.case), "sig": v.sig, "message": v.message, "input_hex": bytes(data).hex()}, f)
        _flush()
        sys.stdout.flush()
        os._exit(77)
    if STATS["execs"] % 50 == 0 or STATS["execs"] >= RUNS:
        _flush()


def _runs(argv):
    for a in argv:
        if a.startswith("-runs="):
            return int(a.split("=", 1)[1])
    return 1 << 62


RUNS = _runs(sys.argv)

if __name__ == "__main__":
    atheris.Setup(sys.argv, TestOneInput)
    atheris.Fuzz()
