#!/bin/sh
# tools/seed_collect.sh <suffix>  — verify and file every finished seeding output /tmp/seed/CNN_<suffix>_out
cd "$(dirname "$0")/.."
SUF="$1"
for d in /tmp/seed/C*_${SUF}_out; do
  [ -f "$d/meta.json" ] && [ -f "$d/patch.diff" ] && [ -f "$d/demo.py" ] || continue
  pid=$(basename "$d" | cut -d_ -f1)
  [ -d "seeded/$pid-$SUF" ] && continue
  tools/seed_verify.sh "$d" "$pid" "$SUF"
  git -C /repo worktree remove --force "/tmp/seed/${pid}_${SUF}" 2>/dev/null
  rm -rf "$d"
done
