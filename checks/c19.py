"""C19 — reflection is gated, budgeted and cannot disturb the turn.

Three sub-checks, all on the real code:

* ``turns``  — generated sequences of real turns (observe.Engine -> Orchestrator.run_turn) with a per-turn gate
  triple, reflection settings, backend, compute mode (real / raising / custom stage callable returning n entries),
  scripted clock jump against ``time_ms_reflection``, memory-index ``add`` faults, telemetry faults and LLM fixture
  states.  Every turn is executed in the ON world and, from a deep copy of the same pre-state, in a TWIN world whose only
  difference is ``t3.allow_reflection=false`` (and no faults).  LLM turns get a recording pre-pass (third world, empty
  fixture file) that learns the prompt hash the code computes; that pre-pass doubles as a missing-fixture case.
* ``purity`` — groups of single open-gate turns in fresh worlds that share / differ in agent, turn, slot, text, turn
  clock, wall clock and unrelated state; pairwise functional + injective relation on the written ids / timestamps.
* ``unit``   — reflect() + write_reflection_entries() called directly over a much wider text space (all Unicode
  whitespace classes, punctuation, empty) for the token limit and the entry cap.
"""
from __future__ import annotations

import contextlib
import copy
import json
import os
import sys

from hypothesis import strategies as st

from harness.runner import Sub, Violation, run_hypothesis, digest, jsonable
from harness import world, observe

LEVEL = "exploration"
RULE = ("turns: Hypothesis-generated worlds (graph, 0-5 episodes with unicode/punctuation/empty text) x 1-3 real turns, each "
        "with gate triple (allow_reflection x plan flag via state channel / Plan.reflection / none x dry run, with and "
        "without the t4 kill switch), backend rulebased/llm, summary_tokens 0..128, ops_reflection 0..5/null, "
        "topk_snippets 0..3, embed, time_ms_reflection 1..6000/null with a scripted clock jump under/over it, compute "
        "real / raising (8 exception types, before or after the real call) / custom stage callable returning 0-4 "
        "entries, index.add fault patterns / state without memory_index, embedding adapter fault, telemetry faults at 3 "
        "sites, fixture file ok/absent/empty/garbage/other/blank (hash learnt by a recording pre-pass); every turn also runs in a twin world (same pre-state, allow_reflection=false). Non-trivial = a turn with "
        "an open gate that wrote a non-empty summary, or an open gate with an injected failure. "
        "purity: 2-5 open-gate single turns per case drawn so that keys (agent, turn, slot, text) collide and differ in "
        "exactly one component; non-trivial = at least one equal-key pair and one differing pair of written entries. "
        "unit: direct reflect()+writer calls; non-trivial = non-empty summary produced. Distinct = digest of the case.")
ASSUMPTIONS = [
    "the twin world (deep copy of the pre-turn state, allow_reflection=false, same stage patches) is the reference for "
    "'the same turn with reflection off'; process-global stage caches are reset before every run so both start cold",
    "ctx.now_ms (the logical turn clock supplied by the driver) counts as part of the turn identity: timestamps are "
    "compared only between runs with the same now_ms; the wall clock (perf_counter as seen by core, real time) differs",
    "sha256-prefix ids do not collide inside one case (a collision would be reported as id-collision)",
    "only safety is asserted for an open gate (upper bounds, nothing written on error/timeout); that reflection does "
    "write on the fault-free path is measured by the non-trivial labels, not asserted",
    "a fault-free index.add appends exactly the entry it is given (InMemoryIndex); the add-fault double raises before "
    "touching the index",
    "timeout is expected only when the scripted clock jump exceeds the budget by >= 1 ms, and ruled out only when it "
    "stays >= 1 ms below it",
]

KNOWN_PROBES = {}

AGENTS = ["A", "B", "Zoë"]
QUERIES = ["apple", "pear", "apple pear", "kiwi", "zzz", ""]
REFL_LOG = "t3_reflection.jsonl"


class _Custom(Exception):
    pass


def _exc_types():
    refl = sys.modules.get("clematis.engine.stages.t3.reflect")
    if refl is None:
        import importlib
        refl = importlib.import_module("clematis.engine.stages.t3.reflect")
    return {"ValueError": ValueError, "KeyError": KeyError, "TypeError": TypeError, "RuntimeError": RuntimeError,
            "OSError": OSError, "ZeroDivisionError": ZeroDivisionError, "Custom": _Custom,
            "FixtureMissingError": refl.FixtureMissingError}


EXC_NAMES = ["ValueError", "KeyError", "TypeError", "RuntimeError", "OSError", "ZeroDivisionError", "Custom",
             "FixtureMissingError"]


class Enc32(world.BowEncoder):
    """Bag-of-words over VOCAB padded to 32 dims (the dimension of the reflection embedder), injected via ctx.enc."""

    def vec(self, text):
        v = super().vec(text)
        return v + [0.0] * (32 - len(v))


class FakeTime:
    """Stand-in for the `time` module as seen by orchestrator.core: a scripted, strictly increasing perf_counter."""

    def __init__(self, real, base=1000.0):
        self._real = real
        self.now = float(base)

    def perf_counter(self):
        self.now += 1e-6
        return self.now

    def __getattr__(self, name):
        return getattr(self._real, name)


@contextlib.contextmanager
def _patched(obj, name, value):
    d = vars(obj)
    had = name in d
    old = d.get(name)
    setattr(obj, name, value)
    try:
        yield
    finally:
        if had:
            setattr(obj, name, old)
        else:
            try:
                delattr(obj, name)
            except AttributeError:
                pass


_ENVK = ("CLEMATIS_LOG_DIR", "CLEMATIS_LOGS_DIR", "CLEMATIS_SNAPSHOT_DIR")


@contextlib.contextmanager
def _use(root):
    saved = {k: os.environ.get(k) for k in _ENVK}
    cwd = os.getcwd()
    os.environ["CLEMATIS_LOG_DIR"] = os.path.join(root, "logs")
    os.environ.pop("CLEMATIS_LOGS_DIR", None)
    os.environ["CLEMATIS_SNAPSHOT_DIR"] = os.path.join(root, "snap")
    os.chdir(os.path.join(root, "cwd"))
    try:
        yield
    finally:
        os.chdir(cwd)
        for k, v in saved.items():
            if v is None:
                os.environ.pop(k, None)
            else:
                os.environ[k] = v


def _copy_state(state):
    """Deep copy of an engine state. The stage caches living in the state hold thread locks; a copy gets fresh locks
    (registered once per worker process) so that the twin world starts from the same cache contents as the ON world."""
    import copyreg
    import threading

    for mk in (threading.RLock, threading.Lock):
        tp = type(mk())
        if tp not in copyreg.dispatch_table:
            copyreg.pickle(tp, (lambda mk_: (lambda _l: (mk_, ())))(mk))
    return copy.deepcopy(state)


def _subroot(base, name):
    r = os.path.join(base, name)
    for s in ("logs", "snap", "cwd", "fx"):
        os.makedirs(os.path.join(r, s))
    return r


def _mods():
    import importlib
    import clematis.engine.orchestrator as orch
    import clematis.engine.orchestrator.core as core
    reflmod = importlib.import_module("clematis.engine.stages.t3.reflect")
    logmod = importlib.import_module("clematis.engine.orchestrator.logging")
    iolog = importlib.import_module("clematis.io.log")
    llm = importlib.import_module("clematis.adapters.llm")
    return orch, core, reflmod, logmod, iolog, llm


def _ntok(s):
    return len((s or "").split())


# ------------------------------------------------------------------------------------------------ generators

_WEIRD = ["", " ", "Hello, World!", "Äpfel & Birnen — naïve café", "日本語 の テキスト", "emoji 😀 ok 👍🏽",
          "tabs\tand\nnew\r\nlines", "nb\u00a0sp\u2003em\u3000ideo", "İstanbul ǅ ß", "...!!!???", "a  b   c ",
          "\x1c fs \x1f us \x85 nel", "עברית RTL العربية", "don't-stop_me.now",
          "one two three four five six seven eight nine ten eleven twelve", "I am Qwen", "x", "ﬁn ½ ²",
          "a\u200bb\u2060c", "\ufeffbom", "apple pear", "  lead and trail  "]
_WORDS = ["apple", "Pear,", "kiwi!", "—", "de", "x1", "Ünï", "(a)", "b.c", "日本"]
_CHARS = st.one_of(st.sampled_from(list(" \t\n\u00a0\u2003\x1cab1é.,!-_")), st.characters(codec="utf-8"))
TEXTS = st.one_of(st.sampled_from(_WEIRD), st.lists(st.sampled_from(_WORDS), max_size=12).map(" ".join),
                  st.text(alphabet=_CHARS, max_size=30))
SHORT = st.one_of(st.sampled_from(["", "x", "a b", "a b c d e f", "Ünï ok", " pad ", "a\tb\nc"]),
                  st.lists(st.sampled_from(_WORDS), max_size=5).map(" ".join))


@st.composite
def _episodes(draw):
    ids = draw(st.lists(st.sampled_from(world.EP_IDS), max_size=5, unique=True))
    eps = []
    for eid in ids:
        vw = draw(st.sampled_from(["apple", "pear", "apple pear", "kiwi", "apple apple pear", None]))
        ep = {"id": eid, "owner": draw(st.sampled_from(["A", "B"])), "text": draw(TEXTS),
              "vec_full": None if vw is None else Enc32().vec(vw),
              "ts": world.iso_minus(world.NOW_ISO, draw(st.sampled_from([0, 3600, 86400, 6 * 86400])))}
        eps.append(ep)
    return eps


def _knobs(draw):
    return {
        "backend": draw(st.sampled_from(["rulebased", "rulebased", "llm"])),
        "tokens": draw(st.sampled_from([0, 1, 1, 2, 3, 5, 8, 128])),
        "ops": draw(st.sampled_from([0, 0, 1, 1, 2, 5, None])),
        "topk": draw(st.sampled_from([0, 1, 3, 3])),
        "embed": draw(st.booleans()),
        "time_ms": draw(st.sampled_from([1, 5, 50, 6000, None])),
    }


@st.composite
def _turn(draw):
    t = {"agent": draw(st.sampled_from(AGENTS)), "text": draw(st.sampled_from(QUERIES)),
         "utter": draw(st.one_of(st.none(), TEXTS, TEXTS)),
         "turn_id": draw(st.sampled_from(["seq", "seq", "seq", "str", "name"])),
         "allow": draw(st.sampled_from([True, True, True, True, False])),
         "flag": draw(st.sampled_from(["state", "state", "state", "plan", "plan", "none"])),
         "dry": draw(st.sampled_from([False, False, False, False, True]))}
    t["kill"] = draw(st.sampled_from([False, True] if t["dry"] else [False, False, False, False, True]))
    t.update(_knobs(draw))
    # one focused scenario per turn (plus a "chaos" scenario drawing every fault independently)
    sc = draw(st.sampled_from(["plain", "plain", "plain", "plain", "raise", "fake", "fake", "timeout", "write", "write", "tele",
                               "fixture", "noindex", "embed", "chaos"]))
    chaos = sc == "chaos"
    if sc == "fixture":
        t["backend"] = "llm"
    if sc in ("plain", "fake", "write", "tele") and draw(st.booleans()):
        t["ops"] = draw(st.sampled_from([1, 1, 2, 5]))
        t["tokens"] = draw(st.sampled_from([1, 2, 3, 5, 8, 128]))
    t["jump"] = (draw(st.sampled_from(["over", "over", "far"])) if sc == "timeout" else
                 draw(st.sampled_from(["none", "none", "under", "over", "far"] if chaos else ["none", "none", "under"])))
    mode = {"raise": "raise", "fake": "fake"}.get(sc, "real")
    if sc == "write" or chaos:
        mode = draw(st.sampled_from(["real", "fake", "raise"] if chaos else ["real", "fake"]))
    if mode == "raise":
        t["compute"] = {"mode": "raise", "exc": draw(st.sampled_from(EXC_NAMES)), "when": draw(st.sampled_from(["before", "after"]))}
    elif mode == "fake":
        t["compute"] = {"mode": "fake", "texts": draw(st.lists(SHORT, min_size=0 if chaos else 1, max_size=4))}
    else:
        t["compute"] = {"mode": "real"}
    t["site"] = draw(st.sampled_from(["module", "module", "orch"]))
    t["write"] = (draw(st.fixed_dictionaries({"exc": st.sampled_from(EXC_NAMES[:7]), "pattern": st.lists(st.booleans(), min_size=1, max_size=4)}))
                  if (sc == "write" or (chaos and draw(st.booleans()))) else None)
    if t["write"] is not None and not chaos and not any(t["write"]["pattern"]):
        t["write"]["pattern"][0] = True
    if sc == "noindex":
        t["write"] = {"noindex": True}  # the state carries no memory_index for the writer
    t["embedfault"] = draw(st.sampled_from(EXC_NAMES[:7])) if sc == "embed" else None
    if sc == "embed":
        t["embed"] = True
    t["tele"] = (draw(st.fixed_dictionaries({"site": st.sampled_from(["inner", "outer", "deep"]), "exc": st.sampled_from(EXC_NAMES[:7])}))
                 if (sc == "tele" or (chaos and draw(st.booleans()))) else None)
    t["fixture"] = (draw(st.sampled_from(["absent", "empty", "garbage", "other", "blank"])) if sc == "fixture" else
                    draw(st.sampled_from(["ok", "absent", "other"])) if chaos else "ok")
    t["completion"] = draw(TEXTS)
    t["caches"] = draw(st.booleans())
    return t


@st.composite
def _fixture_flip_turns(draw):
    """Three LLM-backend turns that build the SAME reflection prompt (same agent, turn id, utterance, no snippets) while the
    fixtures file at one constant path goes ok -> missing -> ok: the adapter must look at the file as it is now."""
    t = draw(_turn())
    t.update({"allow": True, "flag": "state", "dry": False, "kill": False, "backend": "llm", "topk": 0,
              "tokens": draw(st.sampled_from([3, 8, 128])), "ops": draw(st.sampled_from([1, 2, 5])), "time_ms": None,
              "utter": draw(TEXTS) or "apple pear", "turn_id": 7, "jump": "none", "compute": {"mode": "real"},
              "write": None, "tele": None, "embedfault": None, "site": "module"})
    missing = draw(st.sampled_from(["absent", "other", "empty"]))
    return [dict(t, fixture="ok"), dict(t, fixture=missing), dict(t, fixture="ok", completion=draw(TEXTS) or "pear")]


@st.composite
def turn_cases(draw):
    graphs = {"g1": draw(world.graph_specs(max_nodes=4, max_edges=5, ids=["a", "b", "c", "ä"]))}
    if draw(st.sampled_from([True, False, False, False])):
        return {"graphs": graphs, "eps": draw(_episodes()), "turns": draw(_fixture_flip_turns())}
    return {"graphs": graphs, "eps": draw(_episodes()), "turns": draw(st.lists(_turn(), min_size=1, max_size=3))}


# ------------------------------------------------------------------------------------------------ execution of one turn


class Spy:
    """Stage-callable spy around the real reflect(): counts calls, applies the scripted clock jump, injects
    compute faults / custom results, records what was produced."""

    def __init__(self, real, clock, jump_ms=0.0, compute=None, result_cls=None):
        self.real = real
        self.clock = clock
        self.jump_ms = jump_ms
        self.compute = compute or {"mode": "real"}
        self.result_cls = result_cls
        self.calls = 0
        self.produced = None  # list of raw entry texts of the returned result
        self.summary = None
        self.raised = None

    def __call__(self, bundle, cfg, embedder=None):
        self.calls += 1
        self.clock.now += self.jump_ms / 1000.0
        c = self.compute
        try:
            if c["mode"] == "raise" and c["when"] == "before":
                raise _exc_types()[c["exc"]]("injected compute failure")
            if c["mode"] == "fake":
                owner = str(getattr(bundle.ctx, "agent_id", "unknown"))
                ts = getattr(bundle.ctx, "now_iso", None) or getattr(bundle.ctx, "now", None)
                ents = [{"owner": owner, "ts": ts, "text": tx, "tags": ["reflection"], "kind": "summary"} for tx in c["texts"]]
                res = self.result_cls(summary=(c["texts"][0] if c["texts"] else ""), memory_entries=ents,
                                      metrics={"backend": "custom"})
            else:
                res = self.real(bundle, cfg, embedder=embedder)
            if c["mode"] == "raise":
                raise _exc_types()[c["exc"]]("injected compute failure")
        except Exception as e:
            self.raised = type(e).__name__
            raise
        self.produced = [str((e or {}).get("text", "")) for e in (res.memory_entries or [])]
        self.summary = res.summary
        return res


def _cfg_over(t, allow, fx_path):
    o = {"t3": {"allow_reflection": bool(allow),
                "reflection": {"backend": t["backend"], "summary_tokens": t["tokens"], "topk_snippets": t["topk"],
                               "embed": t["embed"]}},
         "scheduler": {"budgets": {"ops_reflection": t["ops"], "time_ms_reflection": t["time_ms"]}},
         "t4": {"enabled": not t.get("kill", False)}}
    if t["backend"] == "llm":
        o["t3"]["llm"] = {"fixtures": {"enabled": True, "path": fx_path}}
    if not t.get("caches", True):
        o["t1"] = {"cache": {"enabled": False}}
        o["t2"] = {"cache": {"enabled": False}}
    return o


def _turn_id(t, i):
    k = t["turn_id"]
    if k == "seq":
        return i
    if k == "str":
        return str(i)
    if k == "name":
        return f"t-{i}"
    return k  # explicit value (purity cases)


def _jump_ms(t):
    b = t["time_ms"] if t["time_ms"] is not None else 6000
    return {"none": 0.0, "under": float(max(0, b - 1)), "over": float(b + 1), "far": float(10 * b + 1000)}[t.get("jump", "none")]


def _run(eng, t, i, allow, faults, spy_compute, record_prompts=None, clock_base=1000.0, now_ms=None):
    """Execute turn `t` (index i) on engine `eng`. Returns an observation dict."""
    orch, core, reflmod, logmod, iolog, llm = _mods()
    from clematis.engine.types import Plan  # noqa: F401
    import dataclasses
    import time as _time

    fx_path = os.path.join(eng.root, "fx", "fixtures.jsonl")
    cfg = eng.cfg(_cfg_over(t, allow, fx_path))
    idx = eng.state["memory_index"]
    idx0 = world.index_digest(idx)
    logs0 = eng.logs()
    snaps0 = eng.snaps()
    clock = FakeTime(_time, base=clock_base)
    spy = Spy(reflmod.reflect, clock, jump_ms=(_jump_ms(t) if faults else 0.0), compute=spy_compute,
              result_cls=reflmod.ReflectionResult)
    obs = {"spy": spy, "add_calls": 0, "add_ok": 0, "tele_hits": 0}
    tid = _turn_id(t, i)
    with contextlib.ExitStack() as stack:
        stack.enter_context(_use(eng.root))
        stack.enter_context(_patched(core, "time", clock))
        if t.get("site", "module") == "orch" and faults:
            stack.enter_context(_patched(orch, "reflect", spy))
        else:
            stack.enter_context(_patched(reflmod, "reflect", spy))
        if t["flag"] == "plan":
            def delib(ctx, state, bundle):
                return dataclasses.replace(core.deliberate(bundle), reflection=True)
            stack.enter_context(_patched(orch, "t3_deliberate", delib))
        if t.get("utter") is not None:
            utter = t["utter"]
            stack.enter_context(_patched(orch, "t3_dialogue", lambda dialog_bundle, plan: utter))
        if record_prompts is not None:
            orig_gen = llm.FixtureLLMAdapter.generate

            def gen(self, prompt, max_tokens, temperature):
                record_prompts.append(prompt)
                return orig_gen(self, prompt, max_tokens=max_tokens, temperature=temperature)
            stack.enter_context(_patched(llm.FixtureLLMAdapter, "generate", gen))
        if faults and t.get("write") and t["write"].get("noindex"):
            saved_idx = eng.state.pop("memory_index")
            obs["noindex"] = True
            stack.callback(lambda: eng.state.__setitem__("memory_index", saved_idx))
        elif faults and t.get("write"):
            wexc = _exc_types()[t["write"]["exc"]]
            pat = t["write"]["pattern"]
            real_add = type(idx).add

            def add(*a, **kw):
                k = obs["add_calls"]
                obs["add_calls"] += 1
                if pat[k % len(pat)]:
                    raise wexc("injected index failure")
                ep = a[0] if a else dict(kw)
                real_add(idx, ep)
                obs["add_ok"] += 1
            idx.add = add
            stack.callback(lambda: idx.__dict__.pop("add", None))
        if faults and t.get("embedfault"):
            eexc = _exc_types()[t["embedfault"]]

            class _BadEmbed:
                def encode(self, texts):
                    obs["embed_hits"] = obs.get("embed_hits", 0) + 1
                    raise eexc("injected embedding failure")
            stack.enter_context(_patched(reflmod, "_EMBED_ADAPTER", _BadEmbed()))
        if faults and t.get("tele"):
            texc = _exc_types()[t["tele"]["exc"]]
            site = t["tele"]["site"]
            if site == "outer":
                def boom(*a, **kw):
                    obs["tele_hits"] += 1
                    raise texc("injected telemetry failure")
                stack.enter_context(_patched(core, "log_t3_reflection", boom))
            else:
                mod, name = (logmod, "append_jsonl") if site == "inner" else (iolog, "_append_jsonl_unbuffered")
                orig_w = getattr(mod, name)

                def w(filename, record, *a, **kw):
                    if os.path.basename(str(filename)) == REFL_LOG:
                        obs["tele_hits"] += 1
                        raise texc("injected telemetry failure")
                    return orig_w(filename, record, *a, **kw)
                stack.enter_context(_patched(mod, name, w))
        world.reset_engine_globals()
        r = eng.turn(t["agent"], t["text"], cfg, tid, now_ms if now_ms is not None else world.NOW_MS + i * 1000,
                     ctx_extra=({"_dry_run_until_t4": True} if t.get("dry") else None))
    logs1 = eng.logs()
    delta = {}
    rewritten = []
    for k in sorted(set(logs0) | set(logs1)):
        a, b = logs0.get(k, b""), logs1.get(k, b"")
        if not b.startswith(a):
            rewritten.append(k)
        delta[k] = b[len(a):]
    idx1 = world.index_digest(eng.state["memory_index"])
    n0 = len(idx0["eps"])
    obs.update({
        "exc": r["exc"], "line": r["line"], "ctx": r["ctx"], "rewritten": rewritten,
        "canon": {k: delta.get(k, b"") for k in observe.CANONICAL}, "refl_delta": delta.get(REFL_LOG, b""),
        "refl_file": [p for p in eng.listing() if os.path.basename(p) == REFL_LOG],
        "idx0": idx0, "idx1": idx1, "kept": idx1["eps"][:n0] == idx0["eps"], "new": idx1["eps"][n0:],
        "views": jsonable({"t1": r.get("t1"), "t2": r.get("t2"), "approved": r.get("approved"), "reasons": r.get("reasons"),
                           "apply": {k: (str(v).replace(eng.root, "<ROOT>") if isinstance(v, str) else v)
                                     for k, v in (r.get("apply") or {}).items()}}),
        "snaps": {k: v for k, v in eng.snaps().items() if snaps0.get(k) != v},  # files written / changed by this turn
        "snaps_gone": sorted(k for k in snaps0 if k not in eng.snaps()),
        "state": {"store": world.store_digest(eng.state["store"]), "version": eng.state.get("version_etag")},
    })
    return obs


def _closed_gate_oracle(o, where, case, ever_open):
    if o["spy"].calls:
        raise Violation(f"{where}: gate closed but the reflection compute function was called {o['spy'].calls}x", case, "closed-gate-computed")
    if o["idx1"] != o["idx0"]:
        raise Violation(f"{where}: gate closed but the memory index changed ({len(o['new'])} new entries)", case, "closed-gate-wrote")
    if o["refl_delta"]:
        raise Violation(f"{where}: gate closed but t3_reflection.jsonl got {o['refl_delta'][:200]!r}", case, "closed-gate-logged")
    if not ever_open and o["refl_file"]:
        raise Violation(f"{where}: gate never open but {o['refl_file']} exists", case, "closed-gate-logged")


def _same_as_twin(o, tw, where, case, with_snaps=True):
    if o["exc"] is not None:
        raise Violation(f"{where}: turn raised {o['exc']} while the same turn with reflection off completed", case, "turn-raises")
    if o["line"] != tw["line"]:
        raise Violation(f"{where}: utterance {o['line']!r} differs from reflection-off run {tw['line']!r}", case, "utterance-differs")
    if o["rewritten"]:
        raise Violation(f"{where}: earlier log records were rewritten: {o['rewritten']}", case, "logs-rewritten")
    for k in observe.CANONICAL:
        if o["canon"][k] != tw["canon"][k]:
            raise Violation(f"{where}: {k} differs from the reflection-off run:\n on ={o['canon'][k][:300]!r}\n off={tw['canon'][k][:300]!r}",
                            case, f"canonical-differs:{k}")
    if o["views"] != tw["views"]:
        raise Violation(f"{where}: T1/T2/T4/apply results differ from the reflection-off run", case, "views-differ")
    if with_snaps and (o["snaps"] != tw["snaps"] or o["snaps_gone"] != tw["snaps_gone"]):
        raise Violation(f"{where}: snapshot files differ from the reflection-off run", case, "snapshot-differs")
    if o["state"] != tw["state"]:
        raise Violation(f"{where}: graph store / version differ from the reflection-off run", case, "state-differs")


def _open_gate_oracle(o, t, where, case, expect_nothing, why):
    if not o["kept"]:
        raise Violation(f"{where}: pre-existing memory entries were modified", case, "index-rewritten")
    n_new = len(o["new"])
    spy = o["spy"]
    produced = len(spy.produced) if spy.produced is not None else 0
    if expect_nothing and n_new:
        raise Violation(f"{where}: {why} but {n_new} entries were written: {[e[2] for e in o['new']]}", case, f"wrote-on-{why.split()[0]}")
    if t["ops"] is not None and n_new > t["ops"]:
        raise Violation(f"{where}: {n_new} entries written with ops_reflection={t['ops']}", case, "ops-cap-exceeded")
    if n_new > produced:
        raise Violation(f"{where}: {n_new} entries written but the compute step produced {produced}", case, "wrote-more-than-produced")
    if t["compute"]["mode"] == "real":
        for e in o["new"]:
            if _ntok(e[2]) > t["tokens"]:
                raise Violation(f"{where}: written summary {e[2]!r} has {_ntok(e[2])} whitespace tokens > summary_tokens={t['tokens']}",
                                case, "token-limit-exceeded")


def check_turns(case, rec=None):
    orch, core, reflmod, logmod, iolog, llm = _mods()
    labels = []
    nontrivial = False
    with world.sandbox() as base:
        w = {"graphs": case["graphs"], "eps": case["eps"], "agents": {a: ["g1"] for a in AGENTS}}
        on = observe.Engine(w, _subroot(base, "on"), encoder=Enc32())
        tw = observe.Engine({"graphs": {}, "eps": []}, _subroot(base, "tw"), encoder=Enc32())
        pp = observe.Engine({"graphs": {}, "eps": []}, _subroot(base, "pp"), encoder=Enc32())
        ever_open = False
        for i, t in enumerate(case["turns"], 1):
            where = f"turn {i}"
            if t["flag"] == "state":
                on.state["_planner_reflection_flag"] = True
            else:
                on.state.pop("_planner_reflection_flag", None)
            gate_open = bool(t["allow"] and t["flag"] != "none" and not t["dry"])
            pre = _copy_state(on.state)
            # --- twin: the same turn from the same pre-state with reflection off
            tw.state = _copy_state(pre)
            otw = _run(tw, t, i, allow=False, faults=False, spy_compute=None)
            if otw["exc"] is None:
                _closed_gate_oracle(otw, where + " (twin, allow_reflection=false)", case, ever_open=False)
            # --- llm recording pre-pass (empty fixture file): learns the prompt hash, is itself a missing-fixture case
            learnt = None
            if gate_open and t["backend"] == "llm" and t["compute"]["mode"] != "fake" and otw["exc"] is None:
                pp.state = _copy_state(pre)
                open(os.path.join(pp.root, "fx", "fixtures.jsonl"), "w").close()
                prompts = []
                opp = _run(pp, t, i, allow=True, faults=False, spy_compute=None, record_prompts=prompts)
                _same_as_twin(opp, otw, where + " (llm pre-pass, empty fixture file)", case, with_snaps=False)  # pp skips turns
                if opp["new"] or opp["idx1"] != opp["idx0"]:
                    raise Violation(f"{where} (llm pre-pass): fixture missing but the index changed: {[e[2] for e in opp['new']]}", case, "wrote-on-missing")
                labels.append("prepass:" + (opp["spy"].raised or "no-error"))
                if prompts:
                    learnt = llm._prompt_hash(prompts[-1])
            # --- fixture file for the ON world
            fxp = os.path.join(on.root, "fx", "fixtures.jsonl")
            if os.path.exists(fxp):
                os.unlink(fxp)
            fixture_ok = False
            if t["backend"] == "llm":
                decoy = {"prompt_hash": "0" * 64, "completion": "decoy text"}
                mode = t["fixture"]
                if mode != "absent":
                    with open(fxp, "w", encoding="utf-8") as f:
                        if mode == "garbage":
                            f.write("not json\n")
                        elif mode in ("ok", "blank") and learnt:
                            f.write(json.dumps(decoy) + "\n")
                            f.write(json.dumps({"prompt_hash": learnt, "completion": (t["completion"] if mode == "ok" else "")}) + "\n")
                            fixture_ok = mode == "ok"
                        elif mode != "empty":
                            f.write(json.dumps(decoy) + "\n")
            # --- ON world
            oon = _run(on, t, i, allow=t["allow"], faults=True, spy_compute=t["compute"])
            if otw["exc"] is not None:
                # the engine itself cannot run this turn (independent of reflection): not this property's business
                labels.append("engine-raises")
                if oon["exc"] is None:
                    labels.append("engine-raises-only-off")
                break
            _same_as_twin(oon, otw, where, case)
            tl = [f"backend={t['backend']}", f"flagvia={t['flag']}"]
            if not gate_open:
                _closed_gate_oracle(oon, where, case, ever_open)
                why = "allow=false" if not t["allow"] else ("noflag" if t["flag"] == "none" else ("dry+kill" if t["kill"] else "dry"))
                tl.append("gate=closed:" + why)
                if oon["idx1"] != otw["idx1"]:
                    raise Violation(f"{where}: memory index differs from the reflection-off run on a closed gate", case, "closed-gate-wrote")
            else:
                ever_open = True
                spy = oon["spy"]
                c = t["compute"]
                b = t["time_ms"]
                jump = _jump_ms(t)
                timeout = b is not None and jump >= b + 1
                expect_nothing, why = False, ""
                if c["mode"] == "raise":
                    expect_nothing, why = True, "error injected at compute"
                elif t["backend"] == "llm" and c["mode"] == "real" and t["fixture"] in ("absent", "empty", "garbage", "other"):
                    # the fixtures file as it is NOW does not hold this prompt: nothing may be written, whether or not the
                    # adapter noticed (a cached parse of an earlier file content must not be served)
                    expect_nothing, why = True, f"missing fixture (file {t['fixture']})"
                elif spy.raised is not None:
                    expect_nothing, why = True, ("missing fixture" if t["backend"] == "llm" and not fixture_ok else "error") + f" ({spy.raised}) at compute"
                elif timeout:
                    expect_nothing, why = True, f"timeout (elapsed {jump}ms > budget {b}ms)"
                elif spy.calls == 0:
                    expect_nothing, why = True, "error: compute never ran"
                _open_gate_oracle(oon, t, where, case, expect_nothing, why)
                n_new = len(oon["new"])
                injected = (c["mode"] == "raise" or (t["backend"] == "llm" and c["mode"] == "real" and not fixture_ok) or timeout
                            or (t["write"] is not None and (oon["add_calls"] > 0 or oon.get("noindex"))) or (t["tele"] is not None and oon["tele_hits"] > 0)
                            or oon.get("embed_hits", 0) > 0)
                wrote_text = any(e[2] for e in oon["new"])
                if wrote_text or (injected and spy.calls > 0):
                    nontrivial = True
                tl += ["gate=open", f"compute={c['mode']}", f"written={min(n_new, 2)}{'+' if n_new > 2 else ''}",
                       "ops=" + ("null" if t["ops"] is None else str(min(t["ops"], 2)) + ("+" if t["ops"] > 2 else "")),
                       "tokens=" + (str(t["tokens"]) if t["tokens"] <= 2 else "3+")]
                if wrote_text:
                    tl.append("wrote-nonempty")
                    if any(_ntok(e[2]) == t["tokens"] for e in oon["new"]) and c["mode"] == "real":
                        tl.append("summary-at-limit")
                if spy.produced is not None and t["ops"] is not None and len(spy.produced) > t["ops"]:
                    tl.append("produced>ops")
                if c["mode"] == "raise":
                    tl.append(f"fault=compute:{c['exc']}")
                if spy.raised and c["mode"] != "raise":
                    tl.append(f"fault=real-raised:{spy.raised}")
                if t["backend"] == "llm" and c["mode"] == "real":
                    tl.append("fixture=" + (t["fixture"] if learnt else "unlearnt"))
                if timeout:
                    tl.append("fault=timeout")
                elif t["jump"] == "under" and b is not None:
                    tl.append("clock=just-under-budget")
                if t["write"] is not None and oon["add_calls"]:
                    tl.append("fault=write" + (":partial" if oon["add_ok"] else ""))
                if oon.get("noindex"):
                    tl.append("fault=write:no-index")
                    if n_new:
                        raise Violation(f"{where}: state has no memory_index but {n_new} entries appeared", case, "wrote-without-index")
                if oon.get("embed_hits"):
                    tl.append("fault=embedding")
                if t["tele"] is not None and oon["tele_hits"]:
                    tl.append("fault=telemetry:" + t["tele"]["site"])
                if t["kill"]:
                    tl.append("open+kill-switch")
            labels.extend(tl)
    if rec is not None:
        rec.case(nontrivial=nontrivial, dig=digest(case) if nontrivial else None, labels=sorted(set(labels)),
                 sample=({"turns": [{k: t[k] for k in ("allow", "flag", "dry", "backend", "tokens", "ops", "compute", "jump", "write", "tele", "embedfault")}
                                    for t in case["turns"]]} if nontrivial else None))


def sub_turns(rec, seed, shard, nshards, n=60, shrink=True):
    run_hypothesis(rec, seed, turn_cases(), lambda c: check_turns(c, rec), max_examples=n, shrink=shrink, name="turns")


# ------------------------------------------------------------------------------------------------ purity of id / ts


@st.composite
def purity_cases(draw):
    base = {"agent": draw(st.sampled_from(AGENTS)), "turn_id": draw(st.sampled_from([1, 2, 7, "3", "t-9"])),
            "text": draw(st.sampled_from(QUERIES[:4])), "utter": draw(st.one_of(TEXTS, SHORT)),
            "now_ms": world.NOW_MS + draw(st.sampled_from([0, 1000, 86_400_000])),
            "fake": draw(st.one_of(st.none(), st.lists(SHORT, min_size=1, max_size=3))),
            "clock": 1000.0, "unrelated": 0}
    runs = [base]
    for _ in range(draw(st.integers(1, 4))):
        src = dict(draw(st.sampled_from(runs)))
        op = draw(st.sampled_from(["same", "same", "agent", "turn", "text", "now", "turnstr"]))
        src["clock"] = draw(st.sampled_from([5.0, 1000.0, 9e8]))
        src["unrelated"] = draw(st.integers(0, 3))
        if op == "agent":
            src["agent"] = draw(st.sampled_from([a for a in AGENTS if a != src["agent"]]))
        elif op == "turn":
            src["turn_id"] = draw(st.sampled_from([x for x in [1, 2, 7, "3", "t-9"] if str(x) != str(src["turn_id"])]))
        elif op == "turnstr" and isinstance(src["turn_id"], int):
            src["turn_id"] = str(src["turn_id"])
        elif op == "text":
            if src["fake"] is not None:
                src["fake"] = [x + " z" for x in src["fake"]]
            else:
                src["utter"] = (src["utter"] or "") + " zeta"
        elif op == "now":
            src["now_ms"] = src["now_ms"] + draw(st.sampled_from([1, 1000, 3_600_000]))
        runs.append(src)
    return {"graphs": {"g1": draw(world.graph_specs(max_nodes=3, max_edges=3, ids=["a", "b", "c"]))}, "eps": draw(_episodes()),
            "tokens": draw(st.sampled_from([1, 3, 8, 128])), "ops": draw(st.sampled_from([1, 2, 5])), "embed": draw(st.booleans()),
            "runs": runs}


def check_purity(case, rec=None):
    written = []  # (key, now_ms, id, ts, stored_text, run_index)
    with world.sandbox() as base:
        for j, rn in enumerate(case["runs"]):
            graphs = dict(case["graphs"])
            if rn["unrelated"] & 1:
                graphs["g_unrelated"] = {"nodes": [{"id": "u", "label": "unrelated", "tags": []}], "edges": []}
            w = {"graphs": graphs, "eps": case["eps"], "agents": {a: ["g1"] for a in AGENTS}}
            eng = observe.Engine(w, _subroot(base, f"r{j}"), encoder=Enc32())
            eng.state["_planner_reflection_flag"] = True
            if rn["unrelated"] & 2:
                eng.state["_unrelated_key"] = {"x": j}
                with open(os.path.join(eng.root, "logs", "other.jsonl"), "w") as f:
                    f.write("{}\n")
            t = {"agent": rn["agent"], "text": rn["text"], "utter": rn["utter"], "turn_id": rn["turn_id"], "allow": True,
                 "flag": "state", "dry": False, "kill": False, "backend": "rulebased", "tokens": case["tokens"], "ops": case["ops"],
                 "topk": 3, "embed": case["embed"], "time_ms": 6000, "caches": True}
            comp = {"mode": "real"} if rn["fake"] is None else {"mode": "fake", "texts": list(rn["fake"])}
            o = _run(eng, t, 0, allow=True, faults=False, spy_compute=comp, clock_base=rn["clock"], now_ms=rn["now_ms"])
            if o["exc"] is not None:
                continue  # engine cannot run this world at all; nothing written to compare
            prod = o["spy"].produced or []
            if len(o["new"]) != min(len(prod), case["ops"]):
                continue  # slots cannot be attributed (only possible when writes were dropped)
            for slot, e in enumerate(o["new"]):
                written.append(((rn["agent"], str(rn["turn_id"]), slot, prod[slot]), rn["now_ms"], e[0], e[3], e[2], j))
    same = diff = 0
    comps = set()
    for a in range(len(written)):
        for b in range(a + 1, len(written)):
            ka, na, ida, tsa, _, ja = written[a]
            kb, nb, idb, tsb, _, jb = written[b]
            if ka == kb:
                if ja != jb:
                    same += 1
                if ida != idb:
                    raise Violation(f"same (agent, turn, slot, text)={ka!r} but ids {ida!r} != {idb!r} (runs {ja},{jb})", case, "id-not-pure")
                if na == nb and tsa != tsb:
                    raise Violation(f"same (agent, turn, slot, text)={ka!r} and turn clock but ts {tsa!r} != {tsb!r}", case, "ts-not-pure")
            else:
                diff += 1
                d = [n for n, x, y in zip(("agent", "turn", "slot", "text"), ka, kb) if x != y]
                if len(d) == 1:
                    comps.add(d[0])
                if ida == idb:
                    raise Violation(f"different keys {ka!r} / {kb!r} share the id {ida!r}", case, "id-collision")
    if rec is not None:
        nt = same >= 1 and diff >= 1
        rec.case(nontrivial=nt, dig=digest(case) if nt else None,
                 labels=[f"entries={min(len(written), 6)}"] + (["same-key-pair"] if same else []) + [f"differs-only-in={c}" for c in sorted(comps)],
                 sample=({"runs": [{k: r[k] for k in ("agent", "turn_id", "now_ms", "clock", "unrelated")} for r in case["runs"]]} if nt else None))


def sub_purity(rec, seed, shard, nshards, n=60, shrink=True):
    run_hypothesis(rec, seed, purity_cases(), lambda c: check_purity(c, rec), max_examples=n, shrink=shrink, name="purity")


# ------------------------------------------------------------------------------------------------ unit level: reflect + writer

_WS = list(" \t\n\r\x0b\x0c\x1c\x1d\x1e\x1f\x85\u00a0\u1680\u2000\u2003\u2028\u2029\u202f\u205f\u3000")
_UTEXT = st.one_of(TEXTS, st.text(alphabet=st.one_of(st.sampled_from(_WS), st.sampled_from(list("abcÄé1.,;!?-_'\"()\u200b\u0307")),
                                                      st.characters(codec="utf-8")), max_size=60))


@st.composite
def unit_cases(draw):
    k = _knobs(draw)
    k.update({"agent": draw(st.sampled_from(AGENTS)), "turn_id": draw(st.sampled_from([0, 1, 5, "7", "t-1"])),
              "utter": draw(_UTEXT), "snippets": draw(st.lists(_UTEXT, max_size=4)), "completion": draw(_UTEXT),
              "fixture": draw(st.sampled_from(["ok", "ok", "ok", "absent", "other", "blank"])),
              "extra": draw(st.lists(SHORT, max_size=3))})
    return k


def check_unit(case, rec=None):
    orch, core, reflmod, logmod, iolog, llm = _mods()
    from clematis.engine.orchestrator import reflection as writer
    from clematis.engine.types import Plan

    labels = [f"backend={case['backend']}"]
    nontrivial = False
    with world.sandbox() as base:
        fxp = os.path.join(base, "fixtures.jsonl")
        t = dict(case, kill=False, caches=True)
        cfg = world.validated_cfg(_cfg_over(t, True, fxp))
        ctx = world.make_ctx(cfg, agent=case["agent"], turn_id=case["turn_id"], now_ms=world.NOW_MS)
        ctx.now_iso = core._iso_from_ms(world.NOW_MS)
        snippets = [s for s in case["snippets"] if s][: case["topk"]] if case["topk"] > 0 else []
        state = {"memory_index": world.build_index([])}
        bundle = reflmod.ReflectionBundle(ctx=ctx, state_view=state, plan=Plan(version="t3-plan-v1", reflection=True),
                                          utter=case["utter"], snippets=snippets)
        if case["backend"] == "llm":
            open(fxp, "w").close()
            prompts = []
            orig_gen = llm.FixtureLLMAdapter.generate

            def gen(self, prompt, max_tokens, temperature):
                prompts.append(prompt)
                return orig_gen(self, prompt, max_tokens=max_tokens, temperature=temperature)
            with _patched(llm.FixtureLLMAdapter, "generate", gen):
                try:
                    reflmod.reflect(bundle, cfg)
                    raise Violation("llm backend returned a result with an empty fixture file", case, "llm-no-fixture-result")
                except Violation:
                    raise
                except Exception as e:
                    labels.append("prepass:" + type(e).__name__)
            os.unlink(fxp)
            if case["fixture"] != "absent":
                with open(fxp, "w", encoding="utf-8") as f:
                    f.write(json.dumps({"prompt_hash": "0" * 64, "completion": "decoy"}) + "\n")
                    if prompts and case["fixture"] in ("ok", "blank"):
                        f.write(json.dumps({"prompt_hash": llm._prompt_hash(prompts[-1]),
                                            "completion": case["completion"] if case["fixture"] == "ok" else ""}) + "\n")
        res = None
        try:
            res = reflmod.reflect(bundle, cfg)
        except Exception as e:  # errors are allowed here (the orchestrator turns them into 'nothing written')
            labels.append("raises:" + type(e).__name__)
        if res is not None:
            ents = list(res.memory_entries or [])
            if case["ops"] is not None and len(ents) > case["ops"]:
                raise Violation(f"reflect produced {len(ents)} entries with ops_reflection={case['ops']}", case, "ops-cap-exceeded")
            if _ntok(res.summary) > case["tokens"]:
                raise Violation(f"summary {res.summary!r} has {_ntok(res.summary)} whitespace tokens > summary_tokens={case['tokens']}",
                                case, "token-limit-exceeded")
            for e in ents:
                if _ntok(e.get("text")) > case["tokens"]:
                    raise Violation(f"entry text {e.get('text')!r} exceeds summary_tokens={case['tokens']}", case, "token-limit-exceeded")
            # writer: cap again (result padded with extra entries, as a custom stage callable may return)
            padded = reflmod.ReflectionResult(summary=res.summary, metrics=dict(res.metrics or {}),
                                              memory_entries=ents + [{"owner": case["agent"], "ts": None, "text": x, "tags": ["reflection"], "kind": "summary"}
                                                                     for x in case["extra"]])
            got = []
            for _ in range(2):
                st8 = {"memory_index": world.build_index([])}
                try:
                    writer.write_reflection_entries(ctx, st8, cfg, padded)
                except Exception as e:
                    labels.append("writer-raises:" + type(e).__name__)  # run_turn guards the call; allowed
                got.append(world.index_digest(st8["memory_index"])["eps"])
            new = got[0]
            if case["ops"] is not None and len(new) > case["ops"]:
                raise Violation(f"writer stored {len(new)} entries with ops_reflection={case['ops']}", case, "ops-cap-exceeded")
            if len(new) > len(padded.memory_entries):
                raise Violation("writer stored more entries than produced", case, "wrote-more-than-produced")
            for e in new[: len(ents)]:
                if _ntok(e[2]) > case["tokens"]:
                    raise Violation(f"stored summary {e[2]!r} exceeds summary_tokens={case['tokens']}", case, "token-limit-exceeded")
            if [(e[0], e[3]) for e in got[0]] != [(e[0], e[3]) for e in got[1]]:
                raise Violation(f"ids/ts differ between two writes of the same result: {got[0]} vs {got[1]}", case, "id-not-pure")
            if len({e[0] for e in new}) != len(new):
                raise Violation(f"two slots share an id: {[e[0] for e in new]}", case, "id-collision")
            if res.summary:
                nontrivial = True
                labels.append("summary-nonempty")
                if _ntok(res.summary) == case["tokens"]:
                    labels.append("summary-at-limit")
            labels.append(f"stored={min(len(new), 3)}")
            if len(padded.memory_entries) > (case["ops"] if case["ops"] is not None else 99):
                labels.append("produced>ops")
    if rec is not None:
        rec.case(nontrivial=nontrivial, dig=digest(case) if nontrivial else None, labels=sorted(set(labels)),
                 sample=({k: case[k] for k in ("backend", "tokens", "ops", "utter")} if nontrivial else None))


def sub_unit(rec, seed, shard, nshards, n=300, shrink=True):
    run_hypothesis(rec, seed, unit_cases(), lambda c: check_unit(c, rec), max_examples=n, shrink=shrink, name="unit")


# ---------------------------------------------------------------- plan_flag: "requested by the plan" through the LLM planner

_PLANNER_OUTCOMES = ["valid_true", "valid_true", "valid_false", "valid_nokey", "fenced_true", "prose", "schema_invalid",
                     "adapter_error", "generate_raises", "adapter_none"]


@st.composite
def planflag_cases(draw):
    """2-6 planner calls on ONE engine state (LLM policy): the request a plan makes for reflection must be the request
    of THIS call's plan — a fallback plan (invalid output, adapter failure, backend inactive) requests nothing."""
    steps = [{"outcome": draw(st.sampled_from(_PLANNER_OUTCOMES)), "agent": draw(st.sampled_from(AGENTS)),
              "allow": draw(st.sampled_from([True, True, False]))} for _ in range(draw(st.integers(2, 6)))]
    return {"steps": steps, "plan_items": draw(st.lists(st.sampled_from(["look", "edit graph", "ask", "say hi"]), max_size=3))}


def check_planflag(case, rec=None):
    from types import SimpleNamespace
    import clematis.engine.stages.t3.policy as policy
    import clematis.engine.orchestrator.core as core
    from clematis.engine.stages.t3.policy import run_policy

    world.reset_engine_globals()
    state = SimpleNamespace(logs=[])
    labels = []
    runs_after_fallback = 0
    prev_true = False
    for i, st_ in enumerate(case["steps"], 1):
        oc = st_["outcome"]
        body = {"plan": list(case["plan_items"]), "rationale": "because"}
        if oc in ("valid_true", "fenced_true"):
            body["reflection"] = True
        elif oc == "valid_false":
            body["reflection"] = False
        text = json.dumps(body)
        if oc == "fenced_true":
            text = "```json\n" + text + "\n```"
        elif oc == "prose":
            text = "Sure! Here is the plan: " + text
        elif oc == "schema_invalid":
            text = json.dumps({"plan": "not a list", "rationale": 5, "reflection": True})

        class _Adapter:
            def generate(self, prompt, max_tokens=256, temperature=0.2):
                if oc == "generate_raises":
                    raise RuntimeError("injected adapter failure")
                return SimpleNamespace(text=text)

        def _factory(cfg, oc=oc):
            if oc == "adapter_error":
                raise policy.LLMAdapterError("injected: fixture path not found")
            if oc == "adapter_none":
                return None
            return _Adapter()

        cfg = world.validated_cfg({"t3": {"backend": "llm", "allow_reflection": bool(st_["allow"])}})
        ctx = world.make_ctx(cfg, agent=st_["agent"], turn_id=i, now_ms=world.NOW_MS + i)
        with _patched(policy, "_get_llm_adapter_from_cfg", _factory):
            try:
                out = run_policy({"name": "llm", "meta": {}}, {}, cfg, ctx, state=state)
            except Exception as e:
                raise Violation(f"step {i} ({oc}): run_policy raised {type(e).__name__}: {e}", case, "planner-raises")
        requested = oc in ("valid_true", "fenced_true")
        is_fallback = oc in ("prose", "schema_invalid", "adapter_error", "generate_raises", "adapter_none")
        if is_fallback and list(out.get("plan") or []):
            raise Violation(f"step {i} ({oc}): fallback plan is not empty: {out!r}", case, "fallback-plan")
        flag = bool(getattr(state, "_planner_reflection_flag", False))
        # the real gate, as run_turn consults it after Apply (plan object without a reflection attribute: LLM path)
        try:
            res = core._run_reflection_if_enabled(ctx, state, SimpleNamespace(ops=[]), "hello", SimpleNamespace(retrieved=[]))
        except Exception as e:
            raise Violation(f"step {i} ({oc}): reflection gate raised {type(e).__name__}: {e}", case, "gate-raises")
        ran = res is not None
        want = bool(requested and st_["allow"])
        if flag != requested or ran != want:
            if is_fallback and prev_true:
                runs_after_fallback += 1
            raise Violation(f"step {i}: planner outcome {oc!r} (plan requests reflection: {requested}, allow_reflection="
                            f"{st_['allow']}) but the gate input on the state is {flag} and reflection "
                            f"{'ran' if ran else 'did not run'}; earlier outcomes {[x['outcome'] for x in case['steps'][:i - 1]]}",
                            case, "plan-flag-stale" if (flag and not requested) else "plan-flag-lost")
        labels.append(f"planner={oc}")
        if is_fallback and prev_true:
            labels.append("fallback_after_requested")
        prev_true = requested
    if rec is not None:
        nt = "fallback_after_requested" in labels
        rec.case(nontrivial=nt, dig=digest(case) if nt else None, labels=sorted(set(labels)), n=len(case["steps"]),
                 sample={"outcomes": [x["outcome"] for x in case["steps"]]} if nt else None)


def sub_planflag(rec, seed, shard, nshards, n=150, shrink=True):
    run_hypothesis(rec, seed, planflag_cases(), lambda c: check_planflag(c, rec), max_examples=n, shrink=shrink, name="plan_flag")


SUBCHECKS = [
    Sub("plan_flag", sub_planflag, quick={"n": 150}, thorough={"n": 3000}, shards_quick=2, shards_thorough=4,
        replay=lambda c: check_planflag(c, None)),
    Sub("turns", sub_turns, quick={"n": 130}, thorough={"n": 1500}, shards_quick=4, shards_thorough=16,
        replay=lambda c: check_turns(c, None)),
    Sub("purity", sub_purity, quick={"n": 40}, thorough={"n": 500}, shards_quick=2, shards_thorough=8,
        replay=lambda c: check_purity(c, None)),
    Sub("unit", sub_unit, quick={"n": 300}, thorough={"n": 5000}, shards_quick=2, shards_thorough=8,
        replay=lambda c: check_unit(c, None)),
]
