"""C01 — turn execution is reproducible byte-for-byte.

Metamorphic, run-vs-run: the observation of a generated (world, validated config, multi-agent script) must be identical
(a) when re-executed in the same warm process, (b) in fresh processes under other PYTHONHASHSEED values (case order
reversed), (c) under perturbed clocks (perf_counter / time.time jittered, scaled, stalling; datetime.now() offset by
hours inside the engine modules), (d) with thread switching forced to 1 microsecond (T1- and T2-parallel configs run their shard tasks on threads).
"""
from __future__ import annotations

import hashlib
import json
import os
import subprocess
import sys
import tempfile

from hypothesis import strategies as st

from harness.runner import Sub, Violation, run_hypothesis, digest, jsonable
from harness import world, observe

LEVEL = "exploration"
RULE = ("Hypothesis-generated worlds (2 graphs, 3-10 episodes of 3 owners incl. exact ties, GEL edges), validated configs "
        "(caches on/off, T1-parallel and T2-parallel 2-4 workers, scheduler enabled with huge quantum so only budget-driven yields occur, "
        "GEL with merge/split/promotion, reflection, hybrid, quality+MMR, perf metrics on/off) and scripts of 2-6 turns over "
        "2-3 agents; each case is executed in 5 environments (in-process, warm re-run, fresh process PYTHONHASHSEED=1 with "
        "reversed case order, fresh process with a seed-derived hash seed + perturbed clocks + 1us thread switching, and "
        "in thorough two more). Non-trivial = some turn did T1 work (pops>0) and retrieved >=1 episode, and >=2 agents "
        "took turns. Distinct = digest of the case.")
ASSUMPTIONS = ["compared: utterances, t1/t2/t4/apply/turn/health.jsonl bytes under CI=true with the sandbox path normalised, "
               "scheduler.jsonl with consumed.ms masked, snapshot bodies (state_*.json), final state digest; t3*/gel.jsonl "
               "(raw timings) by record count only",
               "scheduler.budgets.time_ms_reflection is not set (a wall-clock budget is wall-clock dependent by design)",
               "episodes always carry a valid ts (a missing ts falls back to the wall clock in the recency filter)"]

FEATURES = ["caches_off", "t1_parallel", "t2_parallel", "t2_parallel", "sched_budgets", "gel", "reflection", "hybrid", "quality", "perf_metrics", "agent_scope",
            "kill_switch", "snapshot_every_2", "snippet_template"]


def feature_overrides(feats, draw_vals):
    o = {}
    if "caches_off" in feats:
        o = world.deep_merge(o, {"t1": {"cache": {"enabled": False}}, "t2": {"cache": {"enabled": False}}, "t4": {"cache": {"enabled": False}}})
    if "t1_parallel" in feats:
        o = world.deep_merge(o, {"perf": {"parallel": {"enabled": True, "t1": True, "max_workers": draw_vals["workers"]}}})
    if "t2_parallel" in feats:
        # sharded retrieval on worker threads; without the archive tier nothing re-finds what a tier lost
        o = world.deep_merge(o, {"perf": {"parallel": {"enabled": True, "t2": True, "max_workers": draw_vals["workers"]}},
                                 "t2": {"tiers": ["exact_semantic", "cluster_semantic"], "exact_recent_days": 1}})
    if "sched_budgets" in feats:
        o = world.deep_merge(o, {"scheduler": {"enabled": True, "quantum_ms": 10 ** 8, "policy": draw_vals["policy"],
                                               "budgets": dict({"wall_ms": 10 ** 9}, **draw_vals["budgets"])}})
    if "gel" in feats:
        o = world.deep_merge(o, {"graph": {"enabled": True, "coactivation_threshold": 0.0, "update": {"alpha": 0.5},
                                           "decay": {"half_life_turns": 2, "floor": 0.01},
                                           "merge": {"enabled": True, "min_size": 2, "min_avg_w": 0.1}, "split": {"enabled": True, "weak_edge_thresh": 0.05},
                                           "promotion": {"enabled": True}}})
    if "reflection" in feats:
        o = world.deep_merge(o, {"t3": {"allow_reflection": True, "reflection": {"summary_tokens": 12, "embed": True}},
                                 "scheduler": {"budgets": {"ops_reflection": 2}}})
    if "hybrid" in feats:
        o = world.deep_merge(o, {"t2": {"hybrid": {"enabled": True, "lambda_graph": 1.0, "edge_threshold": 0.0, "walk_hops": draw_vals["hops"]}}})
    if "quality" in feats:
        o = world.deep_merge(o, {"t2": {"quality": {"enabled": True, "mmr": {"enabled": True, "lambda": 0.7}}}})
    if "perf_metrics" in feats:
        o = world.deep_merge(o, {"perf": {"enabled": True, "metrics": {"report_memory": True},
                                          "t1": {"caps": {"frontier": draw_vals["frontier"]}, "dedupe_window": 4}}})
    if "agent_scope" in feats:
        o = world.deep_merge(o, {"t2": {"owner_scope": "agent"}})
    if "kill_switch" in feats:
        o = world.deep_merge(o, {"t4": {"enabled": False}})
    if "snapshot_every_2" in feats:
        o = world.deep_merge(o, {"t4": {"snapshot_every_n_turns": 2}})
    if "snippet_template" in feats:
        o = world.deep_merge(o, {"t3": {"dialogue": {"template": "say {labels} | {snippets} | {intent}", "include_top_k_snippets": 3}}})
    return o


@st.composite
def cases(draw):
    eps = draw(world.episode_lists(max_eps=10, owners=["A", "B", "world"], allow_missing_ts=False,
                                   ids=["e1", "e10", "e2", "E3", "é4", "e5", "e6", "e7", "e8", "e9"]))
    graphs = {"g1": draw(world.graph_specs(max_nodes=6, max_edges=8, ids=["a", "b", "c", "d", "e", "ä"])),
              # node ids overlap between graphs (a label map over several active graphs meets the same id twice)
              "g2": draw(world.graph_specs(max_nodes=4, max_edges=4, ids=["a", "b", "x", "y"])),
              "g3": draw(world.graph_specs(max_nodes=3, max_edges=3, ids=["a", "c", "q"]))}
    gel = draw(world.gel_graphs([e["id"] for e in eps])) if draw(st.booleans()) else None
    feats = sorted(draw(st.sets(st.sampled_from(FEATURES), max_size=5)))
    vals = {"workers": draw(st.sampled_from([2, 3, 4])), "policy": draw(st.sampled_from(["round_robin", "fair_queue"])),
            "budgets": draw(st.fixed_dictionaries({}, optional={"t1_pops": st.sampled_from([0, 1, 2, 50]), "t1_iters": st.sampled_from([0, 1, 50]),
                                                                "t2_k": st.sampled_from([0, 1, 2, 50]), "t3_ops": st.sampled_from([0, 1, 3])})),
            "hops": draw(st.sampled_from([1, 2])), "frontier": draw(st.sampled_from([1, 2, 50]))}
    base = {}
    if draw(st.booleans()):
        base = world.deep_merge(base, {"t2": {"k_retrieval": draw(st.sampled_from([1, 2, 3, 10]))}})
    if draw(st.booleans()):
        base = world.deep_merge(base, {"t2": {"ranking": {"alpha_sim": 0.5, "beta_recency": 0.4, "gamma_importance": 0.1}}})
    if draw(st.booleans()):
        base = world.deep_merge(base, {"t1": {"queue_budget": draw(st.sampled_from([2, 4, 10000])), "radius_cap": draw(st.sampled_from([1, 2, 4]))}})
    if draw(st.booleans()):
        # decay settings differ from case to case: anything the process memoises about them must be keyed completely
        base = world.deep_merge(base, {"t1": {"decay": draw(st.sampled_from([
            {"mode": "attn_quad", "alpha": 0.1}, {"mode": "attn_quad", "alpha": 2.0}, {"mode": "attn_quad", "alpha": 0.8},
            {"mode": "exp_floor", "rate": 0.9, "floor": 0.05}, {"mode": "exp_floor", "rate": 0.3, "floor": 0.2}]))}})
    if draw(st.booleans()):
        base = world.deep_merge(base, {"t1": {"edge_type_mult": draw(st.sampled_from([
            {"supports": 1.0, "associates": 0.6, "contradicts": 0.8}, {"supports": 0.4, "associates": 1.0, "contradicts": 0.1}]))}})
    words = [w for e in eps for w in (e.get("text") or "").lower().split()] or world.VOCAB[:4]
    glabels = [n["label"] for g in graphs.values() for n in g["nodes"] if n["label"]] or world.VOCAB[:2]
    script = []
    for _ in range(draw(st.integers(2, 6))):
        tw = draw(st.lists(st.sampled_from(words + glabels), min_size=1, max_size=4))
        script.append({"agent": draw(st.sampled_from(["A", "B", "B", "Ç"])), "text": " ".join(tw),
                       "adv_ms": draw(st.sampled_from([1000, 60000, 86400000]))})
    if script and draw(st.booleans()):
        script.append(dict(draw(st.sampled_from(script))))  # a verbatim repeat: cache hit candidate
    clock = draw(st.sampled_from(["normal", "normal", "zero_fixed", "zero_start"]))
    if clock == "zero_fixed":
        for s_ in script:
            s_["adv_ms"] = 0
    elif clock == "zero_start":
        script[0]["adv_ms"] = 0
        for s_ in script[1:]:
            s_["adv_ms"] = draw(st.sampled_from([1000, 200000, 400000]))
    return {"eps": eps, "graphs": graphs, "gel": gel, "feats": feats, "vals": vals, "base": base, "script": script, "clock": clock,
            "encoder": draw(st.sampled_from(["bow", "default"]))}


def _sha(b: bytes) -> str:
    return hashlib.sha1(b).hexdigest()[:16]


def _engine(case, root):
    eps = case["eps"]
    enc = "bow"
    if case.get("encoder") == "default":
        # the engine's own deterministic (content-hash, word-order sensitive) adapter for queries AND episodes
        from clematis.adapters.embeddings import DeterministicEmbeddingAdapter
        ad = DeterministicEmbeddingAdapter(dim=32)
        eps = [dict(e, vec_full=(None if e.get("vec_full") is None else [float(x) for x in ad.encode([e.get("text") or ""])[0]])) for e in eps]
        enc = None
    return observe.Engine({"graphs": case["graphs"], "eps": eps, "gel": case["gel"],
                           "agents": {"A": ["g1", "g3"], "B": ["g2", "g1"], "Ç": ["g3"]}}, root, encoder=enc)


def run_case(case) -> dict:
    """Execute one case in the current process/environment; returns the comparable observation (hashes + lines)."""
    overrides = world.deep_merge(case["base"], feature_overrides(case["feats"], case["vals"]))
    with world.sandbox() as root:
        eng = _engine(case, root)
        if "reflection" in case["feats"]:
            eng.state["_planner_reflection_flag"] = True
        cfg = eng.cfg(overrides)
        lines, work_t1, work_t2 = [], False, False
        now = world.NOW_MS if case.get("clock", "normal") == "normal" else 0
        for i, st_ in enumerate(case["script"], 1):
            now += st_["adv_ms"]
            r = eng.turn(st_["agent"], st_["text"], cfg, i, now)
            lines.append(r["line"] if r["exc"] is None else "EXC:" + str(r["exc"]))
            if r.get("t1") and (r["t1"]["counters"].get("pops") or 0) > 0:
                work_t1 = True
            if r.get("t2") and r["t2"]["retrieved"]:
                work_t2 = True
        logs = eng.logs()
        obs = {"lines": lines}
        for name in observe.CANONICAL:
            obs["log:" + name] = _sha(logs.get(name, b""))
        if "scheduler.jsonl" in logs:
            obs["log:scheduler.jsonl(masked)"] = _sha(observe.mask_scheduler(logs["scheduler.jsonl"]))
        obs["counts"] = {k: v for k, v in sorted(observe.line_counts(logs).items())}
        for k, v in sorted(eng.snaps().items()):
            if not k.endswith(".meta"):
                obs["snap:" + k] = _sha(v)
        obs["state"] = digest(observe.state_digest(eng.state))
        obs["files"] = eng.listing()
        obs["_work"] = bool(work_t1 and work_t2)
        obs["_raw"] = None
        return obs


def diff_obs(a: dict, b: dict):
    keys = sorted((set(a) | set(b)) - {"_work", "_raw"})
    return [k for k in keys if a.get(k) != b.get(k)]


def full_logs(case) -> dict:
    """Re-run and return the canonical log texts (for violation messages)."""
    overrides = world.deep_merge(case["base"], feature_overrides(case["feats"], case["vals"]))
    with world.sandbox() as root:
        eng = _engine(case, root)
        if "reflection" in case["feats"]:
            eng.state["_planner_reflection_flag"] = True
        cfg = eng.cfg(overrides)
        now = world.NOW_MS if case.get("clock", "normal") == "normal" else 0
        for i, st_ in enumerate(case["script"], 1):
            now += st_["adv_ms"]
            eng.turn(st_["agent"], st_["text"], cfg, i, now)
        return {k: v.decode("utf-8", "replace") for k, v in eng.logs().items()}


# ---------------------------------------------------------------- environments (worker side)

def install_clock_perturbation(seed: int):
    import random
    import time
    import datetime as _dtmod
    import types

    rng = random.Random(seed)
    st_ = {"t": 1000.0, "w": rng.choice([1.7e9, 0.0, 5.0e9])}  # wall-clock origin shifted as well

    def fake_pc():
        r = rng.random()
        if r >= 0.2:  # 20 %: stall
            st_["t"] += rng.choice([1e-7, 1e-4, 3e-3, 0.05, 2.0])
        return st_["t"]

    def fake_time():
        st_["w"] += rng.choice([0.0, 1e-3, 1.0, 3600.0])
        return st_["w"]

    time.perf_counter = fake_pc
    time.time = fake_time
    off = _dtmod.timedelta(hours=rng.choice([-11, -5, 3, 9, 23]))
    real = _dtmod.datetime

    class ShiftedDT(real):
        @classmethod
        def now(cls, tz=None):
            return real.now(tz) + off

        @classmethod
        def utcnow(cls):
            return real.utcnow() + off

    shim = types.SimpleNamespace(datetime=ShiftedDT, timedelta=_dtmod.timedelta, timezone=_dtmod.timezone, date=_dtmod.date,
                                 time=_dtmod.time)
    import clematis.engine.orchestrator  # noqa: F401  (make sure engine modules are imported before shadowing)
    n = 0
    for name, mod in list(sys.modules.items()):
        if not name.startswith("clematis") or mod is None:
            continue
        if getattr(mod, "dt", None) is _dtmod:
            mod.dt = shim
            n += 1
        if getattr(mod, "datetime", None) is real:
            mod.datetime = ShiftedDT
            n += 1
        if getattr(mod, "_dt", None) is _dtmod:
            mod._dt = shim
            n += 1
    return n


def worker(argv):
    inp, outp, mode = argv[0], argv[1], argv[2]
    with open(inp, encoding="utf-8") as f:
        cases_ = json.load(f)
    from checks.c03 import _fix_floats
    cases_ = _fix_floats(cases_)
    flags = set(mode.split("+"))
    if "clocks" in flags:
        install_clock_perturbation(int(os.environ.get("VERIF_ENV_SEED", "1")))
    if "threads" in flags:
        sys.setswitchinterval(1e-6)
    order = list(range(len(cases_)))
    if "reverse" in flags:
        order.reverse()
    world.reset_engine_globals()
    out = {}
    for i in order:
        o = run_case(cases_[i])
        out[str(i)] = {k: v for k, v in o.items() if k not in ("_raw",)}
    with open(outp, "w", encoding="utf-8") as f:
        json.dump(out, f)
    return 0


def run_env(case_list, mode: str, hashseed: str, env_seed: int) -> dict:
    d = tempfile.mkdtemp(prefix="vx_c01_")
    try:
        inp, outp = os.path.join(d, "in.json"), os.path.join(d, "out.json")
        with open(inp, "w", encoding="utf-8") as f:
            json.dump(jsonable(case_list), f)
        env = dict(os.environ)
        env["PYTHONHASHSEED"] = hashseed
        env["VERIF_ENV_SEED"] = str(env_seed)
        p = subprocess.run([sys.executable, "-m", "checks.c01", "worker", inp, outp, mode], env=env, stdout=subprocess.PIPE,
                           stderr=subprocess.STDOUT, cwd=os.path.dirname(os.path.dirname(os.path.abspath(__file__))))
        if not os.path.exists(outp):
            raise RuntimeError(f"harness: C01 worker ({mode}, hashseed {hashseed}) died rc={p.returncode}: {p.stdout.decode(errors='replace')[-2000:]}")
        with open(outp, encoding="utf-8") as f:
            return json.load(f)
    finally:
        import shutil
        shutil.rmtree(d, ignore_errors=True)


# ---------------------------------------------------------------- the sub-check

def sub_repro(rec, seed, shard, nshards, n=40, envs=2, shrink=True):
    world.reset_engine_globals()
    collected = []

    def body(case):
        o0 = run_case(case)
        o1 = run_case(case)  # warm re-run in the same process (no reset in between)
        d = diff_obs(o0, o1)
        if d:
            raise Violation(f"re-run in the same warm process differs in {d}", case, "warm:" + d[0].split(":")[0])
        collected.append((case, o0))
        agents = {s["agent"] for s in case["script"]}
        nt = o0["_work"] and len(agents) >= 2
        rec.case(nontrivial=nt, dig=digest(case) if nt else None,
                 labels=[f"feat={f}" for f in case["feats"]] + [f"encoder={case.get('encoder')}", f"clock={case.get('clock')}"] + (["work"] if o0["_work"] else []) +
                        (["exc"] if any(str(x).startswith("EXC:") for x in o0["lines"]) else []) +
                        (["yielded"] if "log:scheduler.jsonl(masked)" in o0 else []),
                 sample={"feats": case["feats"], "script": case["script"], "lines": o0["lines"],
                         "episodes": [(e["id"], e["owner"], e["text"]) for e in case["eps"]][:6]} if nt else None)

    run_hypothesis(rec, seed, cases(), body, max_examples=n, shrink=shrink, name="warm")
    if not collected:
        return
    case_list = [c for c, _ in collected]
    env_specs = [("reverse", "1", 11), ("clocks+threads", str(100 + seed % 4000), 22),
                 ("clocks+reverse", "2", 33), ("threads", "random", 44)][:envs]
    for mode, hs, es in env_specs:
        res = run_env(case_list, mode, hs, es + seed)
        rec.label(f"env[{mode}|hashseed={hs}]", len(case_list))
        rec.evaluations += len(case_list)
        for i, (case, o0) in enumerate(collected):
            o = res.get(str(i))
            if o is None:
                raise RuntimeError("harness: worker returned no observation for a case")
            d = diff_obs(o0, o)
            if d:
                rec.violation(f"fresh process [{mode}, PYTHONHASHSEED={hs}] differs from the reference run in {d}: "
                              f"{ {k: (o0.get(k), o.get(k)) for k in d[:3]} }",
                              {"case": case, "mode": mode, "hashseed": hs, "env_seed": es + seed}, f"env:{mode}:{d[0].split(':')[0]}")
                break


def replay_case(c):
    from checks.c03 import _fix_floats
    c = _fix_floats(c)
    case = c.get("case", c)
    world.reset_engine_globals()
    o0 = run_case(case)
    o1 = run_case(case)
    d = diff_obs(o0, o1)
    if d:
        raise Violation(f"re-run in the same warm process differs in {d}", case, "warm")
    if "mode" in c:
        res = run_env([case], c["mode"], str(c["hashseed"]), int(c["env_seed"]))
        d = diff_obs(o0, res["0"])
        if d:
            raise Violation(f"fresh process [{c['mode']}] differs in {d}", c, "env")


SUBCHECKS = [
    Sub("repro", sub_repro, quick={"n": 40, "envs": 2}, thorough={"n": 400, "envs": 4}, shards_quick=8, shards_thorough=16,
        replay=replay_case),
]

if __name__ == "__main__":
    if len(sys.argv) > 1 and sys.argv[1] == "worker":
        sys.exit(worker(sys.argv[2:]))
