"""C08 — durable files are replaced all-or-nothing (fault enumeration).

Sub-checks
  faults   fixed matrix (target x old/new size class x permission bits); for every recorded I/O step of the write and
           every fault kind one forked re-execution with that fault injected; exhaustive over (step x fault) per case.
  gen      the same enumeration on Hypothesis-generated contents / old states (few cases, each fully enumerated).
  rlimit   real kernel faults, no proxy: the write runs under RLIMIT_FSIZE (short write / EFBIG from write(2)).
  readers  a reader thread + a reader process loop open().read() on the destination while the writer alternates two
           contents of different length; every read must be exactly one of the two.

Oracle (per injection; `old` = complete previous content or absent, `new` = complete new content):
  always            every destination (body, sidecar) is byte-for-byte old or new; no other file of the directory changes
  call returned     every destination == new; no other new file in the directory
  call raised       no new file besides the destinations (temp cleaned); for snapshot writers body must not be new
                    (a sidecar failure never fails the snapshot write)
  killed            temp files may remain but `_pick_latest_snapshot_path`, the `*.jsonl` rotation glob and the name
                    patterns of snapshot/log discovery never select one
  transient on replace (K in {1,3} << retries=80, errno EACCES/EPERM/EBUSY)  => the call succeeds (documented retry)
  permissions       a successful write keeps the old mode (0o644 when new); a failed write leaves the old file's mode
"""
from __future__ import annotations

import glob
import json
import os
import pathlib
import random
import select
import shutil
import stat as _stat
import tempfile
import threading
from types import SimpleNamespace
from typing import Any, Callable, Dict, List, Optional, Tuple

from harness.runner import Sub, Violation, run_hypothesis, digest
from harness import faults as F

LEVEL = "fault_enumeration"
RULE = ("Per case (target in atomic_write_bytes/text/json, write_snapshot body+sidecar, write_snapshot_auto delta/full "
        "(_write_lines), rewrite_jsonl; old content absent/small/200KB; new small/200KB/CRLF; permission bits) a "
        "fault-free forked run records the S ordered I/O steps seen by clematis.io.atomic (mkdir, mktemp, temp close, "
        "open, write, flush, fsync, close, stat, chmod, replace, reopen+fsync, dir open/fsync/close). Then EVERY step "
        "i<S x EVERY fault kind {kill before, kill after, kill mid-write, short write, persistent OSError "
        "EIO/ENOSPC/EACCES/EBUSY/EPERM, transient x1/x3 of EACCES/EPERM/EBUSY} is re-executed in a forked child "
        "(kill = os._exit(137)). Non-trivial = fault injected at a step after temp creation. Distinct = (target, step "
        "kind, step index, fault kind, old present?, size class). Contents of `gen` come from Hypothesis; readers: "
        "OS schedules sampled, oracle exact.")
ASSUMPTIONS = [
    "crash model: the process dies between two Python-visible I/O calls (or in the middle of one write); reordering "
    "below the file-system API (power loss) is out of scope",
    "single-fault model: one fault (persistent for that operation, or transient K times) per write; cleanup calls "
    "themselves succeed",
    "a kill (unlike a propagated exception) may legitimately leave a temp file; it only must not look like real data",
    "reference `new` bytes of snapshot/delta/jsonl targets come from a fault-free run of the same writer (content "
    "correctness is C06/C07/C16's business); bytes/text/json targets use an independent expected encoding",
    "POSIX rename semantics: a concurrent reader must never see the destination absent once it existed",
]

BIG = 200_000
# fault enumeration sandboxes live on tmpfs when there is one (fsync latency of a real disk only slows the ~6000 forked
# writes down; the crash model is process death, which the page cache survives); readers use the default temp dir
FAST_TMP = "/dev/shm" if os.path.isdir("/dev/shm") and os.access("/dev/shm", os.W_OK) else None
A_MOD = "clematis.io.atomic"
KNOWN_SHORT = "atomic-short-write"
KNOWN_TMPCLOSE = "atomic-tmp-close-leak"
TARGETS = ["bytes", "text", "json", "snapshot", "delta", "jsonl", "full"]


# ------------------------------------------------------------------------------------------------ contents

_WORDS = ["alpha", "beta", "gamma", "Äpfel", "汉字", "naïve", "x", "snapshot", "0", "tab\there", "q\"uote", "emoji😀"]


def _gen_text(seed: int, size: int, style: str) -> str:
    rng = random.Random(seed * 7919 + size)
    eols = {"crlf": ["\r\n", "\r\n", "\n", "\r", "\r\r\n"], "ascii": ["\n"], "unicode": ["\n"], "binary": ["\n"]}[style]
    words = _WORDS if style != "ascii" else ["alpha", "beta", "gamma", "x", "0"]
    out: List[str] = []
    n = 0
    while n < size:
        w = rng.choice(words) + (rng.choice(eols) if rng.random() < 0.25 else " ")
        out.append(w)
        n += len(w)
    return "".join(out)[:size]


def _gen_obj(seed: int, size: int, style: str) -> Any:
    rng = random.Random(seed * 104729 + size)
    items = []
    n = 0
    while n < size:
        s = _gen_text(rng.randrange(1 << 30), rng.randrange(5, 60), style)
        items.append({"id": len(items), "s": s, "w": rng.randrange(-1000, 1000) / 8.0})
        n += len(s) + 24
    return {"seed": seed, "items": items, "z": None, "a": [True, False, 1.5]}


def size_class(spec: Optional[dict]) -> str:
    if spec is None:
        return "absent"
    if "lit" in spec:
        return "lit"
    return "big" if spec["size"] >= 100_000 else ("empty" if spec["size"] == 0 else "small")


def _text_expected(text: str) -> bytes:
    return text.replace("\r\n", "\n").encode("utf-8")


def _json_expected(obj: Any) -> bytes:
    return _text_expected(json.dumps(obj, sort_keys=True, separators=(",", ":"), ensure_ascii=False))


def materialize_simple(kind: str, spec: dict) -> Tuple[Any, bytes]:
    """(argument handed to the writer, independently computed expected file bytes) for bytes/text/json targets."""
    if kind == "bytes":
        if "lit" in spec:
            b = bytes.fromhex(spec["lit"]) if isinstance(spec["lit"], str) else json.dumps(spec["lit"]).encode()
        elif spec["style"] == "binary":
            b = random.Random(spec["seed"]).randbytes(spec["size"])
        else:
            b = _gen_text(spec["seed"], spec["size"], spec["style"]).encode("utf-8")
        return b, b
    if kind == "text":
        t = (spec["lit"] if isinstance(spec["lit"], str) else json.dumps(spec["lit"])) if "lit" in spec else \
            _gen_text(spec["seed"], spec["size"], spec["style"])
        return t, _text_expected(t)
    if kind == "json":
        o = spec["lit"] if "lit" in spec else _gen_obj(spec["seed"], spec["size"], spec["style"])
        return o, _json_expected(o)
    raise ValueError(kind)


def _payload(spec: dict) -> Dict[str, Any]:
    if "lit" in spec:
        return {"version_etag": "lit", "lit": spec["lit"], "store": {}}
    o = _gen_obj(spec["seed"], spec["size"], spec["style"])
    return {"version_etag": f"v{spec['seed']}", "store": {f"k{i['id']}": i for i in o["items"]}, "n": len(o["items"])}


def _state(spec: dict) -> Tuple[dict, str, list]:
    if "lit" in spec:
        return {"graph": {"nodes": {"lit": {"id": "lit", "label": spec["lit"]}}, "edges": {}}}, "lit", []
    rng = random.Random(spec["seed"] * 31 + spec["size"])
    n_edges = spec["size"] // 110
    nodes = {f"n{i}": {"id": f"n{i}", "label": _gen_text(rng.randrange(1 << 30), 8, spec["style"])}
             for i in range(min(40, n_edges + 1))}
    edges = {}
    for i in range(n_edges):
        a, b = f"n{i}", f"m{rng.randrange(1 << 20)}"
        edges[f"{a}__{b}__coact"] = {"src": a, "dst": b, "rel": "coact", "weight": rng.randrange(-100, 100) / 100.0,
                                     "updated_at": None, "attrs": {}}
    deltas = [SimpleNamespace(target_kind="node", target_id=f"n{i}", attr="weight", delta=0.125 * i, op_idx=i, idx=i)
              for i in range(rng.randrange(0, 3))]
    return {"graph": {"nodes": nodes, "edges": edges}}, f"v{spec['seed']}", deltas


def _records(spec: dict) -> List[dict]:
    if "lit" in spec:
        return [{"turn": 0, "ms": 1.25, "lit": spec["lit"]}]
    rng = random.Random(spec["seed"] * 17 + spec["size"])
    out = []
    n = 0
    while n < spec["size"]:
        r = {"turn": len(out), "ms": rng.random(), "now": "2020-01-01T00:00:00Z", "agent": "a1",
             "text": _gen_text(rng.randrange(1 << 30), rng.randrange(3, 50), spec["style"])}
        out.append(r)
        n += len(r["text"]) + 70
    return out


# ------------------------------------------------------------------------------------------------ prepared cases


class Dest:
    def __init__(self, name: str, role: str, old: Optional[bytes], new: bytes, old_mode: Optional[int]):
        self.name, self.role, self.old, self.new, self.old_mode = name, role, old, new, old_mode


class Env:
    """One prepared case: sandbox, work directory `w` with its initial files, destinations, the call."""

    def __init__(self, case: dict, base_dir: Optional[str] = None):
        self.case = case
        self.target = case["target"]
        self.sandbox = tempfile.mkdtemp(prefix="c08_", dir=base_dir)
        self.w = os.path.join(self.sandbox, "w")
        os.mkdir(self.w)
        self.dests: List[Dest] = []
        self.initial: Dict[str, Tuple[bytes, int]] = {}
        self.call: Callable[[], Any] = lambda: None
        # a later, fault-free, much SHORTER write to the same destination(s): (call, {dest name: expected bytes})
        self.follow: Optional[Tuple[Callable[[], Any], Dict[str, bytes]]] = None
        self.suffixes: Tuple[str, ...] = ()
        self._env_saved = {k: os.environ.get(k) for k in ("CLEMATIS_LOG_DIR", "CLEMATIS_SNAPSHOT_DIR")}
        os.environ["CLEMATIS_SNAPSHOT_DIR"] = self.scratch("snapenv")
        os.environ["CLEMATIS_LOG_DIR"] = self.scratch("logenv")

    def scratch(self, name: str) -> str:
        p = os.path.join(self.sandbox, name)
        os.makedirs(p, exist_ok=True)
        return p

    def put(self, name: str, data: bytes, mode: int = 0o644) -> None:
        p = os.path.join(self.w, name)
        if os.path.lexists(p):
            os.unlink(p)
        with open(p, "wb") as f:
            f.write(data)
        os.chmod(p, mode)
        self.initial[name] = (data, mode)

    def seal(self) -> None:
        """Take the initial picture of `w` (after the target's set-up wrote bystanders through the real code)."""
        self.initial = self.observe()

    def observe(self) -> Dict[str, Tuple[bytes, int]]:
        out = {}
        for n in sorted(os.listdir(self.w)):
            p = os.path.join(self.w, n)
            st = os.lstat(p)
            if _stat.S_ISREG(st.st_mode):
                with open(p, "rb") as f:
                    out[n] = (f.read(), _stat.S_IMODE(st.st_mode))
            else:
                out[n] = (b"<not a regular file>", _stat.S_IMODE(st.st_mode))
        return out

    def reset(self, obs: Dict[str, Tuple[bytes, int]]) -> None:
        for n in obs:
            if n not in self.initial:
                p = os.path.join(self.w, n)
                shutil.rmtree(p) if os.path.isdir(p) and not os.path.islink(p) else os.unlink(p)
        for n, (b, m) in self.initial.items():
            if obs.get(n) != (b, m):
                self.put(n, b, m)

    @property
    def dest_names(self):
        return {d.name for d in self.dests}

    def close(self) -> None:
        for k, v in self._env_saved.items():
            if v is None:
                os.environ.pop(k, None)
            else:
                os.environ[k] = v
        shutil.rmtree(self.sandbox, ignore_errors=True)


OLD_SIDECAR = b'{"created_at": "1979-12-31T00:00:00Z", "schema_version": "v0"}\n'


def _read(p: str) -> bytes:
    with open(p, "rb") as f:
        return f.read()


FOLLOW = {"lit": "7a"}  # the payload of the follow-up write (a few bytes in every target's encoding)


def prepare(case: dict, base_dir: Optional[str] = FAST_TMP) -> Env:
    """Build the sandbox for a case: {"target","old":spec|None,"new":spec,"perm":int,"pathstyle":"str"|"path"}."""
    import importlib
    A = importlib.import_module(A_MOD)
    env = Env(case, base_dir)
    try:
        t, perm = case["target"], int(case.get("perm", 0o644))
        old_spec, new_spec = case.get("old"), case["new"]
        if t in ("bytes", "text", "json"):
            name = {"bytes": "blob.bin", "text": "note.txt", "json": "export.json"}[t]
            arg, new = materialize_simple(t, new_spec)
            old = materialize_simple(t, old_spec)[1] if old_spec is not None else None
            if old is not None:
                env.put(name, old, perm)
            env.put("other.bin", b"bystander", 0o640)
            path = os.path.join(env.w, name)
            parg = pathlib.Path(path) if case.get("pathstyle") == "path" else path
            fn = {"bytes": A.atomic_write_bytes, "text": A.atomic_write_text, "json": A.atomic_write_json}[t]
            env.call = lambda: fn(parg, arg)
            f_arg, f_new = materialize_simple(t, FOLLOW)
            env.follow = (lambda: fn(parg, f_arg), {name: f_new})
            env.dests = [Dest(name, "body", old, new, perm if old is not None else None)]
            env.suffixes = (".json",) if t == "json" else ()
        elif t == "snapshot":
            from clematis.engine import snapshot as S

            def ctx_for(d):
                return SimpleNamespace(cfg=None, config={"t4": {"snapshot_dir": d}}, agent_id="a1", turn_id=7)

            def ref(spec, sub):
                st, etag, dl = _state(spec)
                d = env.scratch(sub)
                p = S.write_snapshot(ctx_for(d), st, etag, applied=len(dl), deltas=dl)
                body = _read(p)
                if json.loads(body).get("version_etag") != etag:
                    raise Violation("fault-free write_snapshot body does not carry the version etag", case, "baseline")
                return body, _read(p + ".meta")

            new_body, new_meta = ref(new_spec, "r_new")
            old_body = None
            if old_spec is not None:
                old_body, _ = ref(old_spec, "r_old")
                env.put("state_a1.json", old_body, perm)
                env.put("state_a1.json.meta", OLD_SIDECAR, 0o644)
            env.put("state_b2.json", b'{"schema_version":"v1","version_etag":"other"}', 0o644)
            st, etag, dl = _state(new_spec)
            env.call = lambda: S.write_snapshot(ctx_for(env.w), st, etag, applied=len(dl), deltas=dl)
            f_body, f_meta = ref(FOLLOW, "r_follow")
            fst, fetag, fdl = _state(FOLLOW)
            env.follow = (lambda: S.write_snapshot(ctx_for(env.w), fst, fetag, applied=len(fdl), deltas=fdl),
                          {"state_a1.json": f_body, "state_a1.json.meta": f_meta})
            env.dests = [Dest("state_a1.json", "body", old_body, new_body, perm if old_body is not None else None),
                         Dest("state_a1.json.meta", "sidecar", OLD_SIDECAR if old_body is not None else None, new_meta,
                              0o644 if old_body is not None else None)]
            env.suffixes = (".json", ".json.zst")
        elif t in ("delta", "full"):
            from clematis.engine import snapshot as S
            base_p = {"version_etag": "e1", "store": {"k0": {"id": 0, "s": "base", "w": 1.0}}, "n": 1}
            dmode = t == "delta"
            name = "snapshot-e2.delta.json" if dmode else "snapshot-e2.full.json"

            def ref(spec, sub):
                d = env.scratch(sub)
                S.write_snapshot_auto(d, etag_from=None, etag_to="e1", payload=base_p)
                p, wrote_delta = S.write_snapshot_auto(d, etag_from="e1", etag_to="e2", payload=_payload(spec),
                                                       delta_mode=dmode)
                if os.path.basename(p) != name or wrote_delta != dmode:
                    raise Violation(f"fault-free write_snapshot_auto wrote {p} delta={wrote_delta}", case, "baseline")
                return _read(p), _read(p + ".meta")

            new_body, new_meta = ref(new_spec, "r_new")
            S.write_snapshot_auto(env.w, etag_from=None, etag_to="e1", payload=base_p)
            env.seal()
            old_body = None
            if old_spec is not None:
                old_body, _ = ref(old_spec, "r_old")
                env.put(name, old_body, perm)
                env.put(name + ".meta", OLD_SIDECAR, 0o644)
            new_p = _payload(new_spec)
            env.call = lambda: S.write_snapshot_auto(env.w, etag_from="e1", etag_to="e2", payload=new_p, delta_mode=dmode)
            f_body, f_meta = ref(FOLLOW, "r_follow")
            f_p = _payload(FOLLOW)
            env.follow = (lambda: S.write_snapshot_auto(env.w, etag_from="e1", etag_to="e2", payload=f_p, delta_mode=dmode),
                          {name: f_body, name + ".meta": f_meta})
            env.dests = [Dest(name, "body", old_body, new_body, perm if old_body is not None else None),
                         Dest(name + ".meta", "sidecar", OLD_SIDECAR if old_body is not None else None, new_meta,
                              0o644 if old_body is not None else None)]
            env.suffixes = (".json", ".json.zst")
        elif t == "jsonl":
            from clematis.io import log as L
            recs = _records(new_spec)
            os.environ["CLEMATIS_LOG_DIR"] = env.scratch("r_new")
            L.rewrite_jsonl("t1.jsonl", recs)
            new = _read(os.path.join(env.sandbox, "r_new", "t1.jsonl"))
            if [json.loads(x).get("turn") for x in new.decode("utf-8").split("\n") if x] != [r["turn"] for r in recs]:
                raise Violation("fault-free rewrite_jsonl does not hold one line per record", case, "baseline")
            f_recs = _records(FOLLOW)
            os.environ["CLEMATIS_LOG_DIR"] = env.scratch("r_follow")
            L.rewrite_jsonl("t1.jsonl", f_recs)
            f_new = _read(os.path.join(env.sandbox, "r_follow", "t1.jsonl"))
            os.environ["CLEMATIS_LOG_DIR"] = env.w
            old = None
            if old_spec is not None:
                old = "".join(json.dumps(r, ensure_ascii=False) + "\n" for r in _records(old_spec)).encode("utf-8")
                env.put("t1.jsonl", old, perm)
            env.put("t1.jsonl.1", b'{"turn":-1,"rotated":true}\n', 0o644)
            env.put("t2.jsonl", b'{"turn":0}\n', 0o644)

            def call_jsonl():
                os.environ["CLEMATIS_LOG_DIR"] = env.w
                L.rewrite_jsonl("t1.jsonl", recs)
            env.call = call_jsonl

            def follow_jsonl():
                os.environ["CLEMATIS_LOG_DIR"] = env.w
                L.rewrite_jsonl("t1.jsonl", f_recs)
            env.follow = (follow_jsonl, {"t1.jsonl": f_new})
            env.dests = [Dest("t1.jsonl", "body", old, new, perm if old is not None else None)]
            env.suffixes = (".jsonl",)
        else:
            raise ValueError(f"unknown target {t!r}")
        return env
    except BaseException:
        env.close()
        raise


# ------------------------------------------------------------------------------------------------ oracle


def _describe(content: Optional[bytes], d: Dest) -> str:
    if content is None:
        return "absent"
    for nm, ref in (("new", d.new), ("old", d.old)):
        if ref is not None and len(content) < len(ref) and ref.startswith(content):
            return f"truncated-{nm}"
    return "other"


def _case_of(env: Env, i: Optional[int], op: str, fault: str) -> dict:
    c = dict(env.case)
    c.update({"step": i, "step_op": op, "fault": fault})
    return c


def judge(env: Env, i: Optional[int], op: str, fault: F.Fault, res: F.ChildResult, obs: Dict[str, Tuple[bytes, int]],
          rec, realfault: str = "") -> List[str]:
    """Raise Violation when the observed directory breaks the property. Returns labels."""
    fname = realfault or fault.name
    case = _case_of(env, i, op, fname)
    where = f"target={env.target} step={i}:{op} fault={fname} outcome={res.outcome}" + \
            (f" exc={res.exc['type']}(errno={res.exc['errno']})" if res.exc else "")
    tail = f" | trace: {' '.join(res.trace(24))}" if res.steps else ""
    labels = [f"outcome={res.outcome}"]
    dest_names = env.dest_names
    leftovers = sorted(n for n in obs if n not in env.initial and n not in dest_names)

    # 1. bystanders never change
    for n, v in env.initial.items():
        if n not in dest_names and obs.get(n) != v:
            raise Violation(f"{where}: unrelated file {n!r} was {'removed' if n not in obs else 'modified'}{tail}", case,
                            "bystander")

    # 2. all-or-nothing on every destination
    state = {}
    for d in env.dests:
        cur = obs.get(d.name)
        content = cur[0] if cur is not None else None
        if content == d.new:
            state[d.role] = "new"
        elif content == d.old:
            state[d.role] = "old"
        else:
            what = _describe(content, d)
            short_like = fault.kind == "short" or realfault.startswith("rlimit")
            if short_like and res.outcome == "ok" and what == "truncated-new" and rec is not None and rec.is_known(KNOWN_SHORT):
                state[d.role] = "known-truncated"
                labels.append("known:" + KNOWN_SHORT)
                continue
            sig = "short-write" if (short_like and what == "truncated-new" and res.outcome == "ok") else f"partial:{d.role}:{what}"
            raise Violation(
                f"{where}: destination {d.name} is neither the complete old nor the complete new content: {what} "
                f"(len {None if content is None else len(content)}, old {None if d.old is None else len(d.old)}, "
                f"new {len(d.new)}){tail}", case, sig)
    labels.append("body=" + state.get("body", "?"))

    # 3. a call that returned has written the new content everywhere
    #    (a sidecar is written fail-soft: under an injected error it may legitimately stay old — only the
    #    fault-free run must refresh it)
    if res.outcome == "ok":
        for d in env.dests:
            if d.role != "body" and (fault.kind != "none" or realfault):
                continue
            if state[d.role] == "old" and d.old != d.new:
                raise Violation(f"{where}: call returned normally but {d.name} still holds the old content{tail}", case,
                                f"ok-not-new:{d.role}")
    # 4. sidecar failure never fails the snapshot write
    if res.outcome == "exc" and len(env.dests) > 1:
        body = env.dests[0]
        if state["body"] == "new" and body.old != body.new:
            raise Violation(f"{where}: body {body.name} was replaced but the call raised (a sidecar/durability failure "
                            f"must not fail the snapshot write){tail}", case, "sidecar-fails-write")
    # 5. no temp file after a call that returned or raised
    if res.outcome != "killed" and leftovers:
        empties = all(obs[n][0] == b"" for n in leftovers)
        if (op == "tmpf.close" and fault.kind in ("raise", "transient") and empties and rec is not None
                and rec.is_known(KNOWN_TMPCLOSE)):
            labels.append("known:" + KNOWN_TMPCLOSE)
        else:
            sig = "tmp-close-leak" if (op == "tmpf.close" and empties) else f"leftover:{res.outcome}"
            raise Violation(f"{where}: temp file(s) {leftovers} left behind after the call "
                            f"{'returned' if res.outcome == 'ok' else 'propagated a failure'}{tail}", case, sig)
    # 6. discovery never selects a temp (any outcome)
    if leftovers:
        from clematis.engine.snapshot import _pick_latest_snapshot_path
        from clematis.scripts.rotate_logs import iter_targets
        pick = _pick_latest_snapshot_path(env.w)
        if pick is not None and os.path.basename(pick) in leftovers:
            raise Violation(f"{where}: _pick_latest_snapshot_path selects the temp file {os.path.basename(pick)}{tail}",
                            case, "discovery-picks-temp")
        hit = sorted(set(os.path.basename(p) for p in iter_targets(env.w, "*.jsonl")) & set(leftovers))
        if hit:
            raise Violation(f"{where}: the *.jsonl rotation glob selects temp file(s) {hit}{tail}", case,
                            "log-glob-picks-temp")
        bad = [n for n in leftovers if n.endswith(env.suffixes)] if env.suffixes else []
        if bad:
            raise Violation(f"{where}: temp file(s) {bad} carry a name that snapshot/log discovery patterns "
                            f"({'/'.join('*' + s for s in env.suffixes)}) accept{tail}", case, "temp-name-looks-real")
        labels.append("leftover-present")
    # 7. documented retry of transient sharing/permission errors on replace
    if fault.kind == "transient" and op == "replace" and res.outcome != "ok":
        raise Violation(f"{where}: {fault.times} transient {fault.err} failure(s) of os.replace were not retried to "
                        f"success (documented: retried, retries=80){tail}", case, "transient-replace-not-retried")
    # 8. permission bits
    for d in env.dests:
        cur = obs.get(d.name)
        if cur is None:
            continue
        if state[d.role] == "old" and d.old != d.new and cur[1] != d.old_mode:
            raise Violation(f"{where}: old {d.name} kept its content but its mode changed {oct(d.old_mode)} -> "
                            f"{oct(cur[1])}{tail}", case, "perm-old-changed")
        if res.outcome == "ok" and state[d.role] == "new" and op not in ("stat", "chmod") and fault.kind != "short" \
                and not realfault:
            want = d.old_mode if d.old_mode is not None else 0o644
            if cur[1] != want:
                raise Violation(f"{where}: {d.name} written with mode {oct(cur[1])}, documented "
                                f"{'preserved ' if d.old_mode is not None else 'default '}{oct(want)}{tail}", case, "perm")
    return labels


def baseline(env: Env) -> F.ChildResult:
    import importlib
    mods = [importlib.import_module(A_MOD)]
    res = F.run_forked(env.call, mods)
    obs = env.observe()
    if res.outcome != "ok":
        raise Violation(f"fault-free {env.target} write raised {res.exc}", _case_of(env, None, "-", "none"), "baseline")
    judge(env, None, "-", F.Fault(), res, obs, None)
    env.reset(obs)
    return res


def inject(env: Env, base: F.ChildResult, i: int, fname: str, rec, fork_errors: bool = True) -> Tuple[F.ChildResult, List[str]]:
    """One injection. Kills always run in a forked child; failing calls do too unless fork_errors is False (then the
    proxies are installed in-process and removed again — same injector, no process death needed)."""
    import importlib
    mods = [importlib.import_module(A_MOD)]
    fault = F.Fault.parse(fname)
    if fault.is_kill or fork_errors:
        res = F.run_forked(env.call, mods, at=i, fault=fault)
    else:
        res = F.run_inproc(env.call, mods, at=i, fault=fault)
    obs = env.observe()
    try:
        labels = judge(env, i, base.steps[i][0], fault, res, obs, rec)
        if res.outcome in ("killed", "exc") and env.follow is not None:
            # fault SEQUENCE: the failed/killed write is followed — in the directory as it was left — by a fault-free,
            # shorter write to the same destination; it must produce exactly its own content and no new debris
            obs = follow_up(env, i, base.steps[i][0], fname, res, obs)
            labels.append("follow-up-after=" + res.outcome)
    finally:
        env.reset(env.observe())
    return res, labels


def follow_up(env: Env, i: int, op: str, fname: str, res: F.ChildResult, before: Dict[str, Tuple[bytes, int]]):
    case = dict(_case_of(env, i, op, fname), follow=True)
    where = f"target={env.target} step={i}:{op} fault={fname} outcome={res.outcome}, then a fault-free write of a short payload"
    call, expected = env.follow
    try:
        call()
    except Exception as e:
        obs2 = env.observe()
        raise Violation(f"{where}: the later write raised {type(e).__name__}: {e}", case, "follow-raises")
    obs2 = env.observe()
    for n, exp in expected.items():
        got = obs2.get(n)
        if got is None or got[0] != exp:
            g = None if got is None else got[0]
            what = ("missing" if g is None else "own content followed by bytes of the earlier, interrupted write"
                    if g.startswith(exp) and len(g) > len(exp) else "other content")
            raise Violation(f"{where}: {n} holds {what} (len {None if g is None else len(g)}, expected exactly the "
                            f"{len(exp)} bytes just written)", case, "follow-wrong-content")
    for n, v in env.initial.items():
        if n not in env.dest_names and obs2.get(n) != v:
            raise Violation(f"{where}: unrelated file {n!r} changed", case, "follow-bystander")
    new_left = sorted(n for n in obs2 if n not in before and n not in env.dest_names and n not in env.initial)
    if new_left:
        raise Violation(f"{where}: the later write returned and left new temp file(s) {new_left}", case, "follow-leftover")
    return obs2


def first_temp_index(steps) -> int:
    for k, (op, _d, _p) in enumerate(steps):
        if op == "mktemp":
            return k
    return 0


def enumerate_case(case: dict, rec, on_violation: Optional[Callable[[Violation], None]], counter: List[int],
                   shard: int = 0, nshards: int = 1, fork_errors: bool = True) -> None:
    """Baseline + every (step x fault) of one case. With on_violation=None the first Violation propagates."""
    try:
        env = prepare(case)
    except Violation as v:  # the fault-free reference write itself is broken
        if on_violation is None:
            raise
        on_violation(v)
        return
    try:
        try:
            base = baseline(env)
        except Violation as v:
            if on_violation is None:
                raise
            on_violation(v)
            return
        S = len(base.steps)
        t0 = first_temp_index(base.steps)
        oldp = case.get("old") is not None
        sc = f"{size_class(case.get('old'))}->{size_class(case['new'])}"
        if rec is not None:
            rec.note(f"steps.{env.target}", [op for op, _d, _p in base.steps])
        for i in range(S):
            op, _detail, has_partial = base.steps[i]
            for fname in F.fault_kinds(has_partial):
                k = counter[0]
                counter[0] += 1
                if k % nshards != shard:
                    continue
                try:
                    res, labels = inject(env, base, i, fname, rec, fork_errors)
                except Violation as v:
                    if on_violation is None:
                        raise
                    on_violation(v)
                    if rec is not None:
                        rec.case(nontrivial=False, labels=["violating"])
                    continue
                if rec is not None:
                    nt = i > t0
                    fk = fname.split(":")[0]
                    rec.case(nontrivial=nt, dig=digest([env.target, op, i, fname, oldp, sc]),
                             labels=labels + [f"target={env.target}", f"op={op}", f"fault={fk}", f"class={sc}"],
                             sample={"target": env.target, "class": sc, "perm": oct(case.get("perm", 0o644)), "step": i,
                                     "op": op, "fault": fname, "outcome": res.outcome, "of_steps": S} if nt and (k % 97 == 5) else None)
    finally:
        env.close()


# ------------------------------------------------------------------------------------------------ sub-check: faults


def _g(size: int, seed: int, style: str = "unicode") -> dict:
    return {"seed": seed, "size": size, "style": style}


def matrix(depth: str) -> List[dict]:
    small_new = {"bytes": _g(37, 1, "binary"), "text": _g(300, 2, "crlf"), "json": _g(200, 3), "snapshot": _g(400, 4),
                 "delta": _g(300, 5), "full": _g(300, 5), "jsonl": _g(400, 6)}
    style = {"bytes": "binary", "text": "crlf", "json": "unicode", "snapshot": "unicode", "delta": "unicode",
             "full": "unicode", "jsonl": "crlf"}
    out = []
    if depth == "quick":
        targets = TARGETS[:6]
        classes = [("absent", "small", 0o644), ("small", "big", 0o600), ("big", "small", 0o444)]
    else:
        targets = TARGETS[:6]
        classes = [(o, n, p) for o in ("absent", "small", "big") for n in ("small", "big") for p in (0o644,)] + \
                  [("small", "small", 0o600), ("big", "big", 0o444), ("small", "empty", 0o664), ("empty", "small", 0o640)]
    for ti, t in enumerate(targets):
        for ci, (o, n, p) in enumerate(classes):
            def spec(cls, salt):
                if cls == "absent":
                    return None
                if cls == "small":
                    s = dict(small_new[t])
                    s["seed"] += salt
                    return s
                if cls == "empty":
                    return _g(0, 9 + salt, style[t])
                return _g(BIG, 11 + salt + ti, style[t])
            out.append({"target": t, "old": spec(o, 100), "new": spec(n, 0), "perm": p,
                        "pathstyle": "path" if (ti + ci) % 2 else "str"})
    return out


def sub_faults(rec, seed, shard, nshards, depth="quick", max_sigs=12, fork_errors=False):
    counter = [0]
    sigs: Dict[str, int] = {}

    def on_v(v: Violation):
        sigs[v.sig] = sigs.get(v.sig, 0) + 1
        if sigs[v.sig] == 1 and len(sigs) <= max_sigs:
            rec.violation(v.message, v.case, v.sig)

    cases = matrix(depth)
    for case in cases:
        enumerate_case(case, rec, on_v, counter, shard, nshards, fork_errors)
    rec.note("cases", len(cases))
    rec.note("injections_total", counter[0])


def replay_fault(case):
    """Re-execute one saved (case, step, fault) — or the whole enumeration of the case when no step is given.
    The step is addressed by index; when the step layout changed since the file was saved (other operation at that
    index) every step of the saved operation kind is tried instead."""
    case = dict(case)
    step, fname, op = case.pop("step", None), case.pop("fault", None), case.pop("step_op", None)
    if fname and fname.startswith("rlimit"):
        return _rlimit_one(case, int(fname.split(":")[1]), None)
    if step is None or fname in (None, "none"):
        return enumerate_case(case, None, None, [0])
    env = prepare(case)
    try:
        base = baseline(env)
        ops = [s[0] for s in base.steps]
        if 0 <= int(step) < len(ops) and (op is None or ops[int(step)] == op):
            idxs = [int(step)]
        else:
            idxs = [k for k, o in enumerate(ops) if o == op]
        for k in idxs:
            if fname in F.fault_kinds(base.steps[k][2]):
                inject(env, base, k, fname, None)
    finally:
        env.close()


# ------------------------------------------------------------------------------------------------ sub-check: gen


def _strategies():
    from hypothesis import strategies as st
    js = st.recursive(st.one_of(st.none(), st.booleans(), st.integers(-10**6, 10**6),
                                st.floats(allow_nan=False, allow_infinity=False, width=32), st.text(max_size=12)),
                      lambda ch: st.one_of(st.lists(ch, max_size=4), st.dictionaries(st.text(max_size=6), ch, max_size=4)),
                      max_leaves=12)
    eolish = st.text(alphabet=st.sampled_from(list("ab \r\n\r\n\tÄ汉😀 \x00\"\\")), max_size=60)

    def spec_for(t):
        gen = st.fixed_dictionaries({"seed": st.integers(0, 1 << 16),
                                     "size": st.one_of(st.just(BIG), st.sampled_from([0, 1, 2, 4096, 65537, BIG + 1]),
                                                       st.integers(1, 3000), st.integers(1, 3000)),
                                     "style": st.sampled_from(["ascii", "unicode", "crlf"] + (["binary"] if t == "bytes" else []))})
        if t == "bytes":
            lit = st.binary(max_size=64).map(lambda b: {"lit": b.hex()})
        elif t == "text":
            lit = st.one_of(eolish, st.text(max_size=40)).map(lambda s: {"lit": s})
        else:
            lit = js.map(lambda o: {"lit": o})
        return st.one_of(gen, gen, lit)

    @st.composite
    def cases(draw):
        t = draw(st.sampled_from(TARGETS))
        new = draw(spec_for(t))
        old = draw(st.one_of(st.none(), spec_for(t), spec_for(t)))
        return {"target": t, "old": old, "new": new, "perm": draw(st.sampled_from([0o644, 0o600, 0o444, 0o664, 0o640, 0o755])),
                "pathstyle": draw(st.sampled_from(["str", "path"]))}

    return cases()


def sub_gen(rec, seed, shard, nshards, n=3, shrink=False, fork_errors=True):
    def body(case):
        enumerate_case(case, rec, None, [0], fork_errors=fork_errors)
        rec.label(f"case.target={case['target']}")
        rec.label(f"case.class={size_class(case['old'])}->{size_class(case['new'])}")

    run_hypothesis(rec, seed, _strategies(), body, max_examples=n, shrink=shrink, name="gen")


# ------------------------------------------------------------------------------------------------ sub-check: rlimit


def _rlimit_one(case: dict, limit: int, rec) -> None:
    import resource
    import signal

    def prep():
        signal.signal(signal.SIGXFSZ, signal.SIG_IGN)
        resource.setrlimit(resource.RLIMIT_FSIZE, (limit, limit))

    env = prepare(case)
    try:
        res = F.run_forked(env.call, [], prepare=prep)
        obs = env.observe()
        labels = judge(env, None, "write(2)", F.Fault(), res, obs, rec, realfault=f"rlimit:{limit}")
        if rec is not None:
            rec.case(nontrivial=True, dig=digest([case, limit]), labels=labels + [f"target={env.target}"],
                     sample={"target": env.target, "rlimit_fsize": limit, "outcome": res.outcome,
                             "new_len": len(env.dests[0].new)})
    finally:
        env.close()


def sub_rlimit(rec, seed, shard, nshards, targets=("bytes", "text", "json", "snapshot", "delta", "jsonl")):
    k = 0
    for ti, t in enumerate(targets):
        for o in (None, _g(500, 21 + ti, "ascii")):
            case = {"target": t, "old": o, "new": _g(BIG, 31 + ti, "binary" if t == "bytes" else "ascii"), "perm": 0o644,
                    "pathstyle": "str"}
            for limit in (0, 1, 4096, 100_000, 150_001):
                k += 1
                if k % nshards != shard:
                    continue
                try:
                    _rlimit_one(case, limit, rec)
                except Violation as v:
                    rec.violation(v.message, v.case, v.sig)
                    return


# ------------------------------------------------------------------------------------------------ sub-check: readers


def _reader_loop(path: str, a: bytes, b: bytes, stop: Callable[[], bool], out: dict) -> None:
    reads = na = nb = switches = 0
    last = None
    bad = None
    while not stop():
        try:
            with open(path, "rb") as f:
                data = f.read()
        except FileNotFoundError:
            bad = {"kind": "absent", "read_no": reads}
            break
        reads += 1
        if data == a:
            cur = "A"
            na += 1
        elif data == b:
            cur = "B"
            nb += 1
        else:
            pa = "prefix-of-A" if a.startswith(data) else ("prefix-of-B" if b.startswith(data) else "mixed")
            bad = {"kind": pa, "len": len(data), "read_no": reads}
            break
        if last is not None and cur != last:
            switches += 1
        last = cur
    out.update({"reads": reads, "A": na, "B": nb, "switches": switches, "bad": bad})


def readers_case(case: dict, rec) -> None:
    """case: {"target", "a": spec, "b": spec, "rounds": int}"""
    t = case["target"]
    ea = prepare({"target": t, "old": None, "new": case["a"], "perm": 0o644, "pathstyle": "str"}, base_dir=None)
    rpid = None
    try:
        eb = prepare({"target": t, "old": None, "new": case["b"], "perm": 0o644, "pathstyle": "str"}, base_dir=None)
        try:  # B only supplies its reference content and a writer re-pointed at A's work directory
            contents = [ea.dests[0].new, eb.dests[0].new]
            call_b = _retarget(eb, ea)
        finally:
            eb.close()
        call_a = ea.call
        if t == "jsonl":
            os.environ["CLEMATIS_LOG_DIR"] = ea.w
        dest = os.path.join(ea.w, ea.dests[0].name)
        call_a()
        if _read(dest) != contents[0]:
            raise Violation(f"readers/{t}: fault-free write did not produce the expected content", case, "baseline")
        ctl_r, ctl_w = os.pipe()
        res_r, res_w = os.pipe()
        rpid = os.fork()
        if rpid == 0:
            code = 70
            try:
                os.close(ctl_w)
                os.close(res_r)
                out: dict = {}
                _reader_loop(dest, contents[0], contents[1], lambda: bool(select.select([ctl_r], [], [], 0)[0]), out)
                os.write(res_w, json.dumps(out).encode())
                code = 0
            finally:
                os._exit(code)
        os.close(ctl_r)
        os.close(res_w)
        stop_flag = {"v": False}
        tout: dict = {}
        th = threading.Thread(target=_reader_loop, args=(dest, contents[0], contents[1], lambda: stop_flag["v"], tout))
        th.start()
        werr = None
        try:
            for i in range(int(case["rounds"])):
                (call_b if i % 2 == 0 else call_a)()
        except Exception as e:  # the writer must not fail on an undisturbed file system
            werr = e
        finally:
            stop_flag["v"] = True
            th.join()
            os.close(ctl_w)
            chunks = []
            while True:
                bts = os.read(res_r, 65536)
                if not bts:
                    break
                chunks.append(bts)
            os.close(res_r)
            _, status = os.waitpid(rpid, 0)
            rpid = None
        if werr is not None:
            raise Violation(f"readers/{t}: writer raised {type(werr).__name__}: {werr}", case, "readers-writer-raised")
        if os.waitstatus_to_exitcode(status) != 0:
            raise RuntimeError(f"reader process failed: status {status}")
        pout = json.loads(b"".join(chunks))
        for who, o in (("thread", tout), ("process", pout)):
            if o.get("bad"):
                kind = o["bad"]["kind"]
                raise Violation(f"readers/{t}: concurrent reader {who} observed a {kind} destination "
                                f"({o['bad']}; |A|={len(contents[0])}, |B|={len(contents[1])}) after {o['reads']} reads",
                                case, "reader-absent" if kind == "absent" else "reader-partial")
        final = _read(dest)
        n_rounds = int(case["rounds"])
        want = contents[0] if n_rounds == 0 or (n_rounds - 1) % 2 == 1 else contents[1]
        if final != want:
            raise Violation(f"readers/{t}: final content is not the last one written", case, "readers-final")
        extra = sorted(set(os.listdir(ea.w)) - set(ea.initial) - ea.dest_names)
        if extra:
            raise Violation(f"readers/{t}: temp files left after undisturbed writes: {extra}", case, "leftover:ok")
        if rec is not None:
            both = (tout["A"] > 0 and tout["B"] > 0) or (pout["A"] > 0 and pout["B"] > 0)
            rec.case(nontrivial=both, dig=digest(case), labels=[f"target={t}", "both-seen" if both else "one-seen"],
                     sample={"target": t, "rounds": case["rounds"], "lenA": len(contents[0]), "lenB": len(contents[1]),
                             "thread": {k: tout[k] for k in ("reads", "A", "B", "switches")},
                             "process": {k: pout[k] for k in ("reads", "A", "B", "switches")}})
            rec.label("reads.thread", tout["reads"])
            rec.label("reads.process", pout["reads"])
            rec.label("switches_seen", tout["switches"] + pout["switches"])
    finally:
        if rpid is not None:
            try:
                os.kill(rpid, 9)
            except OSError:
                pass
            os.waitpid(rpid, 0)
        ea.close()


def _retarget(eb: Env, ea: Env) -> Callable[[], Any]:
    """B's writer pointed at A's work directory (same destination name by construction)."""
    case = dict(eb.case)
    import importlib
    A = importlib.import_module(A_MOD)
    t = case["target"]
    if t in ("bytes", "text", "json"):
        arg, _ = materialize_simple(t, case["new"])
        fn = {"bytes": A.atomic_write_bytes, "text": A.atomic_write_text, "json": A.atomic_write_json}[t]
        path = os.path.join(ea.w, ea.dests[0].name)
        return lambda: fn(path, arg)
    if t == "snapshot":
        from clematis.engine import snapshot as S
        st, etag, dl = _state(case["new"])
        ctx = SimpleNamespace(cfg=None, config={"t4": {"snapshot_dir": ea.w}}, agent_id="a1", turn_id=7)
        return lambda: S.write_snapshot(ctx, st, etag, applied=len(dl), deltas=dl)
    if t in ("delta", "full"):
        from clematis.engine import snapshot as S
        p = _payload(case["new"])
        return lambda: S.write_snapshot_auto(ea.w, etag_from="e1", etag_to="e2", payload=p, delta_mode=(t == "delta"))
    if t == "jsonl":
        from clematis.io import log as L
        recs = _records(case["new"])

        def call():
            os.environ["CLEMATIS_LOG_DIR"] = ea.w
            L.rewrite_jsonl("t1.jsonl", recs)
        return call
    raise ValueError(t)


def sub_readers(rec, seed, shard, nshards, rounds=200, per_target=1):
    rng = random.Random(seed)
    k = 0
    for t in ("bytes", "text", "json", "snapshot", "delta", "jsonl"):
        for j in range(per_target):
            k += 1
            sa, sb = rng.randrange(1 << 16), rng.randrange(1 << 16)
            sizes = [(BIG, 3000), (BIG, BIG + 4096), (70_000, BIG)][(k + j) % 3]
            if k % nshards != shard:
                continue
            style = "binary" if t == "bytes" else "crlf"
            case = {"target": t, "a": _g(sizes[0], sa, style), "b": _g(sizes[1], sb, style), "rounds": rounds}
            try:
                readers_case(case, rec)
            except Violation as v:
                rec.violation(v.message, v.case, v.sig)
                return


def replay_readers(case):
    # schedules are sampled: repeat a few times so a saved failure has a fair chance to show again
    for _ in range(5):
        readers_case(case, None)


# ------------------------------------------------------------------------------------------------ known-finding probes


def probe_short_write() -> bool:
    """True while a short raw write still yields a truncated destination with a normal return (proxy + real kernel)."""
    for fn in (lambda: replay_fault({"target": "bytes", "old": _g(50, 1, "ascii"), "new": _g(4000, 2, "ascii"), "perm": 0o644,
                                     "pathstyle": "str", "step": 4, "fault": "short"}),
               lambda: _rlimit_one({"target": "bytes", "old": None, "new": _g(BIG, 2, "ascii"), "perm": 0o644,
                                    "pathstyle": "str"}, 100_000, None)):
        try:
            fn()
        except Violation as v:
            if v.sig == "short-write":
                return True
            # anything else is not this finding: the search itself reports it
    return False


def probe_tmp_close() -> bool:
    case = {"target": "bytes", "old": _g(50, 1, "ascii"), "new": _g(60, 2, "ascii"), "perm": 0o644, "pathstyle": "str"}
    env = prepare(case)
    try:
        base = baseline(env)
        idx = [k for k, s in enumerate(base.steps) if s[0] == "tmpf.close"]
        if not idx:
            return False
        try:
            inject(env, base, idx[0], "raise:EIO", None)
        except Violation as v:
            return v.sig == "tmp-close-leak"  # anything else is not this finding: the search itself reports it
        return False
    except Violation:
        return False
    finally:
        env.close()


KNOWN_PROBES = {KNOWN_SHORT: probe_short_write, KNOWN_TMPCLOSE: probe_tmp_close}

SUBCHECKS = [
    Sub("faults", sub_faults, quick={"depth": "quick"}, thorough={"depth": "thorough"}, shards_quick=4, shards_thorough=16,
        exhaustive=True, replay=replay_fault),
    Sub("gen", sub_gen, quick={"n": 3, "shrink": False}, thorough={"n": 24, "shrink": True}, shards_quick=2,
        shards_thorough=12, exhaustive=True, replay=replay_fault),
    Sub("rlimit", sub_rlimit, quick={}, thorough={}, shards_quick=1, shards_thorough=2, exhaustive=False,
        replay=replay_fault),
    Sub("readers", sub_readers, quick={"rounds": 200, "per_target": 1}, thorough={"rounds": 3000, "per_target": 3},
        shards_quick=2, shards_thorough=6, exhaustive=False, replay=replay_readers),
]
