#!/bin/sh
# tools/quiet_sweep.sh "<seeds>" — quick tier of every registered check at several seeds (+ random hash seed on the last)
cd "$(dirname "$0")/.."
for seed in ${1:-2 3 7 42}; do
  echo "== VERIF_SEED=$seed"
  VERIF_SEED=$seed tools/run_all.sh quick
done
echo "== PYTHONHASHSEED=random VERIF_SEED=5"
PYTHONHASHSEED=random VERIF_SEED=5 tools/run_all.sh quick
