"""C04 — apply commits exactly the approved deltas, once, with version discipline.

(a) `apply_changes` against a recording store double driven by a generated fault script (reference model of the
    documented contract);  (b) histories of real turns (kill switch toggled, store faults per turn, deltas injected
    through the orchestrator's t3_deliberate patch point) with per-turn invariants.
"""
from __future__ import annotations

import copy
import json
import os
from types import SimpleNamespace

from hypothesis import strategies as st

from harness.runner import Sub, Violation, run_hypothesis, digest
from harness import world, observe

LEVEL = "exploration"
RULE = ("(a) Hypothesis-generated approved lists (0-8 deltas) x store behaviour scripts (batch returns a result of "
        "several shapes or raises one of 6 exception types; per-delta raise pattern; store without batch API; no "
        "store) x start version x turn id x cadence x cache-bust mode/namespaces with a preloaded CacheManager; "
        "non-trivial = batch raises with >=2 deltas, or on-apply busting with preloaded namespaces. "
        "(b) histories of 3-8 real turns with per-turn kill switch, store fault and injected proposed deltas; "
        "non-trivial = history with >=1 store failure on a non-empty approved list and >=1 kill-switch toggle. "
        "Distinct = digest of the case/history.")
ASSUMPTIONS = ["store double is all-or-nothing: a batch call that returns (whatever it returns) applied everything, a "
               "batch call that raises applied nothing",
               "snapshot cadence rule as documented in apply.py: int(turn) % n == 0, non-numeric turn ids count as 0"]

EXC = {"ValueError": ValueError, "KeyError": KeyError, "RuntimeError": RuntimeError, "OSError": OSError,
       "TypeError": TypeError, "Custom": type("CustomStoreError", (Exception,), {})}


def _pd(d):
    from clematis.engine.types import ProposedDelta
    return ProposedDelta(target_kind=d["k"], target_id=d["id"], attr="weight", delta=d["v"], op_idx=None, idx=d.get("idx"))


# ---------------------------------------------------------------- (a) apply_changes vs recording double

_DELTAS = st.lists(st.fixed_dictionaries({"k": st.sampled_from(["node", "edge"]),
                                          # incl. ids that are prefixes of one another (tuple order != order of the joined canonical key)
                                          "id": st.sampled_from(["n:a", "n:b", "e:a|r|b", "n:é", "n:c", "n:1", "n:10", "n:2", "n:a-1", "n:a.b"]),
                                          "v": st.sampled_from([0.1, -0.2, 0.3, 1e-9, 0.0])}), max_size=8,
                   unique_by=lambda d: (d["k"], d["id"]))
_RESULTS = st.sampled_from([{"edits": 3, "clamps": 1}, {"edits": 2, "clamped": 2}, {}, None, 7, "ok", [1, 2],
                            {"edits": "3"}, {"edits": 1.0, "clamps": 0.0}])
_ODD_RESULTS = st.sampled_from([{"edits": None}, {"edits": "n/a"}, {"edits": 1, "clamps": None}])


@st.composite
def _many_deltas(draw):
    """Long approved lists (beyond any plausible per-call chunk size): one batch means ONE call however long the list is."""
    n = draw(st.sampled_from([64, 65, 100, 129, 150, 257, 300]))
    vals = [0.1, -0.2, 0.3, 1e-9]
    return [{"k": "node" if i % 3 else "edge", "id": f"n:{i:03d}", "v": vals[i % 4]} for i in range(n)]


@st.composite
def apply_cases(draw):
    deltas = draw(st.one_of(_DELTAS, _DELTAS, _DELTAS, _DELTAS, _many_deltas()))
    store_kind = draw(st.sampled_from(["ok", "ok", "ok", "ok", "no_fn", "none"]))
    batch = draw(st.one_of(st.fixed_dictionaries({"ret": _RESULTS}), st.fixed_dictionaries({"ret": _RESULTS}),
                           st.fixed_dictionaries({"ret": _ODD_RESULTS}),
                           st.fixed_dictionaries({"raise": st.sampled_from(sorted(EXC))}),
                           st.fixed_dictionaries({"raise": st.sampled_from(sorted(EXC))})))
    singles = [draw(st.one_of(st.fixed_dictionaries({"ret": _RESULTS}),
                              st.fixed_dictionaries({"raise": st.sampled_from(sorted(EXC))}))) for _ in deltas[:8]]
    singles = [singles[i % len(singles)] for i in range(len(deltas))] if singles else []
    version = draw(st.sampled_from([None, "0", "5", "41", "abc", 7, ""]))
    turn = draw(st.one_of(st.integers(0, 12), st.integers(0, 12).map(str), st.sampled_from(["demo-1", "", None, 3.9])))
    every = draw(st.sampled_from([1, 1, 2, 3, 5]))
    bust = draw(st.sampled_from(["none", "on-apply", "on-apply"]))
    namespaces = draw(st.sampled_from([None, ["t2:semantic"], ["t2:semantic"], []]))  # validator admits only t2:semantic
    preload = draw(st.dictionaries(st.sampled_from(["t2:semantic", "x", "y", "z"]), st.integers(1, 3), max_size=4))
    cm_kind = draw(st.sampled_from(["real", "real", "real", "raising", "absent"]))
    state_shape = draw(st.sampled_from(["dict", "dict", "attr"]))
    # t4.cache.enabled only decides whether the orchestrator CREATES a manager; one that is attached to the state is
    # read and written by T2 regardless, so busting must not depend on the flag
    cache_enabled = draw(st.sampled_from([None, None, True, False, False]))
    return {"cache_enabled": cache_enabled, "deltas": deltas, "store": store_kind, "batch": batch, "singles": singles, "version": version, "turn": turn,
            "every": every, "bust": bust, "namespaces": namespaces, "preload": preload, "cm": cm_kind, "state": state_shape}


class RecStore:
    """Recording store double following a behaviour script."""

    def __init__(self, case, with_fn=True):
        self.calls = []
        self._case = case
        self._single_i = 0
        if with_fn:
            self.apply_deltas = self._apply

    def _apply(self, gid, deltas):
        deltas = list(deltas)
        self.calls.append((gid, deltas))
        if len(self.calls) == 1:
            beh = self._case["batch"]
        else:
            i = self._single_i
            self._single_i += 1
            beh = self._case["singles"][i] if i < len(self._case["singles"]) else {"ret": {}}
        if "raise" in beh:
            raise EXC[beh["raise"]]("injected store failure")
        return copy.deepcopy(beh["ret"])


class RaisingCM:
    def invalidate_namespace(self, ns):
        raise RuntimeError("injected invalidation failure")


def ref_version(v):
    if v is None:
        return "1"
    try:
        return str(int(v) + 1)
    except Exception:
        return "1"


def ref_turn(t):
    try:
        return int(t)
    except Exception:
        return 0


def check_apply(case, rec=None):
    from clematis.engine.apply import apply_changes
    from clematis.engine.cache import CacheManager

    with world.sandbox() as root:
        snapdir = os.path.join(root, "snap")
        t4over = {"snapshot_every_n_turns": case["every"], "snapshot_dir": snapdir, "cache_bust_mode": case["bust"]}
        if case["namespaces"] is not None:
            t4over["cache"] = {"namespaces": list(case["namespaces"])}
        if case.get("cache_enabled") is not None:
            t4over.setdefault("cache", {})["enabled"] = bool(case["cache_enabled"])
        cfg = world.validated_cfg({"t4": t4over})
        ctx = world.make_ctx(cfg, agent="A", turn_id=case["turn"])
        deltas = [_pd(d) for d in case["deltas"]]
        t4res = SimpleNamespace(approved_deltas=list(deltas), rejected_ops=[], reasons=[], metrics={})
        store = None
        if case["store"] == "ok":
            store = RecStore(case)
        elif case["store"] == "no_fn":
            store = RecStore(case, with_fn=False)
        cm = None
        if case["cm"] == "real":
            cm = CacheManager(max_entries=64, ttl_sec=600)
            for ns, n in sorted(case["preload"].items()):
                for i in range(n):
                    cm.set(ns, ("k", i), i)
        elif case["cm"] == "raising":
            cm = RaisingCM()
        sd = {"store": store}
        if case["version"] is not None:
            sd["version_etag"] = case["version"]
        if cm is not None:
            sd["_cache_mgr"] = cm
        state = sd if case["state"] == "dict" else SimpleNamespace(**sd)
        try:
            res = apply_changes(ctx, state, t4res)
        except Exception as e:
            raise Violation(f"apply_changes raised {type(e).__name__}: {e}", case, "raises")

        # --- store received exactly the approved deltas: one batch, then (only if it raised) one by one
        if store is not None and case["store"] == "ok":
            want = [("g:surface", deltas)]
            if "raise" in case["batch"]:
                want += [("g:surface", [d]) for d in deltas]
            got = store.calls
            if len(got) >= 1 and got[0][1] != deltas:
                raise Violation(f"batch call received {got[0][1]} instead of the approved deltas in order", case, "batch-content")
            if len(got) != len(want) or any(g[1] != w[1] for g, w in zip(got, want)):
                if "raise" not in case["batch"] and len(got) > 1:
                    raise Violation(f"store batch call succeeded (returned {case['batch']['ret']!r}) but {len(got) - 1} more "
                                    f"calls followed: deltas applied twice", case, "double-apply")
                raise Violation(f"store calls {[(g, len(d)) for g, d in got]} != expected {[(g, len(d)) for g, d in want]}", case, "store-calls")
        # --- version discipline
        newv = state.get("version_etag") if isinstance(state, dict) else getattr(state, "version_etag", None)
        wantv = ref_version(case["version"])
        if newv != wantv or res.version_etag != wantv:
            raise Violation(f"version {case['version']!r} -> state {newv!r} / result {res.version_etag!r}, expected {wantv!r}", case, "version")
        # --- snapshot cadence
        should = (ref_turn(case["turn"]) % max(1, case["every"])) == 0
        files = sorted(f for f in os.listdir(snapdir) if not f.endswith(".meta"))
        if should != bool(files) or should != bool(res.snapshot_path):
            raise Violation(f"turn {case['turn']!r} cadence {case['every']}: snapshot expected={should}, files={files}, "
                            f"path={res.snapshot_path!r}", case, "cadence")
        if should:
            if os.path.realpath(res.snapshot_path) != os.path.realpath(os.path.join(snapdir, files[0])) or len(files) != 1:
                raise Violation(f"snapshot_path {res.snapshot_path!r} vs files {files}", case, "snapshot-path")
            body = json.load(open(os.path.join(snapdir, files[0]), encoding="utf-8"))
            if str(body.get("version_etag")) != wantv:
                raise Violation(f"snapshot carries version {body.get('version_etag')!r}, state is at {wantv!r}", case, "snapshot-version")
            sd_ = body.get("deltas")
            want_d = [(d.target_kind, d.target_id, d.attr, d.delta) for d in deltas]
            got_d = [(x.get("target_kind"), x.get("target_id"), x.get("attr"), x.get("delta")) for x in (sd_ or [])]
            if case["store"] != "none" and got_d != want_d:  # without a store nothing was applied: the body lists no deltas
                raise Violation(f"snapshot deltas {got_d} != approved {want_d}", case, "snapshot-deltas")
        # --- cache invalidation
        if case["cm"] == "real":
            ns_cfg = case["namespaces"] if case["namespaces"] is not None else ["t2:semantic"]
            want_removed = 0
            do_bust = case["bust"] == "on-apply" and case["store"] == "ok"
            for ns, n in case["preload"].items():
                left = sum(1 for i in range(n) if cm.get(ns, ("k", i))[0])
                if do_bust and ns in ns_cfg:
                    want_removed += n
                    if left != 0:
                        raise Violation(f"namespace {ns!r} configured for on-apply busting still holds {left} entries", case, "bust-missed")
                elif left != n:
                    raise Violation(f"namespace {ns!r} (not configured / busting off) lost {n - left} entries", case, "bust-overreach")
            got_inv = int((res.metrics or {}).get("cache_invalidations", 0))
            if got_inv != want_removed:
                raise Violation(f"cache_invalidations={got_inv}, {want_removed} entries were removed", case, "bust-count")
        if rec is not None:
            nt = (case["store"] == "ok" and "raise" in case["batch"] and len(deltas) >= 2) or \
                 (case["bust"] == "on-apply" and case["cm"] == "real" and bool(case["preload"]) and case["store"] == "ok")
            labels = [f"store={case['store']}", "batch=" + ("raise" if "raise" in case["batch"] else "ret"), f"bust={case['bust']}",
                      "deltas>=64" if len(deltas) >= 64 else "deltas<64",
                      f"cm={case['cm']}"] + (["snapshot"] if should else [])
            rec.case(nontrivial=nt, dig=digest(case) if nt else None, labels=labels,
                     sample={k: (case[k][:4] if k in ("deltas", "singles") else case[k])
                             for k in ("deltas", "batch", "singles", "version", "turn", "every", "bust")} if nt else None)


def sub_apply(rec, seed, shard, nshards, n=400, shrink=True):
    run_hypothesis(rec, seed, apply_cases(), lambda c: check_apply(c, rec), max_examples=n, shrink=shrink, name="apply")


# ---------------------------------------------------------------- (b) histories through run_turn

@st.composite
def histories(draw):
    graphs = {"g1": {"nodes": [{"id": "a", "label": "apple", "tags": []}, {"id": "b", "label": "pear", "tags": []}],
                     "edges": [{"id": "e0", "src": "a", "dst": "b", "w": 0.9, "rel": "supports"}]}}
    n = draw(st.integers(3, 8))
    every = draw(st.sampled_from([1, 2, 3]))
    bust = draw(st.sampled_from(["none", "on-apply"]))
    turns = []
    for i in range(n):
        turns.append({
            "agent": draw(st.sampled_from(["A", "B"])),
            "text": draw(st.sampled_from(["apple", "pear", "apple pear", "zzz", ""])),
            "kill": draw(st.sampled_from([False, False, True])),  # True = t4.enabled False
            "deltas": draw(_DELTAS),
            "batch": draw(st.sampled_from([{"ret": {"edits": 1}}, {"ret": {"edits": 1}}, {"ret": None}, {"raise": "RuntimeError"},
                                           {"raise": "KeyError"}, {"raise": "OSError"}, {"raise": "Custom"}])),
            "singles_raise": draw(st.lists(st.booleans(), min_size=8, max_size=8)),
            "turn_id": draw(st.sampled_from(["seq", "seq", "seq", "str"])),
        })
    return {"graphs": graphs, "every": every, "bust": bust, "turns": turns}


def check_history(h, rec=None):
    import clematis.engine.orchestrator as orch
    from clematis.engine.types import Plan, SpeakOp

    world.reset_engine_globals()
    with world.sandbox() as root:
        eng = observe.Engine({"graphs": h["graphs"], "eps": [], "agents": {"A": ["g1"], "B": ["g1"]}}, root)
        calls_log = []
        cur = {}

        def apply_deltas(gid, deltas):
            deltas = list(deltas)
            calls_log.append((gid, deltas))
            k = len(calls_log)
            t = cur["t"]
            if k == 1:
                beh = t["batch"]
            else:
                beh = {"raise": "ValueError"} if t["singles_raise"][(k - 2) % 8] else {"ret": {"edits": 1}}
            if "raise" in beh:
                raise EXC[beh["raise"]]("injected store failure")
            return beh["ret"]

        eng.state["store"].apply_deltas = apply_deltas  # instance attribute shadows the class method
        had_delib = hasattr(orch, "t3_deliberate")
        old_delib = getattr(orch, "t3_deliberate", None)

        def delib(ctx, state, bundle):
            return Plan(version="t3-plan-v1", ops=[SpeakOp(kind="Speak", intent="ack", topic_labels=[], max_tokens=8)],
                        deltas=[_pd(d) for d in cur["t"]["deltas"]])

        orch.t3_deliberate = delib
        try:
            store_fail_nonempty = False
            toggles = 0
            prev_kill = None
            for i, t in enumerate(h["turns"], 1):
                cur["t"] = t
                del calls_log[:]
                cfg = eng.cfg({"t4": {"enabled": not t["kill"], "snapshot_every_n_turns": h["every"], "cache_bust_mode": h["bust"]},
                               "t1": {"cache": {"enabled": False}}, "t2": {"cache": {"enabled": False}}})
                tid = i if t["turn_id"] == "seq" else str(i)
                v0 = eng.state.get("version_etag")
                logs0 = observe.line_counts(eng.logs())
                snaps0 = {p: (os.stat(os.path.join(root, "snap", p)).st_mtime_ns, b) for p, b in eng.snaps().items()}
                sd0 = world.store_digest(eng.state["store"])
                r = eng.turn(t["agent"], t["text"], cfg, tid, world.NOW_MS + i * 1000)
                if r["exc"] is not None:
                    raise Violation(f"turn {i} raised {r['exc']}", h, "turn-raises")
                logs1 = observe.line_counts(eng.logs())
                v1 = eng.state.get("version_etag")
                new = {k: logs1.get(k, 0) - logs0.get(k, 0) for k in logs1}
                if prev_kill is not None and prev_kill != t["kill"]:
                    toggles += 1
                prev_kill = t["kill"]
                if t["kill"]:
                    if calls_log:
                        raise Violation(f"turn {i}: kill switch off but the store received {len(calls_log)} calls", h, "kill-store")
                    if v1 != v0:
                        raise Violation(f"turn {i}: kill switch off but version {v0!r} -> {v1!r}", h, "kill-version")
                    if new.get("t4.jsonl", 0) or new.get("apply.jsonl", 0):
                        raise Violation(f"turn {i}: kill switch off but t4/apply records were emitted {new}", h, "kill-logs")
                    snaps1 = {p: (os.stat(os.path.join(root, "snap", p)).st_mtime_ns, b) for p, b in eng.snaps().items()}
                    if snaps1 != snaps0:
                        raise Violation(f"turn {i}: kill switch off but snapshot files changed", h, "kill-snapshot")
                    if world.store_digest(eng.state["store"]) != sd0:
                        raise Violation(f"turn {i}: kill switch off but store contents changed", h, "kill-store-digest")
                    continue
                # committed turn
                t4o = r.get("t4_obj")
                if t4o is None:
                    raise Violation(f"turn {i}: meta-filter was not invoked on a committed turn", h, "no-t4")
                approved = list(r.get("approved_at_filter", t4o.approved_deltas))  # as the meta-filter returned them
                if [(_d.target_kind, _d.target_id, _d.attr, _d.delta) for _d in t4o.approved_deltas] != \
                        [(_d.target_kind, _d.target_id, _d.attr, _d.delta) for _d in approved]:
                    raise Violation(f"turn {i}: the approved list was edited after the meta-filter returned it: "
                                    f"{[x.target_id for x in approved]} -> {[x.target_id for x in t4o.approved_deltas]}", h, "approved-edited")
                want = [approved] + ([[d] for d in approved] if "raise" in t["batch"] else [])
                got = [d for _, d in calls_log]
                if got != want:
                    raise Violation(f"turn {i}: store received {[[(x.target_id, x.delta) for x in c] for c in got]}, expected batch"
                                    f"{' + singles' if 'raise' in t['batch'] else ''} of approved "
                                    f"{[(x.target_id, x.delta) for x in approved]}", h, "store-calls")
                if any(g != "g:surface" for g, _ in calls_log):
                    raise Violation(f"turn {i}: unexpected graph id in store call", h, "store-gid")
                if v1 != ref_version(v0):
                    raise Violation(f"turn {i}: version {v0!r} -> {v1!r}, expected {ref_version(v0)!r}", h, "version")
                if new.get("t4.jsonl", 0) != 1 or new.get("apply.jsonl", 0) != 1:
                    raise Violation(f"turn {i}: committed turn wrote {new.get('t4.jsonl', 0)} t4 / {new.get('apply.jsonl', 0)} apply records", h, "commit-logs")
                ap = json.loads(eng.logs()["apply.jsonl"].splitlines()[-1])
                t4l = json.loads(eng.logs()["t4.jsonl"].splitlines()[-1])
                if t4l.get("approved") != len(approved):
                    raise Violation(f"turn {i}: t4.jsonl approved={t4l.get('approved')} vs {len(approved)}", h, "t4-log")
                if str(ap.get("version_etag")) != str(v1):
                    raise Violation(f"turn {i}: apply.jsonl version {ap.get('version_etag')!r} vs state {v1!r}", h, "apply-log-version")
                should = (i % h["every"]) == 0
                if bool(ap.get("snapshot")) != should:
                    raise Violation(f"turn {i} cadence {h['every']}: snapshot field {ap.get('snapshot')!r}", h, "cadence")
                if should:
                    body = json.loads(eng.snaps()[f"state_{t['agent']}.json"])
                    if str(body.get("version_etag")) != str(v1) or body.get("turn") != i:
                        raise Violation(f"turn {i}: snapshot body version/turn {body.get('version_etag')!r}/{body.get('turn')!r}", h, "snapshot-body")
                if "raise" in t["batch"] and approved:
                    store_fail_nonempty = True
        finally:
            if had_delib:
                orch.t3_deliberate = old_delib
            else:
                try:
                    delattr(orch, "t3_deliberate")
                except Exception:
                    pass
                import clematis.engine.orchestrator.core as core
                if hasattr(core, "t3_deliberate"):
                    delattr(core, "t3_deliberate")
        if rec is not None:
            nt = store_fail_nonempty and toggles >= 1
            rec.case(nontrivial=nt, dig=digest(h) if nt else None,
                     labels=[f"turns={len(h['turns'])}"] + (["store_fail"] if store_fail_nonempty else []) + (["toggle"] if toggles else []),
                     sample={"every": h["every"], "turns": [{k: t[k] for k in ("agent", "kill", "batch")} | {"n_deltas": len(t["deltas"])}
                                                            for t in h["turns"]]} if nt else None)


def sub_history(rec, seed, shard, nshards, n=40, shrink=True):
    run_hypothesis(rec, seed, histories(), lambda h: check_history(h, rec), max_examples=n, shrink=shrink, name="history")


def _fix(case):
    from checks.c03 import _fix_floats
    return _fix_floats(case)


SUBCHECKS = [
    Sub("apply", sub_apply, quick={"n": 400}, thorough={"n": 5000}, shards_quick=4, shards_thorough=8,
        replay=lambda c: check_apply(_fix(c), None)),
    Sub("history", sub_history, quick={"n": 40}, thorough={"n": 500}, shards_quick=4, shards_thorough=8,
        replay=lambda c: check_history(_fix(c), None)),
]
