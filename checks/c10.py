"""C10 — the agent batch driver commits exactly like a sequential loop.

(a) contract-following compute: Orchestrator.run_turn is replaced by a GENERATED stub that honours the documented
    dry-run contract (emit stage records through append_jsonl, stash _dryrun_* artefacts, return before apply);
    everything else is real (compute wrapper, LogMux capture, read-only snapshot, staging with back-pressure,
    ordered commit, apply_changes with real snapshot writes).  Reference = the sequential loop.
    The stub's logging is a generated PROGRAM over live dicts (a record may be logged again, updated after it was
    logged, shared by the agents of a batch, built from the ctx the compute phase is given): the sequential loop
    serialises a line when it is logged, the driver at commit time.  With one of the three documented gates closed
    the driver is the plain loop (whole turns, every task) and must equal the reference exactly.
(b) real stage pipeline through the driver vs N sequential run_turn calls on an equal world.
"""
from __future__ import annotations

import contextlib
import copy
import json
import os
from types import SimpleNamespace as SNS

from hypothesis import strategies as st

from harness.runner import Sub, Violation, run_hypothesis, digest
from harness import world, observe

LEVEL = "exploration"
RULE = ("(a) Hypothesis-generated batches of 1-9 tasks (two agent-id pools; task order permuted against id order; an agent "
        "unknown to the state; agents listed two or three times, with and without graphs), graph sets random / pairwise disjoint / chained / one "
        "overlapping pair, resolved from graphs_by_agent, agents, both or mixed (per agent: either table, an object-style registry entry, or a "
        "registry entry that declares no graphs - metadata only / {} / None / graphs=None / object without .graphs - with the "
        "set in graphs_by_agent); worker limits 2-16 and the three documented "
        "gates closed (enabled, agents, max_workers 0/1 => plain sequential loop); per-task LOG PROGRAMS instead of fixed "
        "records: fresh records, the same live dict logged again (unchanged, after top-level set/del or after an in-place "
        "edit of a nested list/dict), a dict shared by all "
        "agents of the batch, records built from the ctx the compute phase sees (turn, agent, clock, seed, slice, cfg), four "
        "logging entry points (incl. logmux.write_or_buffer), feature_guard, known/unknown/identity/non-identity streams, unicode, 600 B / 10 KB strings; "
        "CI=true, unset and '1'; a compute phase that raises midway; approved deltas (none, distinct targets, the same target edited twice or more), dialogue, initial "
        "version_etag, snapshot cadence; staging byte limits from 1 upward (fixed ladder + limits derived from the record-size "
        "estimates of the case: e-1/e/e+1, midpoints, cumulative sums); non-trivial = >=2 tasks computed and >=1 "
        "back-pressure flush (counted on the real stager). (b) 2-4 agents with disjoint graphs through the real pipeline. "
        "Distinct = digest of the batch (incl. limit).")
ASSUMPTIONS = ["(a) the stub follows the dry-run contract the repo's own identity/race tests use; it may keep and update its "
               "own dicts after logging them (top-level set/del and in-place edits of nested lists/dicts), through any of the "
               "four logging entry points incl. logmux.write_or_buffer",
               "store double is recording and all-or-nothing; apply_changes, snapshots, staging, LogMux are the real code",
               "per-file byte equality and line order (the property speaks of on-disk log lines per stream)",
               "every turn of the reference applies under its own agent ctx: snapshots go to state_<agent>.json and apply.jsonl "
               "names that file, with the gates open (batch commit) and closed (plain loop) alike",
               "selection is per task: a second task of an agent overlaps its first unless the agent has no graphs",
               "when a compute phase raises, the driver must raise the same error, compute nothing after it and leave at most "
               "a per-file prefix of the sequential loop's lines (the sequential loop itself commits the earlier turns)"]

STREAMS = ["t1.jsonl", "t2.jsonl", "t3_plan.jsonl", "t3_dialogue.jsonl", "t4.jsonl", "health.jsonl", "turn.jsonl",
           "scheduler.jsonl", "custom.jsonl", "zz_unknown.jsonl", "gel.jsonl", "t3_reflection.jsonl"]
AGENTS = ["A", "B", "C", "D", "E", "F"]
AGENTS2 = ["a10", "a9", "B", "é", "b", "_x"]  # id order != any natural task order; case / unicode
GRAPHS = ["G1", "G2", "G3", "G4", "G5"]
KEYS = ["msg", "n", "ms", "now", "payload", "agent", "turn", "ключ", "durations_ms", "yielded", "slice_idx"]

@contextlib.contextmanager
def _sandbox():
    """world.sandbox on tmpfs when there is one (every snapshot write fsyncs; the disk is shared with other jobs)."""
    old = os.environ.get("VERIF_TMP")
    if not old and os.path.isdir("/dev/shm") and os.access("/dev/shm", os.W_OK):
        os.environ["VERIF_TMP"] = "/dev/shm"
    try:
        with world.sandbox() as root:
            yield root
    finally:
        if old is None:
            os.environ.pop("VERIF_TMP", None)
        else:
            os.environ["VERIF_TMP"] = old


_VAL = st.one_of(st.integers(-5, 5), st.sampled_from(["x", "héllo wörld", "", "y" * 100, "w" * 600, "z" * 10000, None, True, False, 1.5]),
                 st.lists(st.integers(0, 3), max_size=3), st.dictionaries(st.sampled_from(["k", "ü"]), st.integers(0, 2), max_size=2))
_REC = st.dictionaries(st.sampled_from(KEYS), _VAL, min_size=1, max_size=4)
_DELTA = st.fixed_dictionaries({"k": st.sampled_from(["node", "edge"]), "id": st.sampled_from(["n:a", "n:b", "e:a|r|b", "n:é"]),
                                "v": st.sampled_from([0.1, -0.2, 0.3])})
# approved lists: distinct targets, or the SAME target edited more than once (same node twice, same edge with different
# values, interleaved with other targets) - a sequential turn hands the whole approved list to Apply, in order
_DELTAS = st.one_of(st.lists(_DELTA, max_size=3, unique_by=lambda d: (d["k"], d["id"])),
                    st.lists(_DELTA, min_size=2, max_size=5),
                    st.tuples(_DELTA, st.lists(_DELTA, max_size=2), st.sampled_from([0.1, -0.2, 0.3, 0.7])).map(
                        lambda t: [t[0]] + t[1] + [dict(t[0], v=t[2])]))
_LADDER = [1, 2, 10, 40, 80, 150, 300, 1000, 10500, 25000, 10 ** 6, None]


@st.composite
def programs(draw):
    """A compute phase's logging behaviour as a small program over live dicts ('a', 'b' local to the turn, 'g' shared by
    the whole batch): ["new", slot, rec] / ["log", stream, slot, entry, feature_guard] / ["set", slot, key, val] /
    ["del", slot, key] / ["nest", slot, key] (in-place edit of a list/dict nested in the record) / ["ctx", stream, entry]."""
    entries = ["io", "io", "orch", "hook", "mux"]
    entry, stream = st.sampled_from(entries), st.sampled_from(STREAMS)
    slot = st.sampled_from(["a", "a", "a", "b", "g"])
    fg = st.sampled_from([None] * 8 + [True, False])
    muts = ["set", "set", "del", "nest", "nest"]
    ops = []
    for _ in range(draw(st.integers(0, 6))):
        kind = draw(st.sampled_from(["fresh", "fresh", "relog", "mut", "mut", "ctx"]))
        if kind == "fresh":
            s = draw(slot)
            ops.append(["new", s, draw(_REC)])
            ops.append(["log", draw(stream), s, draw(entry), draw(fg)])
        elif kind == "relog":
            ops.append(["log", draw(stream), draw(slot), draw(entry), draw(fg)])
        elif kind == "mut":
            s, m = draw(slot), draw(st.sampled_from(muts))
            if m == "set":
                ops.append(["set", s, draw(st.sampled_from(KEYS)), draw(_VAL)])
            else:
                ops.append([m, s, draw(st.sampled_from(KEYS))])
            ops.append(["log", draw(stream), s, draw(entry), draw(fg)])
        else:
            ops.append(["ctx", draw(stream), draw(entry)])
    return ops


def _gsets(draw, agents):
    mode = draw(st.sampled_from(["random", "random", "disjoint", "disjoint", "chain", "onepair"]))
    if mode == "random":
        return mode, {a: sorted(draw(st.sets(st.sampled_from(GRAPHS), max_size=3))) for a in agents}
    g = {a: [f"P{i}"] + ([f"Q{i}"] if draw(st.booleans()) else []) for i, a in enumerate(agents)}
    if mode == "disjoint":
        for a in agents:
            if draw(st.sampled_from([False] * 5 + [True])):
                g[a] = []
    elif mode == "chain":
        for i in range(len(agents) - 1):
            g[agents[i]].append(f"S{i}")
            g[agents[i + 1]].append(f"S{i}")
    elif len(agents) >= 2:
        x, y = draw(st.lists(st.sampled_from(agents), min_size=2, max_size=2, unique=True))
        g[x].append("S")
        g[y].append("S")
    return mode, {a: sorted(v) for a, v in g.items()}


@st.composite
def batches(draw):
    n = draw(st.integers(1, 6))
    agents = draw(st.lists(st.sampled_from(draw(st.sampled_from([AGENTS, AGENTS, AGENTS2]))), min_size=n, max_size=n, unique=True))
    gmode, gsets = _gsets(draw, agents)
    extra = draw(st.sampled_from([[], ["Z"]]))  # an agent unknown to the state
    order = list(draw(st.permutations(agents + extra)))
    workers = draw(st.sampled_from([2, 2, 3, 4, 5, 6, 8, 16]))
    # a second (third) task for an agent: it overlaps the first unless the agent has no graphs; selection is per TASK
    for _ in range(draw(st.sampled_from([0, 0, 1, 1, 2]))):
        order.insert(draw(st.integers(0, len(order))), draw(st.sampled_from(order)))
    tasks = [(a, draw(st.sampled_from(["hi", "yo", "héllo", ""]))) for a in order]
    progs = []
    for _ in tasks:
        ops = draw(programs())
        progs.append({"ops": ops, "deltas": draw(_DELTAS),
                      "dialogue": draw(st.sampled_from(["ok", "", "dry: ünï", "a b c"])), "fail": None})
    if draw(st.sampled_from([False] * 7 + [True])):
        p = draw(st.sampled_from(progs))
        p["fail"] = draw(st.integers(0, len(p["ops"])))
    case = {"agents": agents, "gsets": gsets, "gmode": gmode, "tasks": tasks, "progs": progs, "workers": workers,
            "turn_id": draw(st.sampled_from([1, 7, 99, 0, 12])), "every": draw(st.sampled_from([1, 2, 3])),
            "shape": draw(st.sampled_from(["graphs_by_agent", "agents", "both", "mixed", "mixed"])),
            "ci": draw(st.sampled_from(["true", "true", None, "1"])),
            "gate": draw(st.sampled_from([None] * 8 + ["enabled", "agents", "mw1", "mw0"])),
            "etag": draw(st.sampled_from(["3", "3", "0", None, "abc"]))}
    if case["shape"] == "mixed":
        case["where"] = {a: draw(st.sampled_from(_WHERE_DECLARING + _WHERE_SILENT)) for a in agents}
    if draw(st.booleans()):
        case["seed"] = draw(st.sampled_from([0, 7]))
    if draw(st.booleans()):
        case["slice_idx"] = draw(st.sampled_from([0, 2]))
    ests = _simulate_estimates(case)
    if ests and draw(st.booleans()):
        cands, cum = set(), 0
        uniq = sorted(set(ests))
        for e in uniq:
            cands.update([e - 1, e, e + 1])
        for x, y in zip(uniq, uniq[1:]):
            cands.add((x + y) // 2)
        for e in ests:
            cum += e
            cands.update([cum - 1, cum, cum + 1])
        case["limit"] = draw(st.sampled_from(sorted(c for c in cands if c >= 1)))
        case["limit_kind"] = "derived"
    else:
        case["limit"] = draw(st.sampled_from(_LADDER))
    return case


class RecStore:
    def __init__(self):
        self.calls = []

    def apply_deltas(self, gid, deltas):
        self.calls.append((gid, [(d.target_kind, d.target_id, d.attr, d.delta) for d in deltas]))
        return {"edits": len(list(deltas)), "clamps": 0}


def _pd(d):
    from clematis.engine.types import ProposedDelta
    return ProposedDelta(target_kind=d["k"], target_id=d["id"], attr="weight", delta=d["v"])


def _gate_off(case):
    return case.get("gate") is not None


def _prog(case, i):
    """Program of task i (new format) or the fixed records of its agent (cases saved before programs existed)."""
    if "progs" in case:
        return case["progs"][i]
    p = case["payloads"][case["tasks"][i][0]]
    ops = []
    for stream, rec_ in p["logs"]:
        ops += [["new", "a", rec_], ["log", stream, "a", "io", None]]
    return {"ops": ops, "deltas": p["deltas"], "dialogue": p["dialogue"], "fail": None}


def ref_selection(case):
    """Indices of the tasks a batch computes: greedy pairwise-disjoint selection in task order, capped by the worker limit
    (all tasks when a gate is closed: the plain loop)."""
    if _gate_off(case):
        return list(range(len(case["tasks"])))
    picked, used = [], set()
    for i, (a, _) in enumerate(case["tasks"]):
        if len(picked) >= max(1, case["workers"]):
            break
        g = set(case["gsets"].get(a, []))
        if used.isdisjoint(g):
            picked.append(i)
            used |= g
    return picked


# where an agent's graph set is declared ("mixed" shape), per agent:
#   agents / graphs_by_agent  only that table knows the agent
#   obj                       object-style registry entry with a .graphs attribute, nothing in graphs_by_agent
#   meta / empty / none / gnone / objmeta / objnone
#                             the agent IS registered in state.agents but the entry declares no graphs (metadata only, {},
#                             None, graphs=None, object without / with None .graphs); its set is in graphs_by_agent
_WHERE_DECLARING = ["agents", "graphs_by_agent", "obj"]
_WHERE_SILENT = ["meta", "empty", "none", "gnone", "objmeta", "objnone"]


def _registry_entry(kind, a, g):
    if kind == "agents":
        return {"persona": f"{a}-persona", "graphs": list(g)}
    if kind == "obj":
        return SNS(persona=f"{a}-persona", graphs=list(g))
    return {"meta": {"persona": f"{a}-persona"}, "empty": {}, "none": None, "gnone": {"persona": "p", "graphs": None},
            "objmeta": SNS(persona=f"{a}-persona"), "objnone": SNS(graphs=None)}[kind]


def _mk_state(case):
    st_ = {"store": RecStore(), "_boot_loaded": True}
    if case.get("etag", "3") is not None:
        st_["version_etag"] = case.get("etag", "3")
    shape = case["shape"]
    gba, ags = {}, {}
    for a, g in case["gsets"].items():
        where = case["where"][a] if shape == "mixed" else shape
        if where in ("graphs_by_agent", "both") or where in _WHERE_SILENT:
            gba[a] = list(g)
        if where == "both":
            ags[a] = {"graphs": list(g)}
        elif where != "graphs_by_agent":
            ags[a] = _registry_entry(where, a, g) if shape == "mixed" else {"graphs": list(g)}
    if shape != "agents":
        st_["graphs_by_agent"] = gba
    if shape != "graphs_by_agent":
        st_["agents"] = ags
    return st_


def _cfg(root, case):
    par = {"enabled": True, "agents": True, "max_workers": case["workers"]}
    gate = case.get("gate")
    if gate in ("enabled", "agents"):
        par[gate] = False
    elif gate in ("mw1", "mw0"):
        par["max_workers"] = int(gate[2:])
    return world.validated_cfg({"perf": {"enabled": True, "parallel": par},
                                "t4": {"snapshot_dir": os.path.join(root, "snap"), "snapshot_every_n_turns": case["every"]}})


def _ctx(cfg, case, agent):
    extra = {k: case[k] for k in ("seed", "slice_idx") if k in case}
    return world.make_ctx(cfg, agent=agent, turn_id=case["turn_id"], **extra)


def _rough_est(rec_):
    return sum(len(str(k)) + len(str(v)) for k, v in rec_.items()) + 2


def _simulate_estimates(case):
    """Approximate stager estimates of the records the selected tasks log, in order (generation aid only)."""
    out, glob = [], {}
    for i in ref_selection(case):
        local = {}
        for op in case["progs"][i]["ops"]:
            tbl = glob if op[1] == "g" else local
            if op[0] == "new":
                tbl[op[1]] = dict(op[2])
            elif op[0] == "set":
                tbl.setdefault(op[1], {})[op[2]] = op[3]
            elif op[0] == "del":
                tbl.setdefault(op[1], {}).pop(op[2], None)
            elif op[0] == "log" and op[4] is not False:
                out.append(_rough_est((glob if op[2] == "g" else local).get(op[2], {})))
            elif op[0] == "ctx":
                out.append(130)
        out.append(110)  # the apply record
    return out


def _entry(name):
    if name == "io":
        from clematis.io.log import append_jsonl
        return append_jsonl
    if name == "orch":  # what core.run_turn's stages call
        import clematis.engine.orchestrator as orch
        return orch.append_jsonl
    if name == "hook":  # the public production hook
        from clematis.engine.orchestrator.logging import append_jsonl
        return append_jsonl
    if name == "mux":
        from clematis.engine.util.logmux import write_or_buffer
        return write_or_buffer
    raise RuntimeError(f"harness: unknown logging entry {name}")


class ComputeBoom(RuntimeError):
    pass


def _run_prog(prog, ctx, glob, idx):
    """Execute the logging program of one compute phase against live dicts (the sequential loop serialises every line at
    the moment it is logged; the driver must put the same lines on disk)."""
    local = {}
    ops = prog["ops"]
    for j, op in enumerate(ops):
        if prog.get("fail") == j:
            raise ComputeBoom(f"boom:{idx}")
        kind = op[0]
        if kind == "ctx":
            cfg = ctx.cfg
            _entry(op[2])(op[1], {"turn": ctx.turn_id, "agent": ctx.agent_id, "clock": getattr(ctx, "now", None),
                                  "clock_ms": getattr(ctx, "now_ms", None), "seed": getattr(ctx, "seed", None),
                                  "slice": getattr(ctx, "slice_idx", None),
                                  "mw": cfg["perf"]["parallel"].get("max_workers"),
                                  "every": ctx.config["t4"]["snapshot_every_n_turns"]})
            continue
        slot = op[2] if kind == "log" else op[1]
        tbl = glob if slot == "g" else local
        if kind == "new":
            tbl[slot] = copy.deepcopy(op[2])
        elif kind == "set":
            tbl.setdefault(slot, {})[op[2]] = copy.deepcopy(op[3])
        elif kind == "del":
            tbl.setdefault(slot, {}).pop(op[2], None)
        elif kind == "nest":
            d = tbl.setdefault(slot, {})
            v = d.get(op[2])
            if isinstance(v, list):
                v.append(9)
            elif isinstance(v, dict):
                v["n"] = v.get("n", 0) + 1
            else:
                d[op[2]] = [9]
        elif kind == "log":
            d = tbl.setdefault(slot, {})
            if op[3] == "io" and op[4] is not None:
                _entry("io")(op[1], d, feature_guard=op[4])
            else:
                _entry(op[3])(op[1], d)
        else:
            raise RuntimeError(f"harness: unknown op {op!r}")
    if prog.get("fail") is not None and prog["fail"] >= len(ops):
        raise ComputeBoom(f"boom:{idx}")


def _seq_turn(case, idx, ctx_ops, ctx_apply, state, glob):
    """One turn of the sequential loop: its records, apply through the real apply_changes, its apply record."""
    from clematis.engine.apply import apply_changes
    from clematis.io.log import append_jsonl

    p = _prog(case, idx)
    _run_prog(p, ctx_ops, glob, idx)
    t4 = SNS(approved_deltas=[_pd(d) for d in p["deltas"]], rejected_ops=[], reasons=[], metrics={})
    ap = apply_changes(ctx_apply, state, t4)
    append_jsonl("apply.jsonl", {"turn": case["turn_id"], "agent": case["tasks"][idx][0], "applied": ap.applied, "clamps": ap.clamps,
                                 "version_etag": ap.version_etag, "snapshot": ap.snapshot_path,
                                 "cache_invalidations": int((ap.metrics or {}).get("cache_invalidations", 0)), "ms": 0.0})
    return p["dialogue"]


def run_driver(case, root):
    import clematis.engine.orchestrator as orch
    import clematis.engine.orchestrator.core as core
    import clematis.engine.util.io_logging as iol

    obs = {"computed": [], "dry": [], "live": [], "bad": [], "drains": []}
    pending = list(range(len(case["tasks"])))
    glob = {}
    cfg = _cfg(root, case)
    ctx = _ctx(cfg, case, "driver")
    state = _mk_state(case)

    def stub(self, sctx, sstate, text):
        aid = getattr(sctx, "agent_id", "?")
        idx = next((i for i in pending if tuple(case["tasks"][i]) == (aid, text)), None)
        if idx is None:
            obs["bad"].append((aid, text))
            raise AssertionError("turn function called for a task that is not (or no longer) in the batch")
        pending.remove(idx)
        dry = bool(getattr(sctx, "_dry_run_until_t4", False))
        obs["computed"].append(idx)
        obs["dry"].append(dry)
        obs["live"].append(sstate is state)
        p = _prog(case, idx)
        if not dry:  # plain loop: the turn function does the whole turn on the state it is given
            line = _seq_turn(case, idx, sctx, sctx, sstate, glob)
            return SNS(line=line, events=[])
        _run_prog(p, sctx, glob, idx)
        sctx._dryrun_t4 = SNS(approved_deltas=[_pd(d) for d in p["deltas"]])
        sctx._dryrun_utter = p["dialogue"]
        sctx._dryrun_t1 = {"graphs_touched": list(case["gsets"].get(aid, []))}
        sctx._dryrun_t2 = {"k_returned": 0, "k_used": 0}
        return SNS(line=p["dialogue"], events=[])

    def staging():
        s = iol.enable_staging() if case["limit"] is None else iol.enable_staging(byte_limit=case["limit"])
        inner = s.drain_sorted

        def counted():
            out = inner()
            obs["drains"].append(len(out))
            return out
        s.drain_sorted = counted  # observation only: how many back-pressure flushes the real stager did
        return s

    orig_rt = core.Orchestrator.run_turn
    had = "enable_staging" in vars(orch)
    orig_es = vars(orch).get("enable_staging")
    core.Orchestrator.run_turn = stub
    orch.enable_staging = staging
    try:
        results = orch._run_agents_parallel_batch(ctx, state, [tuple(t) for t in case["tasks"]])
        exc = None
    except Exception as e:
        results, exc = None, e
    finally:
        core.Orchestrator.run_turn = orig_rt
        if had:
            orch.enable_staging = orig_es
        else:
            orch.enable_staging = iol.enable_staging
    obs["left_on"] = iol.staging_enabled()
    iol.disable_staging()
    return results, exc, state, obs


def run_reference(case, root):
    """The sequential loop over the selected tasks, in task order."""
    cfg = _cfg(root, case)
    state = _mk_state(case)
    sel = ref_selection(case)
    lines, glob, done, exc = [], {}, [], None
    for i in sel:
        own = _ctx(cfg, case, str(case["tasks"][i][0]))
        done.append(i)
        try:
            # every turn of the sequential loop runs (and applies, snapshots to state_<agent>.json) under its own agent ctx
            lines.append(_seq_turn(case, i, own, own, state, glob))
        except ComputeBoom as e:
            exc = e
            break
    return lines, state, done, exc


class _ci_env:
    """CI as the case wants it (absent key: leave the environment alone, e.g. cases saved before CI was varied)."""

    def __init__(self, case):
        self.case = case

    def __enter__(self):
        self.old = os.environ.get("CI")
        if "ci" in self.case:
            if self.case["ci"] is None:
                os.environ.pop("CI", None)
            else:
                os.environ["CI"] = self.case["ci"]

    def __exit__(self, *a):
        if self.old is None:
            os.environ.pop("CI", None)
        else:
            os.environ["CI"] = self.old


def _state_view(state):
    return {k: (v if isinstance(v, (str, int, float, bool, type(None))) else type(v).__name__) for k, v in state.items()
            if k not in ("store", "graphs_by_agent", "agents")}


def _res_view(results):
    return [(r.line, list(getattr(r, "events", None) or [])) for r in results]


def _labels(case, want, obs):
    progs = [_prog(case, i) for i in range(len(case["tasks"]))]
    ops = [op for i in want for op in progs[i]["ops"]]
    logged, relog, shared = set(), False, False
    for i in want:
        seen = set()
        for op in progs[i]["ops"]:
            if op[0] == "log":
                relog = relog or (op[2] in seen) or (op[2] == "g" and "g" in logged)
                seen.add(op[2])
                logged.add(op[2])
            elif op[0] == "new":
                seen.discard(op[1])
                if op[1] == "g":
                    logged.discard("g")
    shared = any(op[0] == "log" and op[2] == "g" for op in ops)
    ids = [a for a, _ in case["tasks"]]
    flush = sum(1 for d in obs["drains"] if d) >= 2
    lim = case["limit"]
    lbs = [f"computed={len(want)}", f"skipped={len(case['tasks']) - len(want)}",
           f"limit={'default' if lim is None else ('<=150' if lim <= 150 else '>150')}",
           f"ci={case.get('ci', 'env')}", f"shape={case['shape']}", f"gmode={case.get('gmode', 'random')}",
           f"gate={case.get('gate') or 'open'}"]
    silent = sorted({w for w in (case.get("where") or {}).values() if w in _WHERE_SILENT or w == "obj"})
    lbs += [f"registry={w}" for w in silent]
    lbs += ["registry-entry-without-graphs"] if any(w in _WHERE_SILENT for w in silent) else []
    lbs += ["flush"] if flush else []
    lbs += ["limit-derived"] if case.get("limit_kind") else []
    lbs += ["relog-live-dict"] if relog else []
    lbs += ["batch-shared-dict"] if shared else []
    lbs += ["ctx-record"] if any(op[0] == "ctx" for op in ops) else []
    lbs += ["dup-task"] if len(set(ids)) < len(ids) else []
    lbs += ["tasks-not-in-id-order"] if ids != sorted(ids) else []
    lbs += ["cap-binds"] if (not _gate_off(case) and len(want) >= case["workers"] and len(want) < len(ids)) else []
    lbs += ["no-deltas"] if any(not progs[i]["deltas"] for i in want) else []
    lbs += ["repeated-delta-target"] if any(len({(d["k"], d["id"]) for d in progs[i]["deltas"]}) < len(progs[i]["deltas"]) for i in want) else []
    lbs += ["silent-agent"] if (len(want) >= 2 and any(not any(op[0] in ("log", "ctx") for op in progs[i]["ops"]) for i in want)) else []
    lbs += [f"entry={e}" for e in sorted({op[3] for op in ops if op[0] == "log"} | {op[2] for op in ops if op[0] == "ctx"})]
    lbs += ["feature-guard"] if any(op[0] == "log" and op[4] is not None for op in ops) else []
    lbs += ["nested-edit"] if any(op[0] == "nest" for op in ops) else []
    return lbs, flush


def check_batch(case, rec=None):
    world.reset_engine_globals()
    with _ci_env(case):
        with _sandbox() as r1:
            results, exc, st_d, obs = run_driver(case, r1)
            logs_d = observe.read_tree(r1, "logs")
            snaps_d = {k: v for k, v in observe.read_tree(r1, "snap").items() if not k.endswith(".meta")}
        with _sandbox() as r2:
            lines_ref, st_r, want, exc_r = run_reference(case, r2)
            logs_r = observe.read_tree(r2, "logs")
            snaps_r = {k: v for k, v in observe.read_tree(r2, "snap").items() if not k.endswith(".meta")}
    off = _gate_off(case)
    names = lambda idxs: [f"{i}:{case['tasks'][i][0]}" for i in idxs]  # noqa: E731
    if obs["bad"]:
        raise Violation(f"turn function called with {obs['bad']}, not a pending task of the batch {case['tasks']}", case, "compute-args")
    # selection: compute only for a pairwise-disjoint greedy selection, in task order
    if obs["computed"] != want:
        raise Violation(f"compute phase ran for tasks {names(obs['computed'])}, "
                        f"{'the plain loop runs' if off else 'independent selection in task order is'} {names(want)} "
                        f"(graph sets {case['gsets']}, workers {case['workers']}, gate {case.get('gate')})", case, "selection")
    if any(d == off for d in obs["dry"]):
        raise Violation(f"dry-run flags seen by the turn function {obs['dry']} with gate {case.get('gate') or 'open'}: a batch computes "
                        f"in dry-run mode, the plain loop runs whole turns", case, "dry-run-contract")
    if not off and any(obs["live"]):
        raise Violation("a batch compute phase was handed the live state object instead of a read-only snapshot", case, "compute-on-live-state")
    if exc_r is not None:
        # a compute phase raises: the sequential loop raises there; the driver must raise the same error
        if exc is None or not isinstance(exc, ComputeBoom) or str(exc) != str(exc_r):
            raise Violation(f"compute phase of task {names(want[-1:])} raises {exc_r!r}; the driver "
                            f"{'returned ' + repr(_res_view(results)) if exc is None else 'raised ' + repr(exc)}", case, "compute-error")
        for name in sorted(set(logs_d) | set(logs_r)):
            d_, r_ = logs_d.get(name) or b"", logs_r.get(name) or b""
            if (d_ != r_) if off else (not r_.startswith(d_)):
                raise Violation(f"{name} after a failing compute phase: driver wrote {d_[:300]!r}, sequential loop {r_[:300]!r}", case,
                                f"compute-error-log:{name.split('.')[0]}")
        dc, rc = st_d["store"].calls, st_r["store"].calls
        if (dc != rc) if off else (dc != rc[:len(dc)]):
            raise Violation(f"store calls after a failing compute phase {dc} vs sequential {rc}", case, "compute-error-state")
        if rec is not None:
            lbs, _ = _labels(case, want, obs)
            rec.case(nontrivial=False, labels=lbs + ["compute-raises"])
        return
    if exc is not None:
        if str(exc) == "LOG_STAGING_BACKPRESSURE" and rec is not None and rec.is_known("stager-limit-below-record"):
            rec.label("known:stager-limit-below-record")
            return
        raise Violation(f"driver raised {type(exc).__name__}: {exc} (staging limit {case['limit']})", case,
                        "backpressure-escapes" if "BACKPRESSURE" in str(exc) else "driver-raises")
    if obs["left_on"]:
        raise Violation("log staging still enabled after the batch", case, "staging-left-on")
    want_res = [(ln, []) for ln in lines_ref]
    if _res_view(results) != want_res:
        raise Violation(f"per-agent results {_res_view(results)} != sequential {want_res}", case, "results")
    for name in sorted(set(logs_d) | set(logs_r)):
        if logs_d.get(name) != logs_r.get(name):
            raise Violation(f"{name}: driver wrote {(logs_d.get(name) or b'')[:300]!r}, sequential loop {(logs_r.get(name) or b'')[:300]!r} "
                            f"(staging limit {case['limit']}, CI={case.get('ci', 'env')})", case, f"log:{name.split('.')[0]}")
    if snaps_d != snaps_r:
        raise Violation(f"snapshot files/bodies differ from the sequential loop: {sorted(snaps_d)} vs {sorted(snaps_r)}", case, "snapshots")
    if st_d.get("version_etag") != st_r.get("version_etag") or st_d["store"].calls != st_r["store"].calls:
        raise Violation(f"final state differs: version {st_d.get('version_etag')} vs {st_r.get('version_etag')}, store calls "
                        f"{st_d['store'].calls} vs {st_r['store'].calls}", case, "state")
    if _state_view(st_d) != _state_view(st_r):
        raise Violation(f"final state differs: {_state_view(st_d)} vs {_state_view(st_r)}", case, "state-keys")
    if rec is not None:
        lbs, flush = _labels(case, want, obs)
        nt = len(want) >= 2 and flush
        rec.case(nontrivial=nt, dig=digest(case) if nt else None, labels=lbs,
                 sample={"tasks": case["tasks"], "gsets": case["gsets"], "limit": case["limit"], "workers": case["workers"],
                         "ci": case.get("ci", "env"), "shape": case["shape"],
                         "ops": [[[(x if len(str(x)) < 40 else str(x)[:20] + '...') for x in op] for op in _prog(case, i)["ops"][:6]]
                                 for i in want[:3]]} if nt else None)


def sub_contract(rec, seed, shard, nshards, n=150, shrink=True):
    run_hypothesis(rec, seed, batches(), lambda c: check_batch(c, rec), max_examples=n, shrink=shrink, name="contract")


# ---------------------------------------------------------------- (b) real pipeline

@st.composite
def real_batches(draw):
    n = draw(st.integers(2, 4))
    agents = AGENTS[:n]
    graphs = {f"g{a}": draw(world.graph_specs(max_nodes=4, max_edges=4, ids=["a", "b", "c", "d"])) for a in agents}
    eps = draw(world.episode_lists(max_eps=6, owners=agents + ["world"], allow_missing_ts=False, ids=["e1", "e2", "e3", "e4", "e5", "e6"]))
    words = [w for e in eps for w in (e.get("text") or "").lower().split()] + [nd["label"] for g in graphs.values() for nd in g["nodes"] if nd["label"]]
    tasks = [(a, " ".join(draw(st.lists(st.sampled_from(words or world.VOCAB[:3]), min_size=1, max_size=3)))) for a in agents]
    return {"agents": agents, "graphs": graphs, "eps": eps, "tasks": tasks, "workers": draw(st.sampled_from([2, 4, 8]))}


def check_real(case, rec=None):
    import clematis.engine.orchestrator as orch

    over = {"perf": {"enabled": True, "parallel": {"enabled": True, "agents": True, "max_workers": case["workers"]}},
            "t1": {"cache": {"enabled": False}}, "t2": {"cache": {"enabled": False}}, "t4": {"cache": {"enabled": False}}}
    w = {"graphs": case["graphs"], "eps": case["eps"], "agents": {a: [f"g{a}"] for a in case["agents"]}}

    world.reset_engine_globals()
    with _sandbox() as r2:
        eng = observe.Engine(copy.deepcopy(w), r2)
        cfg = eng.cfg(over)
        seq_lines = []
        for a, text in case["tasks"]:
            r = eng.turn(a, text, cfg, 5, world.NOW_MS)
            if r["exc"] is not None:
                return  # the sequential loop itself fails: not this property's business
            seq_lines.append(r["line"])
        seq_logs = observe.canonical(eng.logs())
        seq_state = observe.state_digest(eng.state)
    world.reset_engine_globals()
    with _sandbox() as r1:
        eng = observe.Engine(copy.deepcopy(w), r1)
        cfg = eng.cfg(over)
        eng.state["graphs_by_agent"] = {a: [f"g{a}"] for a in case["agents"]}
        ctx = world.make_ctx(cfg, agent="driver", turn_id=5, now_ms=world.NOW_MS, enc=world.BowEncoder())
        try:
            res = orch._run_agents_parallel_batch(ctx, eng.state, [tuple(t) for t in case["tasks"]])
            exc = None
        except Exception as e:
            res, exc = None, e
        finally:
            import clematis.engine.util.io_logging as iol
            iol.disable_staging()
        par_logs = observe.canonical(eng.logs())
        par_state = observe.state_digest(eng.state)
        par_state.pop("graphs_by_agent", None)
    known = rec is not None and rec.is_known("batch-driver-real-pipeline")
    if rec is not None:
        rec.evaluations += 1
    if exc is not None:
        if known:
            return
        raise Violation(f"real pipeline through the batch driver raised {type(exc).__name__}: {exc}", case, "real:raises")
    if [r.line for r in res] != seq_lines or par_logs != seq_logs or par_state != seq_state:
        if known:
            return
        raise Violation(f"real pipeline through the batch driver differs from the sequential loop: lines {[r.line for r in res]} vs "
                        f"{seq_lines}; streams differing {[k for k in set(par_logs) | set(seq_logs) if par_logs.get(k) != seq_logs.get(k)]}",
                        case, "real:differs")
    if rec is not None:
        rec.case(nontrivial=True, dig=digest(case), labels=["real"], sample={"tasks": case["tasks"]})


def sub_real(rec, seed, shard, nshards, n=20, shrink=True):
    run_hypothesis(rec, seed, real_batches(), lambda c: check_real(c, rec), max_examples=n, shrink=shrink, name="real")


def probe_real_pipeline():
    """True while the real pipeline through the driver still raises / differs (minimal: two disjoint agents)."""
    case = {"agents": ["A", "B"], "graphs": {"gA": {"nodes": [{"id": "a", "label": "apple", "tags": []}], "edges": []},
                                             "gB": {"nodes": [{"id": "b", "label": "pear", "tags": []}], "edges": []}},
            "eps": [], "tasks": [("A", "apple"), ("B", "pear")], "workers": 2}
    try:
        check_real(case, None)
    except Violation:
        return True
    return False


KNOWN_PROBES = {"batch-driver-real-pipeline": probe_real_pipeline}


def _fix(c):
    from checks.c03 import _fix_floats
    c = _fix_floats(c)
    if "tasks" in c:
        c["tasks"] = [tuple(t) for t in c["tasks"]]
    if "payloads" in c:
        for p in c["payloads"].values():
            p["logs"] = [tuple(x) for x in p["logs"]]
    return c


SUBCHECKS = [
    Sub("contract", sub_contract, quick={"n": 150}, thorough={"n": 3000}, shards_quick=6, shards_thorough=16,
        replay=lambda c: check_batch(_fix(c), None)),
    Sub("real", sub_real, quick={"n": 15}, thorough={"n": 200}, shards_quick=2, shards_thorough=8,
        replay=lambda c: check_real(_fix(c), None)),
]
