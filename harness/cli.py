from __future__ import annotations

import argparse
import os
import sys
import traceback


def main(argv=None) -> int:
    ap = argparse.ArgumentParser(prog="vcheck")
    sp = ap.add_subparsers(dest="cmd", required=True)
    r = sp.add_parser("run")
    r.add_argument("pid")
    r.add_argument("--tier", default=os.environ.get("VERIF_TIER") or "quick", choices=["quick", "thorough"])
    p = sp.add_parser("replay")
    p.add_argument("pid")
    p.add_argument("path")
    args = ap.parse_args(argv)
    try:
        from harness import runner

        if args.cmd == "run":
            seed = int(os.environ.get("VERIF_SEED") or "1")
            return runner.run_check(args.pid.upper(), args.tier, seed)
        if args.cmd == "replay":
            return runner.replay(args.pid.upper(), args.path)
    except SystemExit:
        raise
    except BaseException:
        print("HARNESS-ERROR\n" + traceback.format_exc())
        return 2
    return 2


if __name__ == "__main__":
    sys.exit(main())
