"""C07 — delta snapshots reconstruct the full payload exactly.

Sub-checks
  codec_exhaustive  every ordered pair of a stated finite universe of small JSON objects (awkward keys, type-confusable
                    values, one nested level) through compute_delta/apply_delta              [exhaustive, sharded]
  codec_random      Hypothesis: recursive JSON object + a constructed mutation of it (adds/mods/dels/type twists/
                    dict<->scalar flips/path collisions), unicode + separator + backslash keys
  codec_atheris     optional: libFuzzer/atheris byte target (fuzz/c07_delta_fuzz.py) decoding bytes into such a pair
  disk              write_snapshot_auto full then delta in a sandbox; baseline present / missing (writer and reader
                    side) / corrupt (truncation at every structural offset, byte blobs, a delta file under the
                    baseline's name); the readers read_snapshot(path=), read_snapshot(root, etag_to=),
                    io.read_snapshot(root=, etag_to=, baseline_dir=) and load_latest_snapshot (three ctx/state shapes,
                    engine.snapshot and engine.apply entry points), str and os.PathLike arguments, the baseline kept
                    in another directory (baseline_dir=), chains (delta requested on an etag that exists only as a
                    delta; several deltas off one baseline), the same file names rewritten in place, lookups made
                    before the files exist, directory clutter (snapshots of near-miss etags, stray temp/backup files,
                    orphan sidecars, bodies without sidecars), awkward etags (glob metacharacters, one a prefix of the
                    other, '9' vs '10', file-name parts, unicode twins), payloads beyond 64 KiB / 1 MiB

Oracle (codec): type-exact canonical JSON text of apply_delta(base, compute_delta(base, cur)) equals that of cur; the
same after the delta went through json.dumps/json.loads; neither call mutates an argument.
Oracle (disk): baseline present => every reader yields P1 (load_latest_snapshot: the state it builds equals the state
built from a plain full snapshot of P1 — differential).  Baseline missing/corrupt => raise, {} / loaded False with the
version untouched, or exactly P1; any other dict is a wrongly reconstructed state.
"""
from __future__ import annotations

import copy
import json
import math
import os
import shutil
import subprocess
import sys
import tempfile
from types import SimpleNamespace

from harness.runner import Sub, Violation, run_hypothesis, digest, jsonable

LEVEL = "exploration"
RULE = ("codec_exhaustive: all ordered pairs (base, cur) of the stated universe (objects with <=1 key over the full "
        "key/value alphabets, plus 2- and 3-key objects over reduced alphabets), distinct by construction. "
        "codec_random/atheris: base = generated recursive JSON object, cur = per-key mutation of it (keep/delete/twist "
        "type/replace/flip dict<->scalar/recurse into dicts AND lists (append/pop/reorder/edit one element)/list<->"
        "index-keyed dict/stringify/add/confusable sibling key (unicode form, case, separator characters)) or, 1 in 10, "
        "independent; 1 in 8 pairs is buried under a chain of 3..14 keys; base {} is also passed as None. "
        "disk: snapshot-shaped payload pair keyed by node/edge ids with dots and arrows, one scenario each, with "
        "independently drawn etag pair, directory clutter, argument types, loader shape, rewrite/probe/repeat flags. "
        "NON-TRIVIAL (codec) = the reference diff has "
        ">=1 add AND >=1 mod AND >=1 del, or a diff path has a key that is empty / contains '.' / is non-ASCII, or a "
        "dict<->non-dict replacement, or a change that only Python-equal-but-JSON-different values reveal (1/true/1.0). "
        "NON-TRIVIAL (disk) = a delta file was really written and is non-empty. Distinct = digest of the pair/case.")
ASSUMPTIONS = [
    "payloads are strict JSON values (str keys, finite floats, no tuples); NaN/Infinity are not JSON and not generated",
    "type-exact equality = equality of canonical JSON text (repr of floats, so 1 / 1.0 / true and 0.0 / -0.0 differ)",
    "codec 'none' only unless the zstandard module imports (then 'zstd' is exercised as well)",
    "a corrupt baseline is a truncation or a byte blob; a baseline replaced by a *different valid* full snapshot is "
    "not detectable without a digest in the header and is not generated",
    "raising from a reader/writer on a missing or corrupt baseline counts as 'reports absence'",
    "etags are non-empty strings without '/' or NUL (they become file names); everything else is legal in them",
    "files in the snapshot directory that are not named snapshot-<etag>.{full,delta}.json[.zst] for the etag asked for "
    "(other etags, temp/backup leftovers, sidecars) never take part in a read or a write; a body needs no sidecar",
    "a baseline file whose header says mode 'full' and whose body is null/[] (falsy) or whose header has no mode is not "
    "generated as a corruption: a reader may take it for an empty state",
]

FID_DOT = "delta-dotted-keys"
FID_EMPTY = "delta-empty-key"
FID_TYPE = "delta-type-blind"
FID_LOAD = "load-latest-missing-baseline"
FID_BASE = "delta-baseline-unvalidated"


# =====================================================================================================
# type-exact canonical JSON
# =====================================================================================================

class NotJson(Exception):
    pass


def _canon(x, out, depth=0):
    if depth > 60:
        raise NotJson("nesting deeper than 60 (cyclic?)")
    if x is None:
        out.append("null")
    elif x is True:
        out.append("true")
    elif x is False:
        out.append("false")
    else:
        t = type(x)
        if t is str:
            out.append(json.dumps(x))
        elif t is int:
            out.append(str(x))
        elif t is float:
            if x != x or x in (math.inf, -math.inf):
                raise NotJson("non-finite float")
            out.append(repr(x))
        elif t is dict:
            out.append("{")
            first = True
            for k in sorted(x):
                if type(k) is not str:
                    raise NotJson(f"non-string key {k!r}")
                if not first:
                    out.append(",")
                first = False
                out.append(json.dumps(k))
                out.append(":")
                _canon(x[k], out, depth + 1)
            out.append("}")
        elif t is list:
            out.append("[")
            for i, v in enumerate(x):
                if i:
                    out.append(",")
                _canon(v, out, depth + 1)
            out.append("]")
        else:
            raise NotJson(f"non-JSON type {t.__name__}")


def canon(x) -> str:
    out: list = []
    _canon(x, out)
    return "".join(out)


def try_canon(x):
    try:
        return canon(x)
    except (NotJson, TypeError, RecursionError) as e:  # TypeError: unsortable mixed keys
        return f"<not-json: {e}>"


# =====================================================================================================
# reference diff (list paths) — used for labels / the non-trivial rule only, never as the oracle
# =====================================================================================================

def ref_diff(base, cur, prefix=()):
    adds, mods, dels = [], [], []
    for k in sorted(set(base) - set(cur)):
        dels.append(prefix + (k,))
    for k in sorted(set(cur) - set(base)):
        adds.append(prefix + (k,))
    for k in sorted(set(base) & set(cur)):
        bv, cv = base[k], cur[k]
        if type(bv) is dict and type(cv) is dict:
            a, m, d = ref_diff(bv, cv, prefix + (k,))
            adds += a
            mods += m
            dels += d
        elif canon(bv) != canon(cv):
            mods.append(prefix + (k,))
    return adds, mods, dels


LINESEPS = "\n\r\x0b\x0c\x1c\x1d\x1e\x85\u2028\u2029"


import functools


@functools.lru_cache(maxsize=4096)
def _fold(k):
    import unicodedata
    return unicodedata.normalize("NFKC", k).casefold().strip().replace("\\", "").replace(".", "").replace("\x00", "").replace("\u200b", "")


def _has_twin_keys(x, depth=0):
    """Some dict holds two different keys that a normalising / case-folding / separator-stripping codec would merge."""
    if depth > 40:
        return False
    if type(x) is dict:
        if len({_fold(k) for k in x}) < len(x):
            return True
        return any(_has_twin_keys(v, depth + 1) for v in x.values())
    if type(x) is list:
        return any(_has_twin_keys(v, depth + 1) for v in x)
    return False


def key_twins(k):
    """Keys that differ from k only by what a sloppy path codec might ignore (unicode form, case, separators)."""
    import unicodedata
    out = [unicodedata.normalize("NFD", k), unicodedata.normalize("NFC", k), unicodedata.normalize("NFKC", k),
           k.upper(), k.lower(), k + " ", " " + k, k + ".", "." + k, k + "\\", "\\" + k, k.replace(".", "\\."),
           k.replace("\\.", "."), k.replace(".", "\\\\."), k.replace(".", ""), k + "\x00", k + "\u200b", k + k]
    seen, res = {k}, []
    for t in out:
        if t not in seen:
            seen.add(t)
            res.append(t)
    return res


def _get(obj, path):
    for k in path:
        obj = obj[k]
    return obj


def pair_labels(base, cur, twin=None):
    """(labels, nontrivial) for a codec pair."""
    adds, mods, dels = ref_diff(base, cur)
    labels = []
    if adds:
        labels.append("add")
    if mods:
        labels.append("mod")
    if dels:
        labels.append("del")
    amd = bool(adds and mods and dels)
    if amd:
        labels.append("add+mod+del")
    if not (adds or mods or dels):
        labels.append("identical")
    segs = [s for p in adds + mods + dels for s in p]
    awkward = False
    if any("." in s for s in segs):
        labels.append("key:dot")
        awkward = True
    if any(s == "" for s in segs):
        labels.append("key:empty")
        awkward = True
    if any(not s.isascii() for s in segs):
        labels.append("key:nonascii")
        awkward = True
    if any("\\" in s for s in segs):
        labels.append("key:backslash")
    if any(len(s) > 64 for s in segs):
        labels.append("key:long")
    if any(not s.isprintable() and any(ch in s for ch in LINESEPS) for s in segs):
        labels.append("key:linesep")
    if (_has_twin_keys(base) or _has_twin_keys(cur)) if twin is None else twin:
        labels.append("keys:confusable-siblings")
    dmax = max((len(p) for p in adds + mods + dels), default=0)
    if dmax >= 6:
        labels.append("depth>=6")
    if dmax >= 10:
        labels.append("depth>=10")
    flip = typeonly = False
    for p in mods:
        bv, cv = _get(base, p), _get(cur, p)
        if type(bv) is list and type(cv) is list:
            if len(bv) != len(cv):
                labels.append("list:len-change")
            elif sorted(map(canon, bv)) == sorted(map(canon, cv)):
                labels.append("list:reordered")
            else:
                labels.append("list:elem-changed")
            if any(type(e) is dict for e in bv + cv):
                labels.append("list:of-dicts")
        elif (type(bv) is list and type(cv) is dict) or (type(bv) is dict and type(cv) is list):
            labels.append("list<->dict")
        if (type(bv) is dict) != (type(cv) is dict):
            flip = True
        if bv == cv:  # Python-equal, JSON-different
            typeonly = True
    if flip:
        labels.append("dict<->nondict")
    if typeonly:
        labels.append("type-only-change")
    if any(len(p) > 1 for p in adds + mods + dels):
        labels.append("nested-path")
    return labels, bool(amd or awkward or flip or typeonly)


# =====================================================================================================
# the codec law
# =====================================================================================================

def codec_failures(base, cur, cb=None, cc=None):
    """Run the round-trip law on one pair. Returns [] if it holds, else a list of (sig, message, got).
    The code under test only ever sees private type-exact copies (re-parsed canonical text), so a mutating
    implementation cannot corrupt the caller's objects; mutation is detected by re-canonicalising the copies."""
    from clematis.engine.util.snapshot_delta import compute_delta, apply_delta

    cb = canon(base) if cb is None else cb
    cc = canon(cur) if cc is None else cc
    b, c = json.loads(cb), json.loads(cc)
    try:
        delta = compute_delta(b, c)
    except Exception as e:
        return [("raises", f"compute_delta raised {type(e).__name__}: {e}", None)]
    if try_canon(b) != cb or try_canon(c) != cc:
        return [("mutates-input", f"compute_delta mutated an argument (base {cb}, cur {cc})", None)]
    cd = try_canon(delta)
    fails = []
    try:
        got = apply_delta(b, delta)
    except Exception as e:
        return [("raises", f"apply_delta raised {type(e).__name__}: {e}", None)]
    cg = try_canon(got)
    if try_canon(b) != cb or try_canon(c) != cc or try_canon(delta) != cd:
        return [("mutates-input", f"apply_delta(base, compute_delta(base, cur)) mutated base, cur or the delta: base {cb} -> "
                                  f"{try_canon(b)}, cur {cc} -> {try_canon(c)}, delta {cd} -> {try_canon(delta)}", None)]
    if cg != cc:
        fails.append(("roundtrip", f"apply_delta(base, compute_delta(base, cur)) = {cg} but cur = {cc}; delta = {cd}", got))
    try:
        d2 = json.loads(json.dumps(delta, allow_nan=False))
    except (TypeError, ValueError) as e:
        fails.append(("delta-not-json", f"the delta is not JSON-serialisable: {e}", None))
        return fails
    cd2 = try_canon(d2)
    try:
        got2 = apply_delta(b, d2)
    except Exception as e:
        fails.append(("raises", f"apply_delta raised on the JSON round-tripped delta {type(e).__name__}: {e}", None))
        return fails
    cg2 = try_canon(got2)
    if try_canon(b) != cb or try_canon(d2) != cd2:
        return [("mutates-input", f"apply_delta mutated base or the (JSON round-tripped) delta: base {cb} -> {try_canon(b)}", None)]
    if cg2 != cc:
        fails.append(("roundtrip-json", f"after json.dumps/loads of the delta: got {cg2} but cur = {cc}; delta = {cd}", got2))
    if cb == "{}" and not fails:
        # "compute_delta(None, X) yields adds for all keys in X; apply_delta handles None/{} bases" (module docstring):
        # an absent base is the empty object, on either side of the round trip
        for bn, an in ((None, None), (None, {}), ({}, None)):
            try:
                dn = compute_delta(bn, c)
                gn = apply_delta(an, json.loads(json.dumps(dn, allow_nan=False)))
            except Exception as e:
                fails.append(("raises", f"compute_delta({bn!r}, cur) / apply_delta({an!r}, .) raised {type(e).__name__}: {e}", None))
                break
            if try_canon(c) != cc:
                return [("mutates-input", f"compute_delta({bn!r}, cur) mutated cur {cc} -> {try_canon(c)}", None)]
            if try_canon(gn) != cc:
                fails.append(("roundtrip", f"apply_delta({an!r}, compute_delta({bn!r}, cur)) = {try_canon(gn)} but cur = {cc}; "
                                           f"delta = {try_canon(dn)}", gn))
                break
    return fails


def _type_blind_only(fails, cur):
    """The result equals cur under Python's == (1 == True == 1.0, 0.0 == -0.0) and differs only in JSON type/text."""
    return bool(fails) and all(sig in ("roundtrip", "roundtrip-json") and got == cur for sig, _m, got in fails)


def _all_keys(x, acc):
    if type(x) is dict:
        for k, v in x.items():
            acc.add(k)
            _all_keys(v, acc)
    elif type(x) is list:
        for v in x:
            _all_keys(v, acc)


def _rename_keys(x, fn):
    if type(x) is dict:
        return {fn(k): _rename_keys(v, fn) for k, v in x.items()}
    if type(x) is list:
        return [_rename_keys(v, fn) for v in x]
    return x


_SUBST = ["·", "‧", "∙", "⋅", "・", "．", "․"]


def rename_dots(base, cur):
    """Injectively rename every dict key containing '.' (substitute character that occurs in no key)."""
    keys: set = set()
    _all_keys(base, keys)
    _all_keys(cur, keys)
    if not any("." in k for k in keys):
        return None
    sub = next(c for c in _SUBST if not any(c in k for k in keys))
    fn = lambda k: k.replace(".", sub)
    return _rename_keys(base, fn), _rename_keys(cur, fn)


def rename_top_empty(base, cur):
    """Rename the top-level key '' (the only position where the empty path arises) to a fresh key."""
    if "" not in base and "" not in cur:
        return None
    fresh = next(c for c in ["∅", "∅∅", "∅∅∅∅"] if c not in base and c not in cur)
    ren = lambda d: {(fresh if k == "" else k): v for k, v in d.items()}
    return ren(base), ren(cur)


def diagnose(base, cur, cb=None, cc=None):
    """Classify the outcome of the law on (base, cur).

    Returns a list of causes, each (finding_id_or_None, sig, message, witness_pair). finding_id None = no listed root
    cause explains the failure.  Attribution is by *normalisation*, not by looking at the input: a failure is put
    down to the path-separator defects only if it disappears once the offending keys are injectively renamed, and to
    type blindness only if the reconstructed object is ==-equal to cur.  Whatever still fails afterwards is reported.
    """
    f0 = codec_failures(base, cur, cb, cc)
    if not f0:
        return []
    if _type_blind_only(f0, cur):
        return [(FID_TYPE, FID_TYPE, f0[0][1], (base, cur))]
    rd = rename_dots(base, cur)
    re_ = rename_top_empty(base, cur)
    if rd is None and re_ is None:
        return [(None, f0[0][0], f0[0][1], (base, cur))]
    # normalise everything that applies
    b2, c2 = base, cur
    if rd is not None:
        b2, c2 = rd
    r2 = rename_top_empty(b2, c2)
    if r2 is not None:
        b2, c2 = r2
    f2 = codec_failures(b2, c2)
    causes = []
    if f2:
        if _type_blind_only(f2, c2):
            causes.append((FID_TYPE, FID_TYPE, f2[0][1], (b2, c2)))
        else:
            # still failing on a pair without any separator/empty-path key: a different defect (witness: renamed pair)
            return [(None, f2[0][0], f2[0][1] + "  [keys renamed to exclude the listed path-separator findings]", (b2, c2))]

    def residual(pair):
        f = codec_failures(*pair)
        return bool(f) and not _type_blind_only(f, pair[1])

    dot = empty = False
    if rd is not None and re_ is not None:
        empty = residual(rd)    # dots renamed, '' kept: still broken => the empty key is a cause
        dot = residual(re_)     # '' renamed, dots kept: still broken => dotted keys are a cause
        if not (dot or empty):
            dot = empty = True
    elif rd is not None:
        dot = True
    else:
        empty = True
    if dot:
        causes.append((FID_DOT, FID_DOT, f0[0][1], (base, cur)))
    if empty:
        causes.append((FID_EMPTY, FID_EMPTY, f0[0][1], (base, cur)))
    return causes


def check_pair(base, cur, rec, cb=None, cc=None):
    """Raise Violation unless the law holds or every cause is a *listed known* finding."""
    for fid, sig, msg, (wb, wc) in diagnose(base, cur, cb, cc):
        if fid is not None and rec is not None and rec.is_known(fid):
            continue
        raise Violation(msg, {"base": wb, "cur": wc}, sig)


def replay_pair(case):
    check_pair(case["base"], case["cur"], None)


# =====================================================================================================
# (a1) exhaustive universe
# =====================================================================================================

KEYS = ["", "a", "b", "a.b", ".", "é", "\\"]
LEAVES = [0, 1, 1.0, True, None, "s", [], [1], {}]


def universe(tier):
    inner = lambda iks, ils: [{ik: il} for ik in iks for il in ils]
    if tier == "quick":
        v1 = LEAVES + inner(["b", "", "a.b", "\\"], [1, True, {}]) + [{"b": 1, "": 1}]
        k2, v2 = ["", "a", "b", "a.b"], [1, 1.0, True, [1], {}, {"b": 1}, {"b": True}, {"": 1}]
        k3, v3 = [], []
    else:
        v1 = LEAVES + inner(["b", "", "a.b", ".", "\\", "a\\"], LEAVES) + [{"b": 1, "": 1}, {"b": {"": 1}}, {"a.b": {"b": 1}}]
        k2, v2 = KEYS[:6], [0, 1, 1.0, True, None, [1], {}, {"b": 1}, {"b": True}, {"": 1}, {"a.b": 1}, {"b": {}}]
        k3, v3 = ["", "a", "a.b", "b"], [1, True, {}, {"b": 1}, {"": 1}]
    objs = [{}]
    for k in (KEYS[:6] if tier == "quick" else KEYS):  # the backslash key as top-level key: thorough tier only
        for v in v1:
            objs.append({k: v})
    for i in range(len(k2)):
        for j in range(i + 1, len(k2)):
            for va in v2:
                for vb in v2:
                    objs.append({k2[i]: va, k2[j]: vb})
    for i in range(len(k3)):
        for j in range(i + 1, len(k3)):
            for l in range(j + 1, len(k3)):
                for va in v3:
                    for vb in v3:
                        for vc in v3:
                            objs.append({k3[i]: va, k3[j]: vb, k3[l]: vc})
    return objs


def sub_codec_exhaustive(rec, seed, shard, nshards, tier="quick"):
    objs = universe(tier)
    canons = [canon(o) for o in objs]
    twins = [_has_twin_keys(o) for o in objs]
    if len(set(canons)) != len(canons):
        raise RuntimeError("universe has duplicates")
    n = len(objs)
    rec.note("universe_objects", n)
    rec.note("ordered_pairs_total", n * n)
    seen_sigs = set()
    idx = -1
    for i in range(n):
        base, cb = objs[i], canons[i]
        for j in range(n):
            idx += 1
            if idx % nshards != shard:
                continue
            cur, cc = objs[j], canons[j]
            try:
                check_pair(base, cur, rec, cb, cc)
            except Violation as v:
                if v.sig not in seen_sigs:
                    seen_sigs.add(v.sig)
                    rec.violation(v.message, v.case, v.sig)
            labels, nt = pair_labels(base, cur, twins[i] or twins[j])
            rec.case(nontrivial=nt, dig=None, labels=labels,
                     sample={"base": base, "cur": cur} if nt and (idx // nshards) % 9973 == 17 else None)


# =====================================================================================================
# (a2) Hypothesis recursive JSON pairs
# =====================================================================================================

SPECIAL_KEYS = ["", ".", "a", "b", "a.b", "a.", ".a", "..", "é", "é.é", "_adds", "_mods", "_dels",
                "n1→n2", "n.1→n.2", "\\", "a\\.b", "\\.", "a\\", "a b", "\u2028", "0",
                # more line-boundary characters of str.splitlines (the file format is line based), quote, slash, NUL
                " ", "a\x85b", "\n", "a\r\nb", "\x1c", "\u2029", "\"", "/", "\x00",
                # unicode-form / case twins of keys above, and keys a separator-stripping codec would merge
                "e\u0301", "A", "\u212b", "\u00c5", "ab", "a.b.c", "a\\\\.b",
                "k" * 300, "k" * 299 + ".", "\u00e9." * 40, "\U0001f600", "1", "00", "-1",
                # separator / escape spellings of other path notations (JSON pointer, JSONPath, unit separator, ...)
                "~", "~0", "~1", "a/b", "a~1b", "\x1f", "a|b", "a:b", "[0]", "a[0]", "$", "*", "%2E", "a,b"]
SEP_CHARS = [".", ".", "\\", "/", "~", "|", ":", "\x1f", "\x00", "\u2192", ",", "#", "[", "\n", " "]
ACTIONS = ["keep", "keep", "del", "twist", "replace", "flip", "recurse", "recurse", "recurse", "listdict", "stringify"]
LIST_ACTIONS = ["append", "pop", "drop0", "reverse", "rotate", "elem", "elem", "dup", "insert0", "twist-all", "sort"]


def list_as_dict(v):
    """[x, y] <-> {"0": x, "1": y}: what an index-path encoding of lists would confuse."""
    if type(v) is list:
        return {str(i): copy.deepcopy(e) for i, e in enumerate(v)}
    if type(v) is dict and v and sorted(v) == sorted(str(i) for i in range(len(v))):
        return [copy.deepcopy(v[str(i)]) for i in range(len(v))]
    return None


def mutate_list(draw, st, keys, leaf, value, lst, depth):
    """A constructed edit of a list value: lists are atomic for the codec, so ANY difference (length, order, one element,
    one leaf inside a dict element) must come back exactly."""
    out = copy.deepcopy(lst)
    act = draw(st.sampled_from(LIST_ACTIONS))
    if act == "append":
        out.append(draw(value))
    elif act == "pop" and out:
        out.pop()
    elif act == "drop0" and out:
        out.pop(0)
    elif act == "reverse":
        out.reverse()
    elif act == "rotate" and out:
        out = out[1:] + out[:1]
    elif act == "dup" and out:
        out.append(copy.deepcopy(out[0]))
    elif act == "insert0":
        out.insert(0, draw(leaf))
    elif act == "twist-all":
        out = [twist(e) for e in out]
    elif act == "sort":
        out.sort(key=canon)
    elif act == "elem" and out:
        i = draw(st.integers(0, len(out) - 1))
        e = out[i]
        if type(e) is dict and depth < 4:
            out[i] = mutate_dict(draw, st, keys, leaf, value, e, depth + 1)
        elif type(e) is list and depth < 4:
            out[i] = mutate_list(draw, st, keys, leaf, value, e, depth + 1)
        else:
            out[i] = twist(e)
    return out


def _strategies():
    from hypothesis import strategies as st

    keys = st.one_of(st.sampled_from(SPECIAL_KEYS), st.sampled_from(SPECIAL_KEYS[:6]), st.text(max_size=3))
    leaf = st.one_of(
        st.none(), st.booleans(), st.integers(-2, 2), st.sampled_from([2 ** 53 + 1, -(2 ** 63), 10 ** 20]),
        st.sampled_from([0.0, -0.0, 1.0, -1.0, 0.1, 1e16, 5e-324, 1.7976931348623157e308, 2.5]),
        st.floats(allow_nan=False, allow_infinity=False),
        st.sampled_from(["", "s", "a.b", "é", "true", "1", "l\u2028s", "n\x85l", "a\nb", "\u2029", "\x00", "s" * 200]),
        st.text(max_size=3))
    value = st.recursive(leaf, lambda ch: st.one_of(st.lists(ch, max_size=3), st.dictionaries(keys, ch, max_size=4),
                                                    st.lists(st.dictionaries(keys, ch, max_size=2), min_size=1, max_size=3)),
                         max_leaves=10)
    obj = st.dictionaries(keys, value, max_size=5)
    return st, keys, leaf, value, obj


def twist(v):
    """A JSON value that is a *near miss* of v: Python-equal but JSON-different where possible."""
    if v is True:
        return 1
    if v is False:
        return 0
    if v is None:
        return False
    t = type(v)
    if t is int:
        f = float(v) if abs(v) < 2 ** 53 or (abs(v) < 2 ** 1000 and int(float(v)) == v) else None
        if v == 1:
            return 1.0
        return f if f is not None else v + 1
    if t is float:
        if v == 1.0:
            return True
        if v == 0.0:
            return 0.0 if math.copysign(1.0, v) < 0 else -0.0
        return int(v) if v.is_integer() and abs(v) < 2 ** 53 else v / 2
    if t is str:
        return v + "."
    if t is list:
        return [twist(v[0])] + v[1:] if v else [[]]
    if t is dict:
        if v:
            k = sorted(v)[0]
            out = dict(v)
            out[k] = twist(v[k])
            return out
        return {"": {}}
    return v


def mutate_dict(draw, st, keys, leaf, value, d, depth):
    out = {}
    for k, v in d.items():
        act = draw(st.sampled_from(ACTIONS))
        if act == "del":
            continue
        if act == "twist":
            out[k] = twist(v)
        elif act == "replace":
            out[k] = draw(value)
        elif act == "flip":
            out[k] = draw(leaf) if type(v) is dict else draw(st.dictionaries(keys, leaf, max_size=2))
        elif act == "recurse" and type(v) is dict and depth < 4:
            out[k] = mutate_dict(draw, st, keys, leaf, value, v, depth + 1)
        elif act == "recurse" and type(v) is list and depth < 4:
            out[k] = mutate_list(draw, st, keys, leaf, value, v, depth + 1)
        elif act == "listdict" and list_as_dict(v) is not None:
            out[k] = list_as_dict(v)
        elif act == "stringify" and type(v) is not str:
            out[k] = str(v) if draw(st.booleans()) else json.dumps(v)
        else:
            out[k] = copy.deepcopy(v)
    for _ in range(draw(st.integers(0, 2))):
        out[draw(keys)] = draw(value)
    # confusable sibling: next to a key of base, a key that differs only in unicode form / case / separator characters
    if d and draw(st.integers(0, 3)) == 0:
        k = draw(st.sampled_from(sorted(d)))
        tw = key_twins(k)
        if tw:
            t = draw(st.sampled_from(tw))
            how = draw(st.sampled_from(["same", "twist", "fresh"]))
            out[t] = copy.deepcopy(d[k]) if how == "same" else twist(d[k]) if how == "twist" else draw(value)
    # path collision: a sibling key spelling the path of a nested one
    if depth == 0 and draw(st.integers(0, 3)) == 0:
        for k, v in d.items():
            if type(v) is dict and v:
                out[k + draw(st.sampled_from(SEP_CHARS)) + sorted(v)[0]] = draw(leaf)
                break
    return out


def pair_strategy():
    st, keys, leaf, value, obj = _strategies()

    @st.composite
    def pairs(draw):
        base = draw(obj)
        if draw(st.integers(0, 9)) == 0:
            cur = draw(obj)
        else:
            cur = mutate_dict(draw, st, keys, leaf, value, base, 0)
        if draw(st.integers(0, 7)) == 0:
            # deep chain: the same pair, buried under a path of (awkward) keys, with a sibling here and there
            for k in draw(st.lists(keys, min_size=3, max_size=14)):
                nb, nc = {k: base}, {k: cur}
                sib = draw(st.integers(0, 5))
                if sib == 0:
                    nb[draw(st.sampled_from(key_twins(k)))] = draw(leaf)
                elif sib == 1:
                    nc[draw(keys)] = draw(leaf)
                elif sib == 2:
                    k2, v = draw(keys), draw(leaf)
                    nb.setdefault(k2, v)
                    nc.setdefault(k2, twist(v))
                base, cur = nb, nc
        return {"base": base, "cur": cur}

    return pairs()


def sub_codec_random(rec, seed, shard, nshards, n=500, shrink=True):
    def body(case):
        base, cur = case["base"], case["cur"]
        check_pair(base, cur, rec)
        labels, nt = pair_labels(base, cur)
        rec.case(nontrivial=nt, dig=digest(case) if nt else None, labels=labels, sample=case if nt else None)

    run_hypothesis(rec, seed, pair_strategy(), body, max_examples=n, shrink=shrink, name="codec_random")


# =====================================================================================================
# (a3) atheris byte target (optional)
# =====================================================================================================

class ByteReader:
    """Tiny stand-in for FuzzedDataProvider so that a fuzz input can be decoded (and replayed) without atheris."""

    def __init__(self, data: bytes):
        self.d = data
        self.i = 0

    def pick(self, n: int) -> int:
        if n <= 1:
            return 0
        if self.i >= len(self.d):
            return 0
        v = self.d[self.i]
        self.i += 1
        return v % n

    def left(self) -> int:
        return len(self.d) - self.i


F_KEYS = ["a", "b", "", "a.b", ".", "é", "a.", "\\", "a\\.b", "_adds", "n1→n2", "c",
          "\u2028", "e\u0301", "A", "a\\", "\n", "k" * 80, "~1", "/", "ab", "0", "1"]
F_LEAVES = [0, 1, 1.0, True, False, None, "s", "", -0.0, 0.0, [], [1], [True], {}, 2]


def _f_value(r: ByteReader, depth: int):
    c = r.pick(8)
    if c < 5 or depth >= 3 or r.left() == 0:
        return copy.deepcopy(F_LEAVES[r.pick(len(F_LEAVES))])
    if c < 7:
        return _f_obj(r, depth + 1)
    return [_f_value(r, depth + 1) for _ in range(r.pick(3))]


def _f_obj(r: ByteReader, depth: int):
    out = {}
    for _ in range(r.pick(4 if depth else 5)):
        k = F_KEYS[r.pick(len(F_KEYS))]
        out[k] = _f_value(r, depth)
    return out


def _f_mutate(r: ByteReader, d, depth):
    out = {}
    for k, v in d.items():
        a = r.pick(8)
        if a == 0:
            continue
        if a == 1:
            out[k] = twist(v)
        elif a == 2:
            out[k] = _f_value(r, depth)
        elif a == 3:
            out[k] = F_LEAVES[r.pick(len(F_LEAVES))] if type(v) is dict else {F_KEYS[r.pick(len(F_KEYS))]: 1}
        elif a in (4, 5) and type(v) is dict and depth < 3:
            out[k] = _f_mutate(r, v, depth + 1)
        elif a in (4, 5) and type(v) is list:
            w = copy.deepcopy(v)
            b = r.pick(6)
            if b == 0:
                w.append(_f_value(r, depth + 1))
            elif b == 1 and w:
                w.pop()
            elif b == 2:
                w.reverse()
            elif b == 3 and w:
                w = w[1:] + w[:1]
            elif b == 4 and w:
                w[-1] = _f_mutate(r, w[-1], depth + 1) if type(w[-1]) is dict and depth < 3 else twist(w[-1])
            else:
                w = list_as_dict(w)
            out[k] = w
        else:
            out[k] = copy.deepcopy(v)
    for _ in range(r.pick(3)):
        out[F_KEYS[r.pick(len(F_KEYS))]] = _f_value(r, depth)
    return out


def _reject_constant(name):
    raise ValueError(name)


def decode_pair(data: bytes):
    """bytes -> (base, cur) or None. 'J' + JSON text of [base, cur] is taken literally (corpus seeds from the repo's
    own tests); anything else drives the structure-aware builder."""
    if data[:1] == b"J":
        try:
            v = json.loads(data[1:].decode("utf-8"), parse_constant=_reject_constant)
            if type(v) is list and len(v) == 2 and type(v[0]) is dict and type(v[1]) is dict:
                canon(v)
                return v[0], v[1]
        except (ValueError, NotJson, RecursionError):
            pass
        return None
    r = ByteReader(data)
    base = _f_obj(r, 0)
    cur = _f_obj(r, 0) if r.pick(8) == 0 else _f_mutate(r, base, 0)
    return base, cur


def shrink_pair(base, cur, still_fails):
    """Greedy structural shrink of a failing pair (used for fuzz findings; Hypothesis shrinks its own)."""
    def variants(obj):
        for k in list(obj):
            o = dict(obj)
            del o[k]
            yield o
            v = obj[k]
            if type(v) is dict:
                for sub in variants(v):
                    o = dict(obj)
                    o[k] = sub
                    yield o
            elif type(v) is list and v:
                o = dict(obj)
                o[k] = v[:-1]
                yield o
    improved = True
    while improved:
        improved = False
        for which in (0, 1):
            for cand in variants((base, cur)[which]):
                nb, nc = (cand, cur) if which == 0 else (base, cand)
                if still_fails(nb, nc):
                    base, cur = nb, nc
                    improved = True
                    break
            if improved:
                break
    return base, cur


def atheris_available() -> bool:
    try:
        import atheris  # noqa: F401
        return True
    except Exception:
        return False


def sub_codec_atheris(rec, seed, shard, nshards, runs=20000):
    if not atheris_available():
        rec.note("atheris", "not importable: fuzz sub-check skipped (Hypothesis/exhaustive sub-checks decide the property)")
        return
    verif = os.path.dirname(os.path.dirname(os.path.abspath(__file__)))
    target = os.path.join(verif, "fuzz", "c07_delta_fuzz.py")
    work = tempfile.mkdtemp(prefix="c07_fz_", dir=_tmp_base())
    try:
        corpus = os.path.join(work, "corpus")
        os.makedirs(corpus)
        seeds = os.path.join(verif, "corpus", "C07")
        env = dict(os.environ)
        env["C07_FUZZ_OUT"] = work
        env["C07_FUZZ_KNOWN"] = ",".join(sorted(rec.known))
        cmd = [sys.executable, target, f"-runs={int(runs)}", f"-seed={seed % (2 ** 31 - 1) + 1}", "-max_len=192",
               f"-artifact_prefix={work}/", "-verbosity=0", "-print_final_stats=1", corpus]
        if os.path.isdir(seeds):
            cmd.append(seeds)
        p = subprocess.run(cmd, env=env, cwd=work, stdout=subprocess.PIPE, stderr=subprocess.STDOUT)
        out = p.stdout.decode(errors="replace")
        stats = {}
        sp = os.path.join(work, "stats.json")
        if os.path.exists(sp):
            with open(sp, "r", encoding="utf-8") as f:
                stats = json.load(f)
        execs = int(stats.get("execs", 0))
        rec.case(nontrivial=False, n=execs)
        for lb, k in (stats.get("labels") or {}).items():
            rec.label(lb, k)
        for d in stats.get("nontrivial", []):
            rec.case(nontrivial=True, dig=d, n=0)
        for fid, k in (stats.get("excluded") or {}).items():
            rec.excluded[fid] = rec.excluded.get(fid, 0) + int(k)
        rec.note("atheris_execs", execs)
        fp = os.path.join(work, "failure.json")
        if os.path.exists(fp):
            with open(fp, "r", encoding="utf-8") as f:
                fail = json.load(f)
            b, c, sig = fail["base"], fail["cur"], fail["sig"]

            def still(nb, nc):
                try:
                    check_pair(nb, nc, _KnownOnly(rec.known))
                except Violation as v:
                    return v.sig == sig
                return False

            b, c = shrink_pair(b, c, still)
            try:
                check_pair(b, c, _KnownOnly(rec.known))
            except Violation as v:
                rec.violation("codec_atheris: " + v.message, v.case, v.sig)
            return
        if p.returncode != 0 or execs == 0:
            raise RuntimeError(f"atheris target failed rc={p.returncode}\n{out[-3000:]}")
    finally:
        shutil.rmtree(work, ignore_errors=True)


class _KnownOnly:
    """rec stand-in that answers is_known without counting (used while shrinking / inside the fuzz target)."""

    def __init__(self, known):
        self.known = known

    def is_known(self, fid):
        return fid in self.known


# =====================================================================================================
# (b) on disk
# =====================================================================================================

def _tmp_base():
    v = os.environ.get("VERIF_TMP")
    if v:
        return v
    if os.path.isdir("/dev/shm") and os.access("/dev/shm", os.W_OK):
        return "/dev/shm"
    return None


IDS = ["n1", "n2", "n.1", "a.b", "a", "b", "", "é", "a→b", "x.y→z", "n:1", ".", "g.1", "n.1.x"]
# (Hypothesis favours the front of a sampled_from list: the order interleaves the families, 'present' may be over-drawn)
SCENARIOS = ["present", "chain", "present_bdir", "reader_missing", "corrupt", "writer_missing", "reader_missing_sibling_gone",
             "present", "writer_mismatch", "reader_missing_sibling", "chain", "writer_only_delta", "present_sibling",
             "corrupt", "reader_missing", "present", "present_bdir", "reader_missing_sibling_gone"]
# [etag_from, etag_to]: plain, dotted, ordering traps ('9' < '10' numerically only), one a prefix/extension of the other
# or of the file-name parts ('.full', '.delta', '.json'), glob metacharacters, blanks, unicode twins, case twins, long
ETAG_PAIRS = [["A", "B"], ["1", "2"], ["aaaa", "bbbb"], ["e.1", "e.2"], ["2", "1"],
              ["9", "10"], ["10", "9"], ["1", "10"], ["10", "1"], ["x", "x.full"], ["x.full", "x"], ["x.delta", "x.full"],
              ["x.full.json", "x"], ["a*", "ab"], ["ab", "a*"], ["a?", "a*"], ["[ab]", "a"], ["b", "[ab]"], ["[!a]", "[a]"],
              ["v 1", "v 2"], [" 1", "1 "], ["\u00e9", "e\u0301"], ["A", "a"], ["-", "--"], ["a.json", "b.json"],
              ["0" * 100, "0" * 99 + "1"], ["{e}", "$e"], ["a%b", "a#b"], ["..", "..."], ["l\u2028", "l\x85"], ["\u212b", "\u00c5"],
              ["snapshot-1", "snapshot-2"], ["1.meta", "1"]]
SPECIAL_BLOBS = ["", "7b7d", "30", "31", "6e756c6c", "5b5d", "2222", "7b", "0a", "0a0a", "7b7d0a", "ff", "66616c7365",
                 "7b226d6f6465223a2266756c6c227d", "7b226d6f6465223a2266756c6c227d0a"] + [
    # header line + body that is NOT a full snapshot with an object body: wrong/absent mode, non-object bodies
    b.encode("utf-8").hex() for b in (
        # (falsy bodies null / [] and headers without a mode are left out: a reader may take them for an empty state)
        '{"mode":"full"}\n1', '{"mode":"full"}\n"s"', '{"mode":"full"}\n[{}]',
        '{"mode":"delta"}\n{}', '{"mode":"delta","delta_of":"x","etag_to":"y"}\n{"_adds":{"k":1},"_mods":{},"_dels":[]}',
        '[]\n{}', '"full"\n{}', '{"mode":"full"}\n{}x', '{"mode":"full"}\n{}\n{}')]


def disk_strategy():
    from hypothesis import strategies as st
    _st, keys, leaf, value, obj = _strategies()
    ids = st.sampled_from(IDS)
    num = st.one_of(st.integers(-2, 2), st.sampled_from([0.0, 1.0, -1.0, 0.5, 0.25, 1.5, 0.123456789]), st.booleans())

    @st.composite
    def edge(draw):
        # well-formed GEL edges, one per unordered endpoint pair (what write_snapshot emits): the loader keeps the
        # *last listed* record per pair and stops at the first malformed one, i.e. it is sensitive to key ORDER on
        # anything else, and key order is not part of a JSON object (nor of this property)
        a, b = sorted([draw(ids), draw(ids)])
        return {"src": a, "dst": b, "rel": draw(st.sampled_from(["coact", "r.1"])), "weight": draw(num),
                "updated_at": draw(st.sampled_from([None, "t1"])), "attrs": draw(st.sampled_from([{}, {}, {"k.1": 1}, {"": True}]))}

    def mutate_gel(draw, gel):
        edges = {}
        for k, e in gel["edges"].items():
            act = draw(st.sampled_from(["keep", "keep", "del", "weight", "twist", "attrs"]))
            if act == "del":
                continue
            e = copy.deepcopy(e)
            if act == "weight":
                e["weight"] = draw(num)
            elif act == "twist":
                e["weight"] = twist(e["weight"])
            elif act == "attrs":
                e["attrs"] = draw(st.sampled_from([{}, {"k.1": 2}, {"": 1}, {"k": {"a.b": 1}}]))
            edges[k] = e
        for _ in range(draw(st.integers(0, 2))):
            e = draw(edge())
            edges[f"{e['src']}→{e['dst']}"] = e
        nodes = {}
        for k, nd in gel["nodes"].items():
            act = draw(st.sampled_from(["keep", "keep", "del", "label"]))
            if act == "del":
                continue
            nodes[k] = {"id": k, "label": "z"} if act == "label" else dict(nd)
        for nid in draw(st.lists(ids, max_size=2, unique=True)):
            nodes.setdefault(nid, {"id": nid, "label": "new"})
        meta = dict(gel["meta"])
        meta["edges_count"] = len(edges)
        meta["concept_nodes_count"] = draw(st.integers(0, 2))
        return {"nodes": nodes, "edges": edges, "meta": meta}

    @st.composite
    def payload(draw):
        p = {}
        if draw(st.integers(0, 3)):
            p["version_etag"] = draw(st.sampled_from(["7", "v.2", 3, "B"]))
        p["turn"] = draw(st.integers(0, 5))
        kind = draw(st.sampled_from(["weights", "state", "state", "none"]))
        if kind == "weights":
            p["store"] = {"weights": [{"target_kind": draw(st.sampled_from(["node", "edge"])), "target_id": draw(ids),
                                       "attr": "weight", "value": draw(num)} for _ in range(draw(st.integers(0, 4)))]}
        elif kind == "state":
            graphs = {}
            for gid in draw(st.lists(ids, max_size=3, unique=True)):
                nodes = {nid: {"label": draw(st.sampled_from(["x", "y", ""])), "w": draw(num)}
                         for nid in draw(st.lists(ids, max_size=4, unique=True))}
                graphs[gid] = {"nodes": nodes, "meta": {"n": len(nodes)}}
            p["store"] = {"state": {"graphs": graphs}}
        else:
            p["store"] = {}
        edges = {}
        for _ in range(draw(st.integers(0, 4))):
            e = draw(edge())
            edges[f"{e['src']}→{e['dst']}"] = e
        nodes = {nid: {"id": nid, "label": draw(st.sampled_from(["x", "y"]))}
                 for nid in draw(st.lists(ids, max_size=4, unique=True))}
        p["gel"] = {"nodes": nodes, "edges": edges,
                    "meta": {"schema": "v1.1", "merges": [], "splits": [], "promotions": [],
                             "concept_nodes_count": draw(st.integers(0, 2)), "edges_count": len(edges)}}
        for k in draw(st.lists(st.sampled_from(["", "a.b", "t4_caps", "x", "store.state", "gel.nodes"]), max_size=2,
                               unique=True)):
            p[k] = draw(value)
        return p

    @st.composite
    def cases(draw):
        p0 = draw(payload())
        style = draw(st.integers(0, 11))
        if style == 0:
            p1 = draw(payload())
        elif style == 1:
            p1 = copy.deepcopy(p0)
        elif style >= 10:
            # the smallest baselines: an empty state object (present, but falsy) or a one-key object
            p0 = {} if style == 10 else {"version_etag": "0"}
            p1 = draw(st.one_of(payload(), st.dictionaries(keys, leaf, max_size=3)))
        else:
            p1 = mutate_dict(draw, st, keys, leaf, value, {k: v for k, v in p0.items() if k != "gel"}, 0)
            p1["gel"] = mutate_gel(draw, p0["gel"])
        if draw(st.integers(0, 11)) == 0:
            p1 = {}  # everything deleted: the reconstructed state is the empty object
        case = {"p0": p0, "p1": p1, "scenario": draw(st.sampled_from(SCENARIOS)),
                "etags": draw(st.one_of(st.sampled_from(ETAG_PAIRS[:5]), st.sampled_from(ETAG_PAIRS), st.sampled_from(ETAG_PAIRS[5:]))),
                "blobs": draw(st.lists(st.one_of(st.sampled_from(SPECIAL_BLOBS), st.binary(max_size=48).map(bytes.hex)),
                                       max_size=4, unique=True))}
        for q in (case["p0"], case["p1"]):
            _tame(q)
        # optional dimensions (absent in cases saved before they existed)
        case["clutter"] = draw(st.lists(st.sampled_from(CLUTTER), max_size=3, unique=True))
        case["pathlike"] = draw(st.booleans())
        case["shape"] = draw(st.integers(0, 2))
        case["rounds"] = draw(st.sampled_from([1, 1, 2]))
        case["probe_first"] = draw(st.booleans())
        big = draw(st.sampled_from([0] * 12 + [70_000, 1_200_000]))
        if big and type(case["p1"]) is dict:
            # payloads beyond the usual I/O buffer sizes (64 KiB, 1 MiB); the bulk is shared, a little of it changes
            case["big"] = big
        if draw(st.integers(0, 3)) == 0:
            case["pre"] = draw(st.one_of(payload(), st.just({}), st.just(copy.deepcopy(p1))))
        if case["scenario"] == "chain":
            q = {k: v for k, v in p1.items() if k != "gel"}
            p2 = mutate_dict(draw, st, keys, leaf, value, q, 0)
            p3 = mutate_dict(draw, st, keys, leaf, value, {k: v for k, v in p0.items() if k != "gel"}, 0)
            if "gel" in p1 and type(p1["gel"]) is dict and "edges" in p1["gel"] and draw(st.booleans()):
                p2["gel"] = copy.deepcopy(p1["gel"])
            if "gel" in p0 and draw(st.booleans()):
                p3["gel"] = mutate_gel(draw, p0["gel"])
            case["p2"], case["p3"] = _tame(p2), _tame(p3)
            case["chain_sibling"] = draw(st.booleans())
        return case

    return cases()


def _tame(p):
    """The loader keys store weights by str(target_kind), str(target_id), str(attr): for a container that text follows
    the key order of the object, which is no part of a JSON value.  Generated weight records keep scalar id fields."""
    st_ = p.get("store") if type(p) is dict else None
    ws = st_.get("weights") if type(st_) is dict else None
    if type(ws) is list:
        for it in ws:
            if type(it) is dict:
                for f in ("target_kind", "target_id", "attr"):
                    if type(it.get(f)) in (dict, list):
                        it[f] = canon(it[f])
    return p


class StoreDouble:
    def __init__(self):
        self.w = {}
        self.imported = None

    def import_state(self, s):
        self.imported = s  # a store may keep what it is handed (observe_load canonicalises it before anyone edits it)


def observe_load(root, shape=0):
    """What load_latest_snapshot builds from directory `root` (fresh state double). Path is not part of it.
    shape 0: ctx.cfg is a dict, state is a dict (engine.snapshot entry point); 1: ctx.cfg is a namespace tree, state is
    an object, entered through the engine.apply alias the orchestrator's boot hook uses; 2: only ctx.config is set."""
    store = StoreDouble()
    root = os.fspath(root)
    if shape == 1:
        from clematis.engine.apply import load_latest_snapshot
        state = SimpleNamespace(store=store, version_etag="init")
        ctx = SimpleNamespace(cfg=SimpleNamespace(t4=SimpleNamespace(snapshot_dir=root)), agent_id="ag")
        get = lambda k: getattr(state, k, None)
    else:
        from clematis.engine.snapshot import load_latest_snapshot
        state = {"store": store, "version_etag": "init"}
        if shape == 2:
            ctx = SimpleNamespace(config={"t4": {"snapshot_dir": root}}, agent_id="ag")
        else:
            ctx = SimpleNamespace(cfg={"t4": {"snapshot_dir": root}}, config=None, agent_id="ag")
        get = state.get
    res = load_latest_snapshot(ctx, state)
    ver_ret, ver_state = res.get("version_etag"), get("version_etag")
    if type(ver_ret) in (dict, list) and ver_state == str(ver_ret):
        # the loader stores str(version): for a container that text follows the key ORDER of the object, which is not
        # part of a JSON value (a reconstructed object and a parsed one may order their keys differently)
        ver_state = "str-of:" + try_canon(ver_ret)
    return {"loaded": res.get("loaded"), "ver_ret": ver_ret, "ver_state": ver_state,
            "w": sorted([list(k), v] for k, v in store.w.items()), "imported": store.imported,
            "graph": get("graph"), "gel": get("gel"),
            "file": os.path.basename(res["path"]) if res.get("path") else None}


def _obs_key(o):
    return try_canon({k: v for k, v in o.items() if k != "file"})


def _codecs():
    try:
        import zstandard  # noqa: F401
        return ["none", "zstd"]
    except Exception:
        return ["none"]


def _ext(codec):
    return ".json.zst" if codec == "zstd" else ".json"


def _write_full_dir(p, etag, codec, sub):
    """A directory holding only a plain full snapshot of payload p (the differential reference for load_latest)."""
    from clematis.engine.snapshot import write_snapshot_auto
    write_snapshot_auto(sub, etag_from=None, etag_to=etag, payload=p, compression=codec, delta_mode=False)
    return sub


def structural_offsets(raw: bytes, cap=72):
    """Truncation points: empty file, after every structural byte, just before / just after the header newline."""
    n = len(raw)
    nl = raw.find(b"\n")
    must = {0}
    if nl >= 0:
        must |= {nl, nl + 1, max(0, nl // 2), min(n - 1, nl + 2)}
    must.add(n - 1)
    rest = [i + 1 for i in range(n - 1) if raw[i:i + 1] in b'{}[],:"\n']
    must = sorted(x for x in must if 0 <= x < n)
    rest = [x for x in rest if x not in must and x < n]
    room = max(0, cap - len(must))
    if len(rest) > room:
        step = len(rest) / room if room else 0
        rest = [rest[int(i * step)] for i in range(room)]
    return sorted(set(must) | set(rest))


def _single_json_blob(blob: bytes) -> bool:
    """The bytes parse as ONE JSON document rather than as 'header line + body' (harness-side, independent)."""
    try:
        text = blob.decode("utf-8")
    except UnicodeDecodeError:
        return False
    lines = text.splitlines()
    if len(lines) >= 2:
        try:
            h = json.loads(lines[0])
            json.loads("\n".join(lines[1:]))
            if type(h) is dict:
                return False
        except ValueError:
            pass
    try:
        json.loads(text)
        return True
    except ValueError:
        return False


def _set_mtimes(root, newest):
    t = 1_000_000_000
    for fn in sorted(os.listdir(root)):
        p = os.path.join(root, fn)
        if os.path.isfile(p):
            os.utime(p, (t, t))
    if newest and os.path.exists(newest):
        os.utime(newest, (t + 100, t + 100))


def _poison(x, depth=0):
    """Edit a value a reader handed back, in place: a caller is free to do that, and it must never change what later reads
    (or a later delta write on the same baseline) see."""
    if depth > 6:
        return
    if isinstance(x, dict):
        for v in list(x.values()):
            _poison(v, depth + 1)
        for k in list(x.keys())[:1]:
            x[k] = "__edited_by_caller__"
        x["__edited_by_caller__"] = depth
    elif isinstance(x, list):
        for v in x:
            _poison(v, depth + 1)
        x.append("__edited_by_caller__")


def check_disk(case, rec=None):
    import logging
    logging.disable(logging.CRITICAL)
    total = 0
    for codec in _codecs():
        total += _check_disk_codec(case, codec, rec)
    return total


CLUTTER = ["near-etags", "strays", "orphan-sidecars", "no-sidecars"]
PRESENT_LIKE = ("present", "present_sibling", "present_bdir")


def _near_etags(ea, eb, taken):
    """Etags of distractor snapshots: extensions / prefixes / case twins of the real ones, names that spell file-name
    parts, and (for etags holding glob metacharacters) plain names the pattern would match."""
    import fnmatch
    pool = ["a", "b", "ab", "aa", "abc", "c", "1", "10", "0", "x", "e", "-"]
    out = []
    for e in (ea, eb):
        cands = [c for c in pool if c != e and fnmatch.fnmatchcase(c, e)][:2]
        cands += [e + ".full", e[:-1], e + "0", e + ".delta", e.swapcase(), e + ".full.json", "0" + e, e + " ", e[1:], e + e]
        k = 0
        for c in cands:
            if c and c not in taken and c not in out and len(c) < 120 and "/" not in c and "\x00" not in c:
                out.append(c)
                k += 1
                if k >= 4:
                    break
    return out


def _clutter_payload(tag):
    return {"version_etag": "clutter", "turn": 99, "clutter": tag, "store": {"state": {"clutter": tag}},
            "gel": {"nodes": {"clutter": {"id": "clutter", "label": tag}}, "edges": {},
                    "meta": {"schema": "v1.1", "merges": [], "splits": [], "promotions": [], "concept_nodes_count": 0,
                             "edges_count": 0}}}


def _full_text(etag, payload):
    return (json.dumps({"schema": "snapshot:v1", "mode": "full", "etag_to": etag, "codec": "none", "level": 0},
                       sort_keys=True, separators=(",", ":")) + "\n" + json.dumps(payload, sort_keys=True)).encode("utf-8")


def _check_disk_codec(case, codec, rec):
    import pathlib
    from clematis.engine.snapshot import write_snapshot_auto, read_snapshot
    from clematis.engine.util.snapshot_delta import compute_delta, apply_delta
    import clematis.io.snapshot as io_snapshot

    p0, p1 = case["p0"], case["p1"]
    scen = case["scenario"]
    ea, eb = case["etags"]
    big = int(case.get("big") or 0)
    if big and scen != "corrupt":
        # (kept out of the replay file: rebuilt from the size)  a long string value and many small records
        bulk = {"blob": "x" * big, "rows": {f"r{i}": {"i": i, "w": i / 7} for i in range(min(300, big // 400))}}
        p0 = dict(p0, bulk=bulk) if p0 else p0
        p1 = dict(p1, bulk=dict(bulk, blob=bulk["blob"][:-1] + "y", rows=dict(bulk["rows"], r0={"i": 0, "w": 0}))) if p1 else p1
    clutter = list(case.get("clutter") or [])
    shape = int(case.get("shape") or 0)
    rounds = int(case.get("rounds") or 1)
    PL = pathlib.Path if case.get("pathlike") else (lambda x: x)  # str or os.PathLike arguments
    c1 = canon(p1)
    cp0, cp1 = canon(p0), c1
    try:  # pristine JSON texts of both payloads (what the files hold), for the raw on-disk delta comparison
        cp0_json, cp1_json = json.dumps(p0), json.dumps(p1)
    except Exception:
        cp0_json = cp1_json = None
    evals = 0
    labels = [f"scenario:{scen}", f"codec:{codec}", f"load-shape:{shape}"]
    labels.append("args:pathlike" if case.get("pathlike") else "args:str")
    if big and scen != "corrupt":
        labels.append("payload:>64KiB" if big < 1_000_000 else "payload:>1MiB")
    for e in (ea, eb):
        if any(ch in e for ch in "*?["):
            labels.append("etag:glob-meta")
        if not e.isascii():
            labels.append("etag:nonascii")
        if ".full" in e or ".delta" in e or ".json" in e or ".meta" in e:
            labels.append("etag:spells-file-part")
    if ea.startswith(eb) or eb.startswith(ea):
        labels.append("etag:one-prefix-of-other")
    if ea.isdigit() and eb.isdigit() and (int(ea) < int(eb)) != (ea < eb):
        labels.append("etag:numeric-vs-lexicographic")

    # what the in-memory codec makes of (p0, p1): disk deviations that merely mirror a *listed* codec finding are
    # attributed to it, everything else is a disk-layer violation
    codec_causes = diagnose(p0, p1)
    codec_known = bool(codec_causes) and rec is not None and all(f is not None and f in rec.known for f, *_ in codec_causes)
    codec_result = None
    if codec_causes:
        try:
            codec_result = apply_delta(p0, json.loads(json.dumps(compute_delta(p0, p1))))
        except Exception:
            codec_result = None

    def viol(msg, sig, extra=None):
        c = dict(case)
        c["codec"] = codec
        if extra:
            c.update(extra)
        raise Violation(f"[{scen}/{codec}] {msg}", c, sig)

    def codec_excuse():
        for f, *_ in codec_causes:
            rec.is_known(f)  # counted
        labels.append("excused-by-codec-finding")

    root = tempfile.mkdtemp(prefix="c07_", dir=_tmp_base())
    old_env = os.environ.get("CLEMATIS_SNAPSHOT_DIR")
    os.environ["CLEMATIS_SNAPSHOT_DIR"] = os.path.join(root, "default")
    try:
        snap = os.path.join(root, "snap")
        os.makedirs(snap)
        ref_dir = _write_full_dir(p1, eb, codec, os.path.join(root, "ref"))
        ref_obs = observe_load(ref_dir, shape)
        ref_key = _obs_key(ref_obs)
        empty_key = _obs_key(observe_load(_write_full_dir({}, eb, codec, os.path.join(root, "ref_empty")), shape))
        cres_key = None
        if codec_result is not None and type(codec_result) is dict:
            cres_key = _obs_key(observe_load(_write_full_dir(codec_result, eb, codec, os.path.join(root, "ref_codec")), shape))
        ccres = try_canon(codec_result) if codec_result is not None else None
        full_name = f"snapshot-{ea}.full{_ext(codec)}"
        delta_name = f"snapshot-{eb}.delta{_ext(codec)}"
        ec, ed = ea + "~" + eb, eb + "~" + ea  # further etags (chain / writer_only_delta), distinct from ea, eb
        taken = {ea, eb, ec, ed, ea + "x"}

        def W(etag_from, etag_to, payload, delta_mode, d=None):
            return write_snapshot_auto(PL(snap if d is None else d), etag_from=etag_from, etag_to=etag_to, payload=payload,
                                       compression=codec, delta_mode=delta_mode)

        # ------------------------------------------------------------------ directory clutter (before any real write:
        # writer and readers both face it).  None of it is a snapshot of ea / eb / ec / ed, so none of it may matter.
        if "near-etags" in clutter:
            first = None
            for i, d in enumerate(_near_etags(ea, eb, taken)):
                # (written by hand, byte-compatible with the writer's format: a dozen fsync'ed atomic writes per case is slow)
                with open(os.path.join(snap, f"snapshot-{d}.full{_ext(codec)}"), "wb") as f:
                    f.write(_full_text(d, _clutter_payload(d)))
                first = first or d
                if i % 2:
                    with open(os.path.join(snap, f"snapshot-{d}.delta{_ext(codec)}"), "wb") as f:
                        f.write((json.dumps({"schema": "snapshot:v1", "mode": "delta", "etag_from": first, "delta_of": first,
                                             "etag_to": d, "codec": "none", "level": 0}, sort_keys=True, separators=(",", ":"))
                                 + "\n" + json.dumps({"_adds": {"clutter2": d}, "_mods": {}, "_dels": []})).encode("utf-8"))
            labels.append("clutter:near-etags")
        if "strays" in clutter:
            other = _full_text("stray", _clutter_payload("stray"))
            for stem in (f"snapshot-{ea}.full", f"snapshot-{eb}.delta", f"snapshot-{eb}.full", f"snapshot-{ec}.full"):
                for name, blob in ((stem + _ext(codec) + ".k3j2h1ab", other),   # left by an interrupted atomic write
                                   (stem + _ext(codec) + ".bak", other), (stem + _ext(codec) + "~", other[:len(other) // 2]),
                                   ("." + stem + _ext(codec) + ".swp", b"\x00b0VIM"), (stem + ".jsonl", other),
                                   (stem + ".json5", other), (stem + ".txt", other),
                                   # left from a time when compression was switched on: a sibling under the OTHER codec's
                                   # name with different (older) content; the file just written for the etag is the snapshot
                                   (stem + (".json.zst" if codec == "none" else ".json"), other)):
                    if name.endswith((".json", ".json.zst")) and stem != f"snapshot-{ea}.full":
                        continue  # (only next to the baseline: for eb it would be a second, contradicting snapshot of eb)
                    if len(name.encode("utf-8")) < 250:
                        with open(os.path.join(snap, name), "wb") as f:
                            f.write(blob)
            labels.append("clutter:strays")
        if "orphan-sidecars" in clutter:
            side = b'{"created_at": "1980-01-01T00:00:00Z", "schema_version": "v1"}\n'
            for name in (f"snapshot-{eb}.full{_ext(codec)}.meta", f"snapshot-{ea}.delta{_ext(codec)}.meta",
                         f"snapshot-{ea}0.full{_ext(codec)}.meta", f"snapshot-{ec}.delta{_ext(codec)}.meta"):
                if len(name.encode("utf-8")) < 250:
                    with open(os.path.join(snap, name), "wb") as f:
                        f.write(side)
            labels.append("clutter:orphan-sidecars")

        def drop_sidecars():
            if "no-sidecars" in clutter:  # bodies without sidecars: the sidecar is for inspectors, readers never need it
                for fn in os.listdir(snap):
                    if fn.endswith(".meta") and os.path.isfile(os.path.join(snap, fn[:-5])):
                        os.unlink(os.path.join(snap, fn))

        def same_p1(got, who, strict):
            """got must be P1 (strict) or one of {P1, {}} (not strict). Returns after raising/excusing."""
            cg = try_canon(got)
            if cg == c1:
                return "p1"
            if not strict and type(got) is dict and not got:
                return "empty"
            if codec_known and ccres is not None and cg == ccres:
                codec_excuse()
                return "codec-known"
            if codec_causes and ccres is not None and cg == ccres:
                f = next((x for x in codec_causes if x[0] is None or rec is None or x[0] not in rec.known), codec_causes[0])
                viol(f"{who} returns {cg[:300]} instead of P1 = {c1[:300]} (the in-memory codec gives the same wrong "
                     f"object)", f[1], {"reader": who})
            viol(f"{who} returns {cg[:300]}, which is neither P1 = {c1[:300]}" + ("" if strict else " nor {}"),
                 "disk-wrong-payload" if strict else "disk-wrong-reconstruction", {"reader": who})

        def load_ok(who, strict):
            """load_latest_snapshot on `snap`: state must equal the reference (strict) or report absence."""
            try:
                obs = observe_load(PL(snap), shape)
            except Exception as e:
                if strict:
                    viol(f"load_latest_snapshot raised {type(e).__name__}: {e}", "load-raises", {"reader": who})
                return "raised"
            k = _obs_key(obs)
            for part in ("graph", "gel", "imported"):  # the state built belongs to the caller: editing it must not
                _poison(obs.get(part))                 # reach what later reads see
            if k == ref_key:
                return "p1"
            if not strict and obs["loaded"] is False:
                if obs["ver_state"] != "init":
                    viol(f"load_latest_snapshot says loaded=False but advanced the version to {obs['ver_state']!r}",
                         "load-absent-but-version-advanced", {"reader": who})
                return "absent"
            if cres_key is not None and k == cres_key:
                if codec_known:
                    codec_excuse()
                    return "codec-known"
                f = next((x for x in codec_causes if x[0] is None or rec is None or x[0] not in rec.known), codec_causes[0])
                viol(f"load_latest_snapshot builds the state of the codec's wrong object, not of P1: {k[:400]} vs {ref_key[:400]}",
                     f[1], {"reader": who})
            if not strict and scen.startswith("reader_missing") and k == empty_key and obs["loaded"] is True:
                # FINDING load-latest-missing-baseline: delta body taken for a payload, version advanced, nothing loaded
                if rec is not None and rec.is_known(FID_LOAD):
                    labels.append("known:" + FID_LOAD)
                    return "known"
                viol(f"baseline missing: load_latest_snapshot reports loaded=True and moves the version to "
                     f"{obs['ver_state']!r} with empty content (state of P1 would be {ref_key[:300]})", FID_LOAD,
                     {"reader": who})
            viol(f"load_latest_snapshot builds a wrong state: {k[:500]} but a full snapshot of P1 gives {ref_key[:500]}",
                 "load-wrong-state" if strict else "load-wrong-reconstruction", {"reader": who})

        def readers(strict, target_path, note, on_viol=None, bdir=None, do_load=True, order=0):
            """Run the readers of etag eb; on_viol(v) returns (outcome label) only when the failure is a listed finding.
            bdir: the directory holding the baseline when it is not the snapshot directory (baseline_dir= argument)."""
            nonlocal evals
            outs = []
            drop_sidecars()

            def guarded(fn):
                try:
                    return fn()
                except Violation as v:
                    if on_viol is None:
                        raise
                    return on_viol(v)

            if bdir is None:
                plan = [("read_snapshot(path=)", lambda: read_snapshot(path=PL(target_path))),
                        ("read_snapshot(root, etag_to=)", lambda: read_snapshot(PL(snap), etag_to=eb)),
                        ("io.read_snapshot(root=, etag_to=, baseline_dir=)",
                         lambda: io_snapshot.read_snapshot(root=PL(snap), etag_to=eb, baseline_dir=PL(snap)))]
            else:
                plan = [("read_snapshot(path=, baseline_dir=)", lambda: read_snapshot(path=PL(target_path), baseline_dir=PL(bdir))),
                        ("read_snapshot(root, etag_to=, baseline_dir=)",
                         lambda: read_snapshot(PL(snap), etag_to=eb, baseline_dir=PL(bdir))),
                        ("io.read_snapshot(root=, etag_to=, baseline_dir=)",
                         lambda: io_snapshot.read_snapshot(root=PL(snap), etag_to=eb, baseline_dir=PL(bdir)))]
            if do_load:
                plan.append(("load_latest_snapshot", None))
            if order:
                plan.reverse()
            for who, fn in plan:
                evals += 1
                if fn is None:
                    outs.append(guarded(lambda: load_ok("load_latest_snapshot", strict)))
                    continue
                try:
                    got = fn()
                except Exception as e:
                    if strict:
                        viol(f"{who} raised {type(e).__name__}: {e}", "read-raises", {"reader": who})
                    outs.append("raised")
                    continue
                outs.append(guarded(lambda: same_p1(got, who, strict)))
                _poison(got)  # the next reader must not see the caller's edits
            for o in outs:
                labels.append(f"{note}:{o}")
            return outs

        def exact(got, want_canon, who, sig):
            cg = try_canon(got)
            if cg != want_canon:
                viol(f"{who} returns {cg[:300]} instead of the payload written, {want_canon[:300]}", sig, {"reader": who})

        if case.get("probe_first"):
            # every lookup is made once BEFORE anything real is written (nothing there yet: whatever comes back is not
            # judged); a reader or writer that remembers "not found" must not serve that answer after the write
            labels.append("probed-before-written")
            for e in (ea, eb):
                for fn in (lambda: read_snapshot(PL(snap), etag_to=e),
                           lambda: io_snapshot.read_snapshot(root=PL(snap), etag_to=e, baseline_dir=PL(snap)),
                           lambda: read_snapshot(path=PL(os.path.join(snap, f"snapshot-{e}.delta{_ext(codec)}"))),
                           lambda: read_snapshot(path=PL(os.path.join(snap, f"snapshot-{e}.full{_ext(codec)}")))):
                    try:
                        fn()
                    except Exception:
                        pass
            try:
                observe_load(PL(snap), shape)
            except Exception:
                pass

        # ------------------------------------------------------------------ scenarios
        wrote_delta = False
        if scen in ("writer_missing", "writer_mismatch", "writer_only_delta"):
            if scen == "writer_mismatch":  # a full exists, but for another etag than etag_from
                W(None, ea + "x", p0, False)
            elif scen == "writer_only_delta":  # etag_from exists, but only as a DELTA (of ec): a patch is not a baseline
                W(None, ec, p0, False)
                _pth, wd_ = W(ec, ea, p0, True)
                labels.append("etag_from-is-a-delta" if wd_ else "etag_from-is-a-full")
                if not wd_:  # the writer chose a full for ea after all: then ea IS a baseline; not this scenario
                    os.unlink(_pth)
            try:
                path, wd = W(ea, eb, p1, True)
            except Exception:
                labels.append("writer:raised")
                path, wd = None, None
            if path is not None:
                if wd or os.path.basename(path) != f"snapshot-{eb}.full{_ext(codec)}":
                    viol(f"no baseline for etag_from={ea!r}, yet the writer returned ({os.path.basename(path)}, {wd})",
                         "writer-delta-without-baseline")
                _set_mtimes(snap, path)
                readers(True, path, "full")
        elif scen == "chain":
            p2, p3 = case.get("p2", p1), case.get("p3", p0)
            written = []
            fp, wd0 = W(None, ea, p0, False)
            written.append((ea, p0, fp))
            dp, wrote_delta = W(ea, eb, p1, True)
            written.append((eb, p1, dp))
            if case.get("chain_sibling"):
                W(None, eb, p1, False)  # eb also has a full: a legitimate baseline for the next step
                labels.append("chain:eb-has-full")
            p2path, wd2 = W(eb, ec, p2, True)      # etag_from = eb, which (without the sibling) exists only as a delta
            if wd2 and not case.get("chain_sibling"):
                viol(f"etag_from={eb!r} exists only as a delta (no full snapshot), yet the writer returned "
                     f"({os.path.basename(p2path)}, {wd2})", "writer-delta-without-baseline")
            written.append((ec, p2, p2path))
            p3path, wd3 = W(ea, ed, p3, True)      # a second delta off the same baseline
            written.append((ed, p3, p3path))
            labels.append(f"chain:{'d' if wrote_delta else 'f'}{'d' if wd2 else 'f'}{'d' if wd3 else 'f'}")
            drop_sidecars()
            for rnd in range(rounds):
                for etag, pl, pth in (written if rnd == 0 else written[::-1]):
                    cw = canon(pl)
                    for who, fn in (("read_snapshot(path=)", lambda: read_snapshot(path=PL(pth))),
                                    ("read_snapshot(root, etag_to=)", lambda: read_snapshot(PL(snap), etag_to=etag))):
                        evals += 1
                        try:
                            got = fn()
                        except Exception as e:
                            viol(f"{who} of etag {etag!r} raised {type(e).__name__}: {e}", "read-raises", {"reader": who})
                        exact(got, cw, f"{who} of etag {etag!r}", "disk-wrong-payload")
                        _poison(got)
            for etag, pl, pth in written[1:]:
                if not pth.endswith(".json"):
                    continue
                evals += 1
                _set_mtimes(snap, pth)
                want = _obs_key(observe_load(_write_full_dir(pl, etag, codec, os.path.join(root, "ref_" + str(len(os.listdir(root))))), shape))
                try:
                    obs = observe_load(PL(snap), shape)
                except Exception as e:
                    viol(f"load_latest_snapshot raised {type(e).__name__}: {e}", "load-raises")
                if _obs_key(obs) != want:
                    viol(f"load_latest_snapshot (newest file: etag {etag!r}) builds a wrong state: {_obs_key(obs)[:400]} but a full "
                         f"snapshot of that payload gives {want[:400]}", "load-wrong-state")
                _poison(obs.get("graph"))
        else:
            px = case.get("pre")
            if px is not None and scen in PRESENT_LIKE:
                # the same two file names held other content before and were read in this process: files are replaced in
                # place (same etag written again), and what was read earlier must not survive the replacement
                labels.append("files-rewritten-in-place")
                W(None, ea, px, False)
                exact(read_snapshot(PL(snap), etag_to=ea), canon(px), "read_snapshot(root, etag_to=) of the full snapshot", "full-readback")
                dpx, wdx = W(ea, eb, p0, True)
                if not diagnose(px, p0):
                    exact(read_snapshot(path=PL(dpx)), cp0, "read_snapshot(path=) of the earlier delta", "disk-wrong-payload")
                    exact(read_snapshot(PL(snap), etag_to=eb), cp0, "read_snapshot(root, etag_to=) of the earlier delta", "disk-wrong-payload")
                try:
                    _poison(observe_load(PL(snap), shape))
                except Exception:
                    pass
            fpath, wd0 = W(None, ea, p0, False)
            if wd0 or os.path.basename(fpath) != full_name:
                viol(f"full write returned ({os.path.basename(fpath)}, {wd0})", "writer-full-shape")
            if canon(p0) != cp0:
                viol("write_snapshot_auto mutated the payload", "mutates-input")
            if len(case["blobs"]) % 2 == 0:
                # the usual incremental flow: read the baseline back, edit the returned object in place, then write a delta
                how = (len(case["blobs"]) // 2 + shape) % 3
                try:
                    if how == 0:
                        a_back = read_snapshot(PL(snap), etag_to=ea)
                    elif how == 1:
                        a_back = read_snapshot(path=PL(fpath))
                    else:
                        a_back = io_snapshot.read_snapshot(root=PL(snap), etag_to=ea, baseline_dir=PL(snap))
                except Exception as e:
                    viol(f"reading a freshly written full snapshot raised {type(e).__name__}: {e}", "read-raises")
                if canon(a_back) != cp0:
                    viol(f"full snapshot read back as {canon(a_back)[:300]} instead of P0", "full-readback")
                _poison(a_back)
                try:
                    _poison(observe_load(PL(snap), shape))  # the boot loader's state may alias the parsed payload, too
                except Exception:
                    pass
                labels.append("baseline-read-then-edited")
            dpath, wrote_delta = W(ea, eb, p1, True)
            if canon(p1) != cp1:
                viol("write_snapshot_auto mutated the payload", "mutates-input")
            labels.append("wrote_delta" if wrote_delta else "writer-fell-back-to-full")
            if wrote_delta and codec == "none":
                # what is ON DISK must be the delta from the baseline file's content to P1 (raw parse, no reader involved)
                with open(dpath, "rb") as f:
                    lines = f.read().split(b"\n", 1)
                try:
                    disk_delta = json.loads(lines[1].decode("utf-8")) if len(lines) > 1 and lines[1].strip() else None
                except ValueError as e:
                    viol(f"the delta file's body is not JSON ({e}): {lines[1][:200]!r}", "disk-delta-wrong")
                want_delta = compute_delta(json.loads(cp0_json), json.loads(cp1_json)) if cp0_json is not None else None
                if want_delta is not None and canon(disk_delta) != canon(want_delta):
                    viol(f"delta body on disk {canon(disk_delta)[:300]} is not the delta from the baseline file's payload to P1 "
                         f"{canon(want_delta)[:300]}", "disk-delta-wrong")
            if wrote_delta and os.path.basename(dpath) != delta_name:
                viol(f"delta written under {os.path.basename(dpath)}", "writer-delta-name")
            if scen in ("present", "present_sibling"):
                if scen == "present_sibling":
                    W(None, eb, p1, False)  # etag eb exists as a delta AND as a full of the same payload
                for rnd in range(rounds):
                    _set_mtimes(snap, dpath)
                    readers(True, dpath, "present" if rnd == 0 else "present-again", order=rnd)
            elif scen == "present_bdir":
                # the baseline is kept in another directory, handed to the readers as baseline_dir=
                bdir = os.path.join(root, "base dir")
                os.makedirs(bdir)
                shutil.move(fpath, os.path.join(bdir, os.path.basename(fpath)))
                if os.path.exists(fpath + ".meta"):
                    shutil.move(fpath + ".meta", os.path.join(bdir, os.path.basename(fpath) + ".meta"))
                _set_mtimes(snap, dpath)
                for rnd in range(rounds):
                    readers(True, dpath, "bdir", bdir=bdir, do_load=False, order=rnd)
                readers(False, dpath, "bdir-not-given")  # without the argument the baseline is simply missing
            elif scen in ("reader_missing", "reader_missing_sibling", "reader_missing_sibling_gone"):
                if scen != "reader_missing":
                    spath, _ = W(None, eb, p1, False)
                    if scen == "reader_missing_sibling_gone":
                        # the sibling full snapshot's BODY was cleaned up again; whatever sidecar it had stays behind
                        os.unlink(spath)
                        labels.append("sibling-sidecar-left" if os.path.exists(spath + ".meta") else "sibling-no-sidecar")
                os.unlink(fpath)
                if os.path.exists(fpath + ".meta") and len(case["blobs"]) % 2:
                    os.unlink(fpath + ".meta")
                elif os.path.exists(fpath + ".meta"):
                    labels.append("baseline-sidecar-left")
                # the removed full snapshot itself: absence ({}) or an error, never an object that was not written as a state
                evals += 1
                try:
                    gone = read_snapshot(PL(snap), etag_to=ea)
                except Exception:
                    labels.append("removed-full:raised")
                else:
                    if canon(gone) not in (canon({}), canon(None)) and not (ea == eb and scen == "reader_missing_sibling" and canon(gone) == cp1):
                        viol(f"the full snapshot of {ea!r} was removed, yet read_snapshot(root, etag_to=) returns {canon(gone)[:300]}",
                             "removed-full-read-returns-object")
                    labels.append("removed-full:absent")
                _set_mtimes(snap, dpath)
                readers(False, dpath, "missing")
            elif scen == "corrupt":
                with open(fpath, "rb") as f:
                    raw = f.read()
                with open(dpath, "rb") as f:
                    draw_ = f.read()
                only = case.get("only")
                if only is not None:
                    plan = [only]
                else:
                    plan = [{"kind": "truncate", "offset": o} for o in structural_offsets(raw)]
                    plan += [{"kind": "blob", "hex": h} for h in case["blobs"]]
                    plan += [{"kind": "delta-copy"}]  # the baseline's name holds a copy of the DELTA file (a patch, not a state)
                nl = raw.find(b"\n")
                for cor in plan:
                    if cor["kind"] == "truncate":
                        off = nl + 1 if cor["offset"] == "after-header" else int(cor["offset"])
                        if off >= len(raw):
                            continue
                        blob = raw[:off]
                        where = ("empty" if off == 0 else "mid-header" if off < nl else "after-header" if off in (nl, nl + 1)
                                 else "mid-body")
                        labels.append("truncate:" + where)
                    elif cor["kind"] == "delta-copy":
                        if not wrote_delta or cp0 == "{}":
                            continue
                        blob = draw_
                        labels.append("baseline-is-a-delta-file")
                    else:
                        blob = bytes.fromhex(cor["hex"])
                        if blob == raw:
                            continue
                        labels.append("blob")
                    with open(fpath, "wb") as f:
                        f.write(blob)
                    _set_mtimes(snap, dpath)

                    def on_viol(v, blob=blob, cor=cor):
                        vc = dict(v.case)
                        vc["only"] = cor
                        if _single_json_blob(blob) and v.sig in ("disk-wrong-reconstruction", "load-wrong-reconstruction"):
                            # FINDING delta-baseline-unvalidated: a baseline that is ONE JSON document (e.g. only the
                            # header line survived) is taken for a legacy single-JSON payload and patched
                            if rec is not None and rec.is_known(FID_BASE):
                                return "known:" + FID_BASE
                            raise Violation(v.message + f"  [baseline file content: {blob[:120]!r}]", vc, FID_BASE)
                        raise Violation(v.message, vc, v.sig)

                    readers(False, dpath, "corrupt", on_viol)
                    # the writer facing the corrupt baseline may raise or fall back; whatever it writes must read back
                    evals += 1
                    w2 = os.path.join(root, "snap_w")
                    shutil.rmtree(w2, ignore_errors=True)
                    os.makedirs(w2)
                    shutil.copy(fpath, os.path.join(w2, full_name))
                    try:
                        p2, wd2 = W(ea, eb, p1, True, d=w2)
                    except Exception:
                        labels.append("writer-on-corrupt:raised")
                    else:
                        labels.append("writer-on-corrupt:" + ("delta" if wd2 else "full"))
                        try:
                            got = read_snapshot(path=PL(p2))
                        except Exception:
                            if not wd2:
                                viol("the full snapshot written as fallback cannot be read", "writer-fallback-wrong", {"only": cor})
                            got = None
                        if got is not None:
                            try:
                                same_p1(got, "read_snapshot(path=) of what the writer produced next to the corrupt baseline", not wd2)
                            except Violation as v:
                                on_viol(v)
            else:
                raise RuntimeError(f"unknown scenario {scen}")
        if rec is not None:
            nt = bool(wrote_delta) and cp0 != cp1
            pl, _ = pair_labels(p0, p1)
            rec.case(nontrivial=nt, dig=digest([case, codec]) if nt else None, labels=labels + ["delta:" + x for x in pl],
                     n=max(1, evals),
                     sample={"scenario": scen, "p0": case["p0"], "p1": case["p1"]} if nt and scen != "present" else None)
        return evals
    finally:
        if old_env is None:
            os.environ.pop("CLEMATIS_SNAPSHOT_DIR", None)
        else:
            os.environ["CLEMATIS_SNAPSHOT_DIR"] = old_env
        shutil.rmtree(root, ignore_errors=True)


def sub_disk(rec, seed, shard, nshards, n=80, shrink=True):
    run_hypothesis(rec, seed, disk_strategy(), lambda c: check_disk(c, rec), max_examples=n, shrink=shrink, name="disk")


def replay_disk(case):
    check_disk(case, None)


# =====================================================================================================
# known-finding probes (minimal failing inputs; True while the defect still reproduces)
# =====================================================================================================

def _probe_codec(base, cur, fid):
    return any(f == fid for f, *_ in diagnose(base, cur))


def _probe_disk(case, fid):
    try:
        check_disk(case, None)
    except Violation as v:
        return v.sig == fid
    return False


_P0 = {"store": {"state": {"x": 1}}}
_P1 = {"store": {"state": {"x": 2}}}
PROBE_CASES = {
    FID_DOT: {"base": {}, "cur": {"a.b": 1}},
    FID_EMPTY: {"base": {}, "cur": {"": 1}},
    FID_TYPE: {"base": {"a": 1}, "cur": {"a": True}},
    FID_LOAD: {"p0": _P0, "p1": _P1, "scenario": "reader_missing", "etags": ["1", "2"], "blobs": []},
    FID_BASE: {"p0": _P0, "p1": _P1, "scenario": "corrupt", "etags": ["1", "2"], "blobs": [],
               "only": {"kind": "truncate", "offset": "after-header"}},
}

KNOWN_PROBES = {
    FID_DOT: lambda: _probe_codec(PROBE_CASES[FID_DOT]["base"], PROBE_CASES[FID_DOT]["cur"], FID_DOT),
    FID_EMPTY: lambda: _probe_codec(PROBE_CASES[FID_EMPTY]["base"], PROBE_CASES[FID_EMPTY]["cur"], FID_EMPTY),
    FID_TYPE: lambda: _probe_codec(PROBE_CASES[FID_TYPE]["base"], PROBE_CASES[FID_TYPE]["cur"], FID_TYPE),
    FID_LOAD: lambda: _probe_disk(PROBE_CASES[FID_LOAD], FID_LOAD),
    FID_BASE: lambda: _probe_disk(PROBE_CASES[FID_BASE], FID_BASE),
}


SUBCHECKS = [
    Sub("codec_exhaustive", sub_codec_exhaustive, quick={"tier": "quick"}, thorough={"tier": "thorough"},
        shards_quick=4, shards_thorough=16, exhaustive=True, replay=replay_pair),
    Sub("codec_random", sub_codec_random, quick={"n": 500}, thorough={"n": 4000}, shards_quick=4, shards_thorough=16,
        replay=replay_pair),
    Sub("codec_atheris", sub_codec_atheris, quick={"runs": 20000}, thorough={"runs": 500000}, shards_quick=1,
        shards_thorough=4, replay=replay_pair),
    Sub("disk", sub_disk, quick={"n": 120}, thorough={"n": 1500}, shards_quick=4, shards_thorough=16, replay=replay_disk),
]
